"""Shared exact geometry and generators for the C07 / C08 property-oracle harnesses.

Everything that decides *validity of an input* (simple loop, minimum gap, margin from the
boundary, general position of a ray) is exact: floats are read as the rationals they are and
the predicates are evaluated with integers on a common power-of-two denominator.  The truth
of the properties themselves (edge incidence counts, containment) comes from the executable
Lean specifications Spec/EdgeCount and Spec/Contain through the driver.
"""
import math
from fractions import Fraction

F = Fraction


# ------------------------------------------------------------------ numbers on the wire
def wn(x):
    f = x if isinstance(x, Fraction) else Fraction(x)
    if f.denominator == 1:
        return str(f.numerator)
    return '%d/%d' % (f.numerator, f.denominator)


def hx(x):
    """Replayable text of a number (hex for floats, n/d for rationals)."""
    if isinstance(x, float):
        return x.hex()
    return wn(x)


def unhx(s):
    if isinstance(s, (int, float)):
        return s
    if 'x' in s or s in ('inf', '-inf', 'nan'):
        return float.fromhex(s)
    return Fraction(s)


# ------------------------------------------------------------------ integer scaling
def common_den(nums):
    d = 1
    for x in nums:
        dx = (x if isinstance(x, Fraction) else Fraction(x)).denominator
        if dx > d and dx % d == 0:
            d = dx
        elif d % dx != 0:
            d = d * dx // math.gcd(d, dx)
    return d


def scaled(nums, d):
    out = []
    for x in nums:
        f = x if isinstance(x, Fraction) else Fraction(x)
        out.append(f.numerator * (d // f.denominator))
    return out


class IGeom(object):
    """A set of loops (2D) with integer coordinates `value * D`."""

    def __init__(self, loops, extra=()):
        flat = [c for lp in loops for p in lp for c in p] + [c for p in extra for c in p]
        self.D = common_den(flat) if flat else 1
        self.loops = [[tuple(scaled(p, self.D)) for p in lp] for lp in loops]
        self.segs = []          # (a, b, loop index, edge index)
        for li, lp in enumerate(self.loops):
            n = len(lp)
            for i in range(n):
                self.segs.append((lp[i], lp[(i + 1) % n], li, i))

    def ipt(self, p):
        """Integer coordinates of a point; rescales the whole structure if needed."""
        fx = [c if isinstance(c, Fraction) else Fraction(c) for c in p]
        need = common_den(fx + [Fraction(1, self.D)])
        if need != self.D:
            k = need // self.D
            self.loops = [[(x * k, y * k) for (x, y) in lp] for lp in self.loops]
            self.segs = [((a[0] * k, a[1] * k), (b[0] * k, b[1] * k), li, i)
                         for (a, b, li, i) in self.segs]
            self.D = need
        return tuple(scaled(fx, self.D))

    # --- distance from a point to the nearest edge, as an exact Fraction (real units^2)
    def dist_sq(self, p):
        ip = self.ipt(p)
        best = None
        for (a, b, _li, _i) in self.segs:
            num, den = _pt_seg_dsq(ip, a, b)
            if best is None or num * best[1] < best[0] * den:
                best = (num, den)
        return Fraction(best[0], best[1] * self.D * self.D)

    def nearest_edge(self, p):
        ip = self.ipt(p)
        best, arg = None, None
        for k, (a, b, _li, _i) in enumerate(self.segs):
            num, den = _pt_seg_dsq(ip, a, b)
            if best is None or num * best[1] < best[0] * den:
                best, arg = (num, den), k
        return arg

    def line_vertex_clear_sq(self, p, v):
        """Smallest squared distance from a vertex to the ray p + t v (t >= 0);
        vertices behind the origin are measured to the origin."""
        ip = self.ipt(p)
        fv = [c if isinstance(c, Fraction) else Fraction(c) for c in v]
        dv = common_den(fv)
        iv = scaled(fv, dv)
        vv = iv[0] * iv[0] + iv[1] * iv[1]
        best = None
        for lp in self.loops:
            for q in lp:
                wx, wy = q[0] - ip[0], q[1] - ip[1]
                dot = wx * iv[0] + wy * iv[1]
                if dot <= 0:
                    num, den = wx * wx + wy * wy, 1
                else:
                    cr = wx * iv[1] - wy * iv[0]
                    num, den = cr * cr, vv
                if best is None or num * best[1] < best[0] * den:
                    best = (num, den)
        return Fraction(best[0], best[1] * self.D * self.D)

    # --- validity
    def is_simple(self):
        """Every loop is a simple closed curve and different loops do not touch."""
        segs = self.segs
        ns = len(segs)
        for lp in self.loops:
            if len(lp) < 3:
                return False
        for i in range(ns):
            a, b, li, ei = segs[i]
            if a == b:
                return False
            nloop = len(self.loops[li])
            for j in range(i + 1, ns):
                c, d, lj, ej = segs[j]
                if li == lj and (ej == ei + 1 or (ei == 0 and ej == nloop - 1)):
                    # adjacent edges share exactly one end point: they must not overlap
                    shared = b if ej == ei + 1 else a
                    other1 = a if ej == ei + 1 else b
                    other2 = d if ej == ei + 1 else c
                    if nloop == 3:
                        if _orient(a, b, d if ej == ei + 1 else c) == 0:
                            return False
                        continue
                    if _orient(shared, other1, other2) == 0 and \
                            _dot(shared, other1, other2) > 0:
                        return False
                    continue
                if _segs_meet(a, b, c, d):
                    return False
        return True

    def min_feature_sq(self):
        """Smallest squared distance between two non-adjacent edges / shortest edge^2."""
        segs = self.segs
        ns = len(segs)
        best = None

        def upd(num, den):
            nonlocal best
            if best is None or num * best[1] < best[0] * den:
                best = (num, den)
        for i in range(ns):
            a, b, li, ei = segs[i]
            upd((a[0] - b[0]) ** 2 + (a[1] - b[1]) ** 2, 1)
            nloop = len(self.loops[li])
            for j in range(i + 1, ns):
                c, d, lj, ej = segs[j]
                if li == lj and (ej == ei + 1 or (ei == 0 and ej == nloop - 1)):
                    continue
                for (p, s, t) in ((a, c, d), (b, c, d), (c, a, b), (d, a, b)):
                    num, den = _pt_seg_dsq(p, s, t)
                    upd(num, den)
        # every vertex against every edge it is not an end point of (triangle altitudes)
        for (a, b, li, ei) in segs:
            for lj, lp in enumerate(self.loops):
                for q in lp:
                    if q == a or q == b:
                        continue
                    num, den = _pt_seg_dsq(q, a, b)
                    upd(num, den)
        return Fraction(best[0], best[1] * self.D * self.D)

    def area2(self, li=0):
        lp = self.loops[li]
        s = 0
        for i in range(len(lp)):
            a, b = lp[i], lp[(i + 1) % len(lp)]
            s += a[0] * b[1] - a[1] * b[0]
        return Fraction(s, self.D * self.D)

    # --- python mirror of Spec/Contain.classify (used only while shrinking a failure)
    def classify(self, p):
        ip = self.ipt(p)
        cnt = 0
        for (a, b, _li, _i) in self.segs:
            if _orient(a, b, ip) == 0 and min(a[0], b[0]) <= ip[0] <= max(a[0], b[0]) and \
                    min(a[1], b[1]) <= ip[1] <= max(a[1], b[1]):
                return 0
            if a[1] <= ip[1]:
                if ip[1] < b[1] and _orient(a, b, ip) > 0:
                    cnt += 1
            elif b[1] <= ip[1] and _orient(a, b, ip) < 0:
                cnt += 1
        return 1 if cnt % 2 == 1 else -1


def _orient(o, a, b):
    return (a[0] - o[0]) * (b[1] - o[1]) - (a[1] - o[1]) * (b[0] - o[0])


def _dot(o, a, b):
    return (a[0] - o[0]) * (b[0] - o[0]) + (a[1] - o[1]) * (b[1] - o[1])


def _on_seg(p, a, b):
    return min(a[0], b[0]) <= p[0] <= max(a[0], b[0]) and \
        min(a[1], b[1]) <= p[1] <= max(a[1], b[1])


def _segs_meet(a, b, c, d):
    """Closed segments share a point (exact)."""
    o1, o2 = _orient(a, b, c), _orient(a, b, d)
    o3, o4 = _orient(c, d, a), _orient(c, d, b)
    if ((o1 > 0 and o2 < 0) or (o1 < 0 and o2 > 0)) and \
            ((o3 > 0 and o4 < 0) or (o3 < 0 and o4 > 0)):
        return True
    if o1 == 0 and _on_seg(c, a, b):
        return True
    if o2 == 0 and _on_seg(d, a, b):
        return True
    if o3 == 0 and _on_seg(a, c, d):
        return True
    if o4 == 0 and _on_seg(b, c, d):
        return True
    return False


def _pt_seg_dsq(p, a, b):
    """Squared distance from p to segment a b, as (num, den) in integer units."""
    dx, dy = b[0] - a[0], b[1] - a[1]
    l2 = dx * dx + dy * dy
    wx, wy = p[0] - a[0], p[1] - a[1]
    if l2 == 0:
        return wx * wx + wy * wy, 1
    t = wx * dx + wy * dy
    if t <= 0:
        return wx * wx + wy * wy, 1
    if t >= l2:
        ux, uy = p[0] - b[0], p[1] - b[1]
        return ux * ux + uy * uy, 1
    cr = wx * dy - wy * dx
    return cr * cr, l2


def valid_loops(loops, min_gap=1e-3):
    """Exact validity of a region: simple loops, pairwise disjoint, every edge and every
    gap between non-adjacent edges at least `min_gap`.  (Holes inside the boundary is
    guaranteed by the generators and re-checked by the specification on the hole vertices.)"""
    g = IGeom(loops)
    if not g.is_simple():
        return None
    if g.min_feature_sq() < Fraction(min_gap) ** 2:
        return None
    if g.area2(0) == 0:
        return None
    for i in range(1, len(loops)):
        if IGeom([loops[0]]).classify(loops[i][0]) != 1:
            return None
        for j in range(1, len(loops)):
            if j != i and IGeom([loops[j]]).classify(loops[i][0]) != -1:
                return None
    return g


# ------------------------------------------------------------------ 2D polygon generators
def gen_star(rng, n, rmin=1.0, rmax=4.0, spiky=False):
    m = max(n * 2, 12)
    angs = sorted(rng.sample(range(m), n))
    # keep angular gaps below pi so that the star is simple about its centre
    pts = []
    for k, a in enumerate(angs):
        r = rng.uniform(rmin, rmax)
        if spiky:
            r = rmax * rng.uniform(0.8, 1.0) if k % 2 == 0 else rmin * rng.uniform(1.0, 1.3)
        t = 2 * math.pi * (a + rng.uniform(-0.3, 0.3)) / m
        pts.append((r * math.cos(t), r * math.sin(t)))
    return [pts]


def gen_convex(rng, n):
    a, b = rng.uniform(1, 5), rng.uniform(1, 5)
    m = max(n * 2, 12)
    angs = sorted(rng.sample(range(m), n))
    return [[(a * math.cos(2 * math.pi * k / m), b * math.sin(2 * math.pi * k / m))
             for k in angs]]


def polyomino_cells(rng, ncells, w, h, forbidden=None, within=None, start=None):
    """Random edge-connected set of cells in [0,w) x [0,h)."""
    def ok(c):
        if not (0 <= c[0] < w and 0 <= c[1] < h):
            return False
        if forbidden is not None and c in forbidden:
            return False
        if within is not None and c not in within:
            return False
        return True
    if start is None:
        cands = [(i, j) for i in range(w) for j in range(h) if ok((i, j))]
        if not cands:
            return None
        start = rng.choice(cands)
    cells = {start}
    frontier = [start]
    tries = 0
    while len(cells) < ncells and tries < 50 * ncells:
        tries += 1
        c = rng.choice(frontier)
        d = rng.choice([(1, 0), (-1, 0), (0, 1), (0, -1)])
        nc = (c[0] + d[0], c[1] + d[1])
        if ok(nc) and nc not in cells:
            cells.add(nc)
            frontier.append(nc)
    return cells


def trace_cells(cells, keep_colinear=False):
    """Boundary loops of a union of unit cells (interior on the left: outer loops counter-
    clockwise, holes clockwise).  Returns None if the boundary touches itself at a corner."""
    nxt = {}
    for (i, j) in cells:
        es = []
        if (i, j - 1) not in cells:
            es.append(((i, j), (i + 1, j)))
        if (i + 1, j) not in cells:
            es.append(((i + 1, j), (i + 1, j + 1)))
        if (i, j + 1) not in cells:
            es.append(((i + 1, j + 1), (i, j + 1)))
        if (i - 1, j) not in cells:
            es.append(((i, j + 1), (i, j)))
        for a, b in es:
            if a in nxt:
                return None
            nxt[a] = b
    loops = []
    seen = set()
    for s in sorted(nxt):
        if s in seen:
            continue
        lp = []
        c = s
        while c not in seen:
            seen.add(c)
            lp.append(c)
            c = nxt[c]
        if not keep_colinear:
            out = []
            n = len(lp)
            for k in range(n):
                a, b, c2 = lp[k - 1], lp[k], lp[(k + 1) % n]
                if (b[0] - a[0]) * (c2[1] - b[1]) - (b[1] - a[1]) * (c2[0] - b[0]) != 0:
                    out.append(b)
            lp = out
        loops.append(lp)

    def a2(lp):
        return sum(lp[k][0] * lp[(k + 1) % len(lp)][1] - lp[k][1] * lp[(k + 1) % len(lp)][0]
                   for k in range(len(lp)))
    outer = [lp for lp in loops if a2(lp) > 0]
    holes = [lp for lp in loops if a2(lp) < 0]
    if len(outer) != 1:
        return None
    return [outer[0]] + holes


def gen_polyomino(rng, ncells, w, h, allow_holes=False, keep_colinear=False):
    for _ in range(200):
        cells = polyomino_cells(rng, ncells, w, h)
        if cells is None:
            continue
        loops = trace_cells(cells, keep_colinear)
        if loops is None:
            continue
        if len(loops) > 1 and not allow_holes:
            continue
        return cells, loops
    return None, None


def transform2(loops, ang, sx, sy, tx, ty):
    c, s = math.cos(ang), math.sin(ang)
    return [[(tx + c * sx * x - s * sy * y, ty + s * sx * x + c * sy * y) for (x, y) in lp]
            for lp in loops]


def rotate_start(lp, k):
    k %= len(lp)
    return list(lp[k:]) + list(lp[:k])


# ------------------------------------------------------------------ rational rigid motions
class Rigid(object):
    """x -> R x + t with a rational rotation matrix from an integer quaternion."""

    def __init__(self, quat, t):
        a, b, c, d = quat
        n = a * a + b * b + c * c + d * d
        self.quat = tuple(quat)
        self.t = tuple(Fraction(x) for x in t)
        self.R = [[F(a * a + b * b - c * c - d * d, n), F(2 * (b * c - a * d), n),
                   F(2 * (b * d + a * c), n)],
                  [F(2 * (b * c + a * d), n), F(a * a - b * b + c * c - d * d, n),
                   F(2 * (c * d - a * b), n)],
                  [F(2 * (b * d - a * c), n), F(2 * (c * d + a * b), n),
                   F(a * a - b * b - c * c + d * d, n)]]

    def apply(self, p):
        return tuple(self.R[i][0] * p[0] + self.R[i][1] * p[1] + self.R[i][2] * p[2] +
                     self.t[i] for i in range(3))

    def rot(self, v):
        return tuple(self.R[i][0] * v[0] + self.R[i][1] * v[1] + self.R[i][2] * v[2]
                     for i in range(3))

    def to_json(self):
        return {'quat': list(self.quat), 't': [wn(x) for x in self.t]}

    @classmethod
    def from_json(cls, j):
        return cls(j['quat'], [Fraction(x) for x in j['t']])


def rand_rigid(rng, big=False):
    k = rng.random()
    if k < 0.2:
        q = (1, 0, 0, 0)
    elif k < 0.35:
        q = rng.choice([(1, 1, 0, 0), (1, 0, 0, 1), (0, 1, 0, 0), (1, 0, 1, 0), (1, 1, 1, 1)])
    else:
        while True:
            q = tuple(rng.randint(-7, 7) for _ in range(4))
            if any(q):
                break
    m = 1000.0 if big else rng.choice([0.0, 5.0, 50.0])
    if m == 0.0:
        t = (0, 0, 0)
    else:
        t = tuple(Fraction(rng.uniform(-m, m)) for _ in range(3))
    return Rigid(q, t)


def fl3(p):
    return (float(p[0]), float(p[1]), float(p[2]))


# ------------------------------------------------------------------ exact 3D helpers
def vsub(a, b):
    return (a[0] - b[0], a[1] - b[1], a[2] - b[2])


def vadd(a, b):
    return (a[0] + b[0], a[1] + b[1], a[2] + b[2])


def vmul(a, k):
    return (a[0] * k, a[1] * k, a[2] * k)


def vdot(a, b):
    return a[0] * b[0] + a[1] * b[1] + a[2] * b[2]


def vcross(a, b):
    return (a[1] * b[2] - a[2] * b[1], a[2] * b[0] - a[0] * b[2], a[0] * b[1] - a[1] * b[0])


def newell(loop):
    """Exact Newell vector (twice the vector area) of a closed 3D loop."""
    n = [0, 0, 0]
    m = len(loop)
    for i in range(m):
        a, b = loop[i], loop[(i + 1) % m]
        n[0] += (a[1] - b[1]) * (a[2] + b[2])
        n[1] += (a[2] - b[2]) * (a[0] + b[0])
        n[2] += (a[0] - b[0]) * (a[1] + b[1])
    return tuple(n)


def approx_unit(v):
    """A rational vector of length ~1 in the direction of the exact vector v."""
    l = math.sqrt(float(vdot(v, v)))
    return tuple(Fraction(int(round(float(c) / l * 1048576)), 1048576) for c in v)


def seg_seg_dsq3(p1, q1, p2, q2):
    """Exact squared distance between the 3D segments p1 q1 and p2 q2 (Fractions)."""
    d1, d2, r = vsub(q1, p1), vsub(q2, p2), vsub(p1, p2)
    a, e, f = vdot(d1, d1), vdot(d2, d2), vdot(d2, r)
    if a == 0 and e == 0:
        return vdot(r, r)
    if a == 0:
        s, t = F(0), min(max(F(f) / e, 0), 1)
    else:
        c = vdot(d1, r)
        if e == 0:
            t, s = F(0), min(max(F(-c) / a, 0), 1)
        else:
            b = vdot(d1, d2)
            den = a * e - b * b
            s = min(max(F(b * f - c * e) / den, 0), 1) if den != 0 else F(0)
            t = F(b * s + f) / e
            if t < 0:
                t, s = F(0), min(max(F(-c) / a, 0), 1)
            elif t > 1:
                t, s = F(1), min(max(F(b - c) / a, 0), 1)
    c1 = vadd(p1, vmul(d1, s))
    c2 = vadd(p2, vmul(d2, t))
    w = vsub(c1, c2)
    return vdot(w, w)


def interior_point_2d(loops):
    """An exact point strictly inside the region bounded by the loops (scan line through
    the middle of two consecutive distinct vertex heights, middle of the widest span)."""
    ys = sorted(set(Fraction(p[1]) for lp in loops for p in lp))
    best = None
    for k in range(len(ys) - 1):
        y = (ys[k] + ys[k + 1]) / 2
        xs = []
        for lp in loops:
            n = len(lp)
            for i in range(n):
                a = (Fraction(lp[i][0]), Fraction(lp[i][1]))
                b = (Fraction(lp[(i + 1) % n][0]), Fraction(lp[(i + 1) % n][1]))
                if (a[1] < y) != (b[1] < y):
                    xs.append(a[0] + (y - a[1]) * (b[0] - a[0]) / (b[1] - a[1]))
        xs.sort()
        for i in range(0, len(xs) - 1, 2):
            wdt = min(xs[i + 1] - xs[i], ys[k + 1] - ys[k])
            if best is None or wdt > best[0]:
                best = (wdt, ((xs[i] + xs[i + 1]) / 2, y))
    return best[1]


# ------------------------------------------------------------------ solids (model space)
class Solid(object):
    """A closed polyhedral solid in exact model coordinates.

    mverts : vertex coordinates (Fractions); mfaces : faces as lists of loops of vertex ids,
    oriented outward (boundary counter-clockwise seen from outside, holes clockwise);
    volume : exact enclosed volume;  base/za/zb/shift/apex describe exact containment."""

    def __init__(self):
        self.kind = ''
        self.mverts = []
        self.mfaces = []
        self.volume = None
        self.base = None
        self.za = self.zb = None
        self.shift = (F(0), F(0))
        self.apex = None
        self.star_point = None
        self.caps = set()

    def project(self, q):
        """Model point -> (2D point to classify against `base`, height status) where the
        status is +1 strictly within the height range, 0 on a cap plane, -1 beyond."""
        x, y, z = q
        if z < self.za or z > self.zb:
            st = -1
        elif z == self.za or z == self.zb:
            st = 0
        else:
            st = 1
        if self.kind == 'pyramid':
            if z >= self.zb:
                return (x, y), (-1 if z > self.zb else 0)
            s = (self.zb - self.za) / (self.zb - z)
            ax, ay = self.apex
            return (ax + (x - ax) * s, ay + (y - ay) * s), st
        k = (z - self.za) / (self.zb - self.za)
        return (x - self.shift[0] * k, y - self.shift[1] * k), st

    def lateral_scale(self, q):
        """Factor by which horizontal distances at the height of q are magnified by
        `project` (1 for prisms)."""
        if self.kind == 'pyramid':
            return (self.zb - self.za) / (self.zb - q[2])
        return F(1)

    def max_slope(self):
        """Bound on |d(horizontal position of the lateral surface)/dz|."""
        if self.kind == 'pyramid':
            ax, ay = self.apex
            h = self.zb - self.za
            m = max(max(abs(p[0] - ax), abs(p[1] - ay)) for lp in self.base for p in lp)
            return 2 * m / h
        h = self.zb - self.za
        return (abs(self.shift[0]) + abs(self.shift[1])) / h


def _area2_exact(lp):
    return sum(F(lp[k][0]) * F(lp[(k + 1) % len(lp)][1]) -
               F(lp[k][1]) * F(lp[(k + 1) % len(lp)][0]) for k in range(len(lp)))


def orient_region(loops):
    """Outer loop counter-clockwise, holes clockwise (exact)."""
    out = []
    for i, lp in enumerate(loops):
        lp = [(F(p[0]), F(p[1])) for p in lp]
        a = _area2_exact(lp)
        if (i == 0 and a < 0) or (i > 0 and a > 0):
            lp = list(reversed(lp))
        out.append(lp)
    return out


def make_prism(loops, za, zb, shift=(0, 0)):
    s = Solid()
    s.kind = 'prism' if (shift[0] == 0 and shift[1] == 0) else 'oblique'
    loops = orient_region(loops)
    s.base, s.za, s.zb = loops, F(za), F(zb)
    s.shift = (F(shift[0]), F(shift[1]))
    bot, top = [], []
    for lp in loops:
        b_ids, t_ids = [], []
        for p in lp:
            b_ids.append(len(s.mverts))
            s.mverts.append((p[0], p[1], s.za))
        for p in lp:
            t_ids.append(len(s.mverts))
            s.mverts.append((p[0] + s.shift[0], p[1] + s.shift[1], s.zb))
        bot.append(b_ids)
        top.append(t_ids)
    s.mfaces.append([list(reversed(b)) for b in bot])
    for b_ids, t_ids in zip(bot, top):
        n = len(b_ids)
        for i in range(n):
            j = (i + 1) % n
            s.mfaces.append([[b_ids[i], b_ids[j], t_ids[j], t_ids[i]]])
    s.mfaces.append([list(t) for t in top])
    s.caps = {0, len(s.mfaces) - 1}
    area = sum(_area2_exact(lp) for lp in loops) / 2
    s.volume = area * (s.zb - s.za)
    return s


def make_pyramid(loop, za, zb, apex_xy):
    s = Solid()
    s.kind = 'pyramid'
    loops = orient_region([loop])
    s.base, s.za, s.zb = loops, F(za), F(zb)
    s.apex = (F(apex_xy[0]), F(apex_xy[1]))
    ids = []
    for p in loops[0]:
        ids.append(len(s.mverts))
        s.mverts.append((p[0], p[1], s.za))
    ap = len(s.mverts)
    s.mverts.append((s.apex[0], s.apex[1], s.zb))
    s.mfaces.append([list(reversed(ids))])
    n = len(ids)
    for i in range(n):
        s.mfaces.append([[ids[i], ids[(i + 1) % n], ap]])
    s.caps = {0}
    s.volume = _area2_exact(loops[0]) / 2 * (s.zb - s.za) / 3
    return s


def face_witness(solid, fi):
    """(exact point in the interior of the face, rational direction of length ~1 along the
    face normal)."""
    face = solid.mfaces[fi]
    pts = [[solid.mverts[i] for i in lp] for lp in face]
    nrm = newell(pts[0])
    if fi in solid.caps:
        # horizontal cap: an exact interior point of its 2D region
        z = pts[0][0][2]
        loops2 = [[(p[0], p[1]) for p in lp] for lp in pts]
        ip = interior_point_2d(loops2)
        q = (ip[0], ip[1], z)
    else:
        # lateral faces are triangles or parallelograms: the vertex mean is inside
        m = len(pts[0])
        q = tuple(sum(p[k] for p in pts[0]) / m for k in range(3))
    u = approx_unit(nrm)
    return q, u


class FaceTester(object):
    """Exact closed intersection test of a segment with the planar faces of a solid."""

    def __init__(self, solid):
        self.faces = []
        for face in solid.mfaces:
            loops = [[solid.mverts[i] for i in lp] for lp in face]
            n = newell(loops[0])
            ax = max(range(3), key=lambda k: abs(n[k]))
            keep = [k for k in range(3) if k != ax]
            g = IGeom([[(p[keep[0]], p[keep[1]]) for p in lp] for lp in loops])
            self.faces.append((n, loops[0][0], keep, g))

    def hits(self, a, b, skip):
        for fi, (n, p0, keep, g) in enumerate(self.faces):
            if fi == skip:
                continue
            s0 = vdot(n, vsub(a, p0))
            s1 = vdot(n, vsub(b, p0))
            if (s0 > 0 and s1 > 0) or (s0 < 0 and s1 < 0):
                continue
            if s0 == 0 and s1 == 0:
                # the segment lies in the plane of this face: 2D test
                a2 = (a[keep[0]], a[keep[1]])
                b2 = (b[keep[0]], b[keep[1]])
                if g.classify(a2) >= 0 or g.classify(b2) >= 0:
                    return True
                ia, ib = g.ipt(a2), g.ipt(b2)
                ia = g.ipt(a2)
                if any(_segs_meet(ia, ib, c, d) for (c, d, _l, _i) in g.segs):
                    return True
                continue
            t = Fraction(s0) / (s0 - s1)
            x = vadd(a, vmul(vsub(b, a), t))
            if g.classify((x[keep[0]], x[keep[1]])) >= 0:
                return True
        return False


def gen_base(rng, kind, n):
    """A valid base region (list of loops of floats/ints) and a label."""
    for _ in range(50):
        if kind == 'star':
            loops = gen_star(rng, n, 1.0, 4.0)
        elif kind == 'spiky':
            loops = gen_star(rng, n if n % 2 == 0 else n + 1, 1.0, 4.0, spiky=True)
        elif kind == 'convex':
            loops = gen_convex(rng, n)
        elif kind in ('polyomino', 'polyomino_holes'):
            w = rng.randint(3, 7)
            h = rng.randint(3, 7)
            if kind == 'polyomino_holes':
                w, h = max(w, 4), max(h, 4)
                cells = set((i, j) for i in range(w) for j in range(h))
                for _k in range(rng.randint(1, 3)):
                    c = (rng.randint(1, w - 2), rng.randint(1, h - 2))
                    cells.discard(c)
                    if rng.random() < 0.4:
                        d = rng.choice([(1, 0), (0, 1)])
                        c2 = (c[0] + d[0], c[1] + d[1])
                        if 1 <= c2[0] <= w - 2 and 1 <= c2[1] <= h - 2:
                            cells.discard(c2)
                for _k in range(rng.randint(0, 3)):
                    cells.discard(rng.choice([(0, 0), (w - 1, 0), (0, h - 1), (w - 1, h - 1),
                                              (rng.randint(0, w - 1), 0)]))
                loops = trace_cells(cells)
            else:
                cells, loops = gen_polyomino(rng, rng.randint(4, w * h - 1), w, h)
            if loops is None:
                continue
            if kind == 'polyomino_holes' and len(loops) < 2:
                continue
            if sum(len(lp) for lp in loops) > 64:
                continue
            sc = rng.choice([1.0, 0.5, 2.0, 0.75])
            loops = [[(x * sc, y * sc) for (x, y) in lp] for lp in loops]
        elif kind == 'L':
            a, b = rng.randint(2, 8) / 2.0, rng.randint(2, 8) / 2.0
            c, d = rng.randint(1, 6) / 4.0, rng.randint(1, 6) / 4.0
            c, d = min(c, a - 0.25), min(d, b - 0.25)
            loops = [[(0, 0), (a, 0), (a, d), (c, d), (c, b), (0, b)]]
        elif kind == 'ring':
            # star-shaped ring: outer star and a scaled copy as hole
            outer = gen_star(rng, n, 2.0, 4.0)[0]
            k = rng.uniform(0.2, 0.45)
            m = rng.randint(3, 8)
            hole = [(k * 2.0 * math.cos(2 * math.pi * i / m + 0.3),
                     k * 2.0 * math.sin(2 * math.pi * i / m + 0.3)) for i in range(m)]
            loops = [outer, hole]
        else:
            raise ValueError(kind)
        if valid_loops(loops, 0.05) is not None:
            return loops
    return None
