"""C16 -- 2D and 3D sibling classes agree on geometry in a common plane.

Property oracle on the REAL code.  Every case is a piece of plain 2D float data (segment,
ray, arc, polyline, polygon, mesh) plus call arguments plus an orthonormal frame
(o, x, y, n): the world XY frame or a random plane.  The 2D class is built from the data,
the 3D sibling from the same data embedded through the frame (p -> o + x*u + y*v, computed
here, and -- where the library offers it -- also through its own from_*2d constructor), every
member the two classes share is called on both, the 3D answer is mapped back through the
frame ((p-o).x, (p-o).y; the component along n must vanish) and compared with the 2D answer:
numbers to 1e-9 relative to the coordinate magnitude, counts / booleans / None-ness / index
structures exactly.  Calls whose discrete outcome sits within 1e-6 of a decision boundary
(parameter at a segment end, distance equal to a tolerance, a subdivision distance landing on
the end point) are generated away from it and skipped if they are not.
"""
import math
import random
import time

from ladybug_geometry.geometry2d.pointvector import Point2D, Vector2D
from ladybug_geometry.geometry3d.pointvector import Point3D, Vector3D
from ladybug_geometry.geometry2d.line import LineSegment2D
from ladybug_geometry.geometry3d.line import LineSegment3D
from ladybug_geometry.geometry2d.ray import Ray2D
from ladybug_geometry.geometry3d.ray import Ray3D
from ladybug_geometry.geometry2d.arc import Arc2D
from ladybug_geometry.geometry3d.arc import Arc3D
from ladybug_geometry.geometry2d.polyline import Polyline2D
from ladybug_geometry.geometry3d.polyline import Polyline3D
from ladybug_geometry.geometry2d.polygon import Polygon2D
from ladybug_geometry.geometry3d.face import Face3D
from ladybug_geometry.geometry2d.mesh import Mesh2D
from ladybug_geometry.geometry3d.mesh import Mesh3D
from ladybug_geometry.geometry3d.plane import Plane
from ladybug_geometry import intersection2d

TOL = 1e-9
MARGIN = 1e-6

ASSUMPTIONS = [
    'valid inputs: non-degenerate segments/rays (length >= 0.05), arcs with radius >= 0.05, '
    'simple polygons (star / convex / rectilinear, both orders), meshes of triangles and '
    'strictly convex quads, polylines whose vertices are either clear corners (turn >= 5 '
    'degrees, edges >= 0.5) or exactly collinear',
    'numeric agreement to 1e-9 * S^d (S = largest |coordinate| of the 2D data and of its 3D '
    'embedding, >= 1; d = dimension of the quantity); counts, booleans, None-ness, index '
    'tuples exactly; sets where the library does not fix an order (intersection points of a '
    'plane with an arc / face) are compared as sets',
    'discrete outcomes are only compared when the generating data is at least 1e-6 (relative) '
    'away from the decision boundary; such skipped calls are counted in extra.skipped',
    'min / max / center and scale about the world origin are compared only in the world XY '
    'frame (a bounding box is not invariant under the embedding)',
    'pole_of_inaccessibility is compared through the clearance it reaches (to the tolerance '
    'passed in), the pole itself is not unique',
    'Face3D enforces counter-clockwise vertices: vertex sequences of faces are compared as '
    'cyclic sequences up to orientation',
]
TRUSTED = [
    'C16 oracle is the comparison itself (two implementations against each other); the frame '
    'map and its inverse are evaluated here in double precision (3 multiply-adds per '
    'coordinate), no Lean executable spec is used',
]


# ====================================================================== frame helpers
def dot3(a, b):
    return a[0] * b[0] + a[1] * b[1] + a[2] * b[2]


def cross3(a, b):
    return (a[1] * b[2] - a[2] * b[1], a[2] * b[0] - a[0] * b[2], a[0] * b[1] - a[1] * b[0])


def make_frame(rng, kind):
    if kind == 'xy':
        return {'kind': 'xy', 'o': [0.0, 0.0, 0.0], 'x': [1.0, 0.0, 0.0], 'y': [0.0, 1.0, 0.0],
                'n': [0.0, 0.0, 1.0]}
    while True:
        n = (rng.gauss(0, 1), rng.gauss(0, 1), rng.gauss(0, 1))
        w = (rng.gauss(0, 1), rng.gauss(0, 1), rng.gauss(0, 1))
        ln = math.sqrt(dot3(n, n))
        if ln < 0.1:
            continue
        n = tuple(c / ln for c in n)
        x = cross3(n, w)
        lx = math.sqrt(dot3(x, x))
        if lx < 0.1:
            continue
        x = tuple(c / lx for c in x)
        break
    y = cross3(n, x)
    ly = math.sqrt(dot3(y, y))
    y = tuple(c / ly for c in y)
    m = {'plane': 10.0, 'far': 1e3}[kind]
    o = (rng.uniform(-m, m), rng.uniform(-m, m), rng.uniform(-m, m))
    return {'kind': kind, 'o': list(o), 'x': list(x), 'y': list(y), 'n': list(n)}


class Frame(object):
    def __init__(self, d):
        self.kind = d['kind']
        self.o, self.x, self.y, self.n = d['o'], d['x'], d['y'], d['n']
        self.xy = self.kind == 'xy'

    def plane(self, origin2=None):
        o = self.P(origin2) if origin2 is not None else Point3D(*self.o)
        return Plane(Vector3D(*self.n), o, Vector3D(*self.x))

    def P(self, p, h=0.0):
        """embed a 2D point (optionally lifted by h along the normal)."""
        return Point3D(*[self.o[c] + self.x[c] * p[0] + self.y[c] * p[1] + self.n[c] * h
                         for c in range(3)])

    def V(self, v):
        return Vector3D(*[self.x[c] * v[0] + self.y[c] * v[1] for c in range(3)])

    def back(self, p):
        """3D point -> (u, v, w): plane coordinates and offset along the normal."""
        d = (p[0] - self.o[0], p[1] - self.o[1], p[2] - self.o[2])
        return (dot3(d, self.x), dot3(d, self.y), dot3(d, self.n))

    def backv(self, v):
        d = (v[0], v[1], v[2])
        return (dot3(d, self.x), dot3(d, self.y), dot3(d, self.n))

    def perp_plane(self, q, d):
        """the plane through the embedded line q + t d that is perpendicular to the frame."""
        nrm = self.V((-d[1], d[0]))
        return Plane(nrm, self.P(q))


# ====================================================================== comparison
class Cmp(object):
    def __init__(self, case, pair, S):
        self.case, self.pair, self.S = case, pair, S
        self.fails = []
        self.n = 0
        self.skipped = 0
        self.ops = set()
        self.worst = 0.0
        self.variant = ''

    def _fail(self, member, a, b, note=''):
        sig = '%s.%s' % (self.pair, member)
        if self.variant:
            sig += '|' + self.variant
        self.fails.append({'signature': sig, 'member': member, 'value2d': repr(a)[:300],
                           'value3d': repr(b)[:300], 'note': note})

    def raised(self, member, side, e):
        self.n += 1
        self.fails.append({'signature': '%s.%s|%s raises %s' % (self.pair, member, side,
                                                                type(e).__name__),
                           'member': member, 'value2d': '-', 'value3d': '-',
                           'note': '%s: %s' % (type(e).__name__, str(e)[:200])})

    def num(self, member, a, b, dim=1, tol=None):
        self.n += 1
        self.ops.add(member)
        t = tol if tol is not None else TOL * self.S ** dim
        try:
            d = abs(float(a) - float(b))
            ok = d <= t
        except Exception:
            ok, d = False, 0.0
        if ok:
            self.worst = max(self.worst, d / t if t else 0.0)
        else:
            self._fail(member, a, b, 'numbers differ by more than %.3g' % t)

    def disc(self, member, a, b):
        self.n += 1
        self.ops.add(member)
        if a != b or type(a) != type(b):
            self._fail(member, a, b, 'discrete results differ')

    def pt(self, member, p2, p3, fr, tol=None, vec=False):
        """2D point/vector against a 3D one mapped back through the frame."""
        self.n += 1
        self.ops.add(member)
        t = tol if tol is not None else TOL * self.S
        try:
            u, v, w = (fr.backv(p3) if vec else fr.back(p3))
            d = max(abs(u - p2[0]), abs(v - p2[1]), abs(w))
            ok = d <= t
        except Exception as e:
            ok, d, u, v, w = False, 0.0, repr(e), None, None
        if ok:
            self.worst = max(self.worst, d / t)
        else:
            self._fail(member, tuple(p2) if p2 is not None else None, (u, v, w),
                       '3D answer mapped to the plane (u, v, offset) differs by more than %.3g' % t)

    def pts(self, member, l2, l3, fr, tol=None, unordered=False, cyclic=False):
        """lists of points: lengths exactly, points pairwise."""
        self.n += 1
        self.ops.add(member)
        if (l2 is None) != (l3 is None):
            return self._fail(member, l2, l3, 'None on one side only')
        if l2 is None:
            return
        if len(l2) != len(l3):
            return self._fail(member, 'len %d' % len(l2), 'len %d' % len(l3), 'counts differ')
        t = tol if tol is not None else TOL * self.S
        a = [tuple(p) for p in l2]
        b = [fr.back(p) for p in l3]
        if any(abs(q[2]) > t for q in b):
            return self._fail(member, a[:6], b[:6], '3D answer leaves the plane')
        b = [(q[0], q[1]) for q in b]
        if unordered:
            a, b = sorted(a), sorted(b)
        cands = [b]
        if cyclic:
            cands = []
            for seq in (b, list(reversed(b))):
                for s in range(len(seq)):
                    cands.append(seq[s:] + seq[:s])
        for c in cands:
            if all(abs(p[0] - q[0]) <= t and abs(p[1] - q[1]) <= t for p, q in zip(a, c)):
                return
        self._fail(member, a[:8], b[:8], 'point lists differ by more than %.3g' % t)

    def skip(self):
        self.skipped += 1


def call(cmp, member, f2, f3):
    """call both siblings; an exception on one side only (or different ones) is a failure,
    the same exception type on both sides is agreement."""
    r2 = r3 = None
    e2 = e3 = None
    try:
        r2 = f2()
    except Exception as e:
        e2 = e
    try:
        r3 = f3()
    except Exception as e:
        e3 = e
    if e2 is None and e3 is None:
        return True, r2, r3
    cmp.n += 1
    cmp.ops.add(member)
    if e2 is not None and e3 is not None and type(e2) is type(e3):
        return False, None, None
    if e2 is not None and e3 is not None:
        cmp._fail(member, repr(e2)[:120], repr(e3)[:120], 'different exceptions')
    elif e2 is not None:
        cmp.raised(member, '2D', e2)
    else:
        cmp.raised(member, '3D', e3)
    return False, None, None


def p2(p):
    return Point2D(p[0], p[1])


def v2(p):
    return Vector2D(p[0], p[1])


def scale_of(fr, pts2):
    m = 1.0
    for p in pts2:
        m = max(m, abs(p[0]), abs(p[1]))
        q = fr.P(p)
        m = max(m, abs(q.x), abs(q.y), abs(q.z))
    return m


# ---------------------------------------------------------------- shared: transforms
def transforms(cmp, fr, T, o2, o3, compare):
    """o2/o3: the sibling objects; T: transform arguments; compare(tag, r2, r3)."""
    mv, ang, org, nrm, fac = T['move'], T['angle'], T['origin'], T['normal'], T['factor']
    n3 = Vector3D(*fr.n)
    specs = [
        ('move', lambda: o2.move(v2(mv)), lambda: o3.move(fr.V(mv))),
        ('rotate', lambda: o2.rotate(ang, p2(org)), lambda: o3.rotate(n3, ang, fr.P(org))),
        ('reflect', lambda: o2.reflect(v2(nrm), p2(org)),
         lambda: o3.reflect(fr.V(nrm), fr.P(org))),
        ('scale', lambda: o2.scale(fac, p2(org)), lambda: o3.scale(fac, fr.P(org))),
    ]
    if fr.xy:
        specs.append(('rotate_xy', lambda: o2.rotate(ang, p2(org)),
                      lambda: o3.rotate_xy(ang, fr.P(org))))
        specs.append(('scale(origin=None)', lambda: o2.scale(fac), lambda: o3.scale(fac)))
    # results of a transform live at the scale of the transformed data
    S0 = cmp.S
    cmp.S = (S0 + 2 * scale_of(fr, [org])) * max(1.0, abs(fac)) + abs(mv[0]) + abs(mv[1])
    try:
        for tag, f2, f3 in specs:
            ok, r2, r3 = call(cmp, tag, f2, f3)
            if ok:
                compare(tag, r2, r3)
    finally:
        cmp.S = S0


# ====================================================================== LineSegment / Ray
def _case_S(fr, case, pts):
    return scale_of(fr, pts)


def _margin_ok(val, bounds, scale=1.0):
    return all(abs(val - b) > MARGIN * max(scale, 1e-30) for b in bounds)


def check_line(case):
    fr = Frame(case['frame'])
    is_seg = case['pair'] == 'line'
    p, v = case['p'], case['v']
    pair = 'LineSegment2D/LineSegment3D' if is_seg else 'Ray2D/Ray3D'
    end = (p[0] + v[0], p[1] + v[1])
    S = _case_S(fr, case, [p, end] + case['pts'] + [case['other']['p']])
    cmp = Cmp(case, pair, S)
    C2, C3 = (LineSegment2D, LineSegment3D) if is_seg else (Ray2D, Ray3D)
    ok, a, b = call(cmp, '__init__', lambda: C2(p2(p), v2(v)), lambda: C3(fr.P(p), fr.V(v)))
    if not ok:
        return cmp
    L = math.hypot(v[0], v[1])
    for m in ('p',) + (('p1', 'p2', 'midpoint') if is_seg else ()):
        ok, r2, r3 = call(cmp, m, lambda: getattr(a, m), lambda: getattr(b, m))
        if ok:
            cmp.pt(m, r2, r3, fr)
    ok, r2, r3 = call(cmp, 'v', lambda: a.v, lambda: b.v)
    if ok:
        cmp.pt('v', r2, r3, fr, vec=True)
    if is_seg:
        ok, r2, r3 = call(cmp, 'length', lambda: a.length, lambda: b.length)
        if ok:
            cmp.num('length', r2, r3)
        for m in ('endpoints', 'vertices'):
            ok, r2, r3 = call(cmp, m, lambda: getattr(a, m), lambda: getattr(b, m))
            if ok:
                cmp.pts(m, r2, r3, fr)
        ok, r2, r3 = call(cmp, 'flip', lambda: a.flip(), lambda: b.flip())
        if ok:
            cmp.pt('flip', r2.p, r3.p, fr)
            cmp.pt('flip', r2.v, r3.v, fr, vec=True)
        ok, r2, r3 = call(cmp, 'to_array', lambda: a.to_array(), lambda: b.to_array())
        if ok:
            cmp.pts('to_array', r2, r3, fr)
    else:
        ok, r2, r3 = call(cmp, 'reverse', lambda: a.reverse(), lambda: b.reverse())
        if ok:
            cmp.pt('reverse', r2.p, r3.p, fr)
            cmp.pt('reverse', r2.v, r3.v, fr, vec=True)
        ok, r2, r3 = call(cmp, 'to_array', lambda: a.to_array(), lambda: b.to_array())
        if ok:
            cmp.pt('to_array', r2[0], r3[0], fr)
            cmp.pt('to_array', r2[1], r3[1], fr, vec=True)
    if fr.xy:
        for m in ('min', 'max', 'center'):
            ok, r2, r3 = call(cmp, m, lambda: getattr(a, m), lambda: getattr(b, m))
            if ok:
                cmp.pt(m, r2, r3, fr)
    else:
        ok, r2, r3 = call(cmp, 'center', lambda: a.center, lambda: b.center)
        if ok:
            cmp.pt('center', r2, r3, fr)     # the midpoint of p .. p+v is frame independent
    # closest point / distance, query in the plane and lifted off the plane
    for q, h in zip(case['pts'], case['lifts']):
        t = ((q[0] - p[0]) * v[0] + (q[1] - p[1]) * v[1]) / (L * L)
        if not _margin_ok(t, (0.0, 1.0) if is_seg else (0.0,)):
            cmp.skip()
            continue
        ok, r2, r3 = call(cmp, 'closest_point', lambda: a.closest_point(p2(q)),
                          lambda: b.closest_point(fr.P(q, h)))
        if ok:
            cmp.pt('closest_point', r2, r3, fr)
        ok, r2, r3 = call(cmp, 'distance_to_point', lambda: a.distance_to_point(p2(q)),
                          lambda: b.distance_to_point(fr.P(q, h)))
        if ok:
            cmp.num('distance_to_point', math.hypot(r2, h), r3)
    if is_seg:
        for t in case['params']:
            ok, r2, r3 = call(cmp, 'point_at', lambda: a.point_at(t), lambda: b.point_at(t))
            if ok:
                cmp.pt('point_at', r2, r3, fr)
            ok, r2, r3 = call(cmp, 'point_at_length', lambda: a.point_at_length(t * L),
                              lambda: b.point_at_length(t * L))
            if ok:
                cmp.pt('point_at_length', r2, r3, fr)
        for n in case['numbers']:
            ok, r2, r3 = call(cmp, 'subdivide_evenly', lambda: a.subdivide_evenly(n),
                              lambda: b.subdivide_evenly(n))
            if ok:
                cmp.variant = 'count'
                cmp.disc('subdivide_evenly', len(r2), len(r3))
                cmp.variant = ''
                if len(r2) == len(r3):
                    cmp.pts('subdivide_evenly', r2, r3, fr)
        for dist in case['distances']:
            ds = dist if isinstance(dist, list) else [dist]
            cum, k, landing = ds[0], 0, False
            while cum < L * (1 + 1e-3):
                if abs(cum - L) <= MARGIN * L:
                    landing = True
                if k < len(ds) - 1:
                    k += 1
                cum += ds[k]
            if landing:
                cmp.skip()
                continue
            ok, r2, r3 = call(cmp, 'subdivide', lambda: a.subdivide(dist),
                              lambda: b.subdivide(dist))
            if ok:
                cmp.variant = 'count'
                cmp.disc('subdivide', len(r2), len(r3))
                cmp.variant = ''
                if len(r2) == len(r3):
                    cmp.pts('subdivide', r2, r3, fr)
        e1, e2 = case['ends']
        ok, r2, r3 = call(cmp, 'from_end_points', lambda: C2.from_end_points(p2(e1), p2(e2)),
                          lambda: C3.from_end_points(fr.P(e1), fr.P(e2)))
        if ok:
            cmp.pt('from_end_points', r2.p, r3.p, fr)
            cmp.pt('from_end_points', r2.v, r3.v, fr, vec=True)
        ok, r2, r3 = call(cmp, 'from_sdl', lambda: C2.from_sdl(p2(e1), v2(v), case['sdl_len']),
                          lambda: C3.from_sdl(fr.P(e1), fr.V(v), case['sdl_len']))
        if ok:
            cmp.pt('from_sdl', r2.p, r3.p, fr)
            cmp.pt('from_sdl', r2.v, r3.v, fr, vec=True)
        if fr.xy:
            ok, r2, r3 = call(cmp, 'from_line_segment2d', lambda: a,
                              lambda: LineSegment3D.from_line_segment2d(a))
            if ok:
                cmp.pt('from_line_segment2d', r2.p, r3.p, fr)
                cmp.pt('from_line_segment2d', r2.v, r3.v, fr, vec=True)
    elif fr.xy:
        ok, r2, r3 = call(cmp, 'from_ray2d', lambda: a, lambda: Ray3D.from_ray2d(a))
        if ok:
            cmp.pt('from_ray2d', r2.p, r3.p, fr)
            cmp.pt('from_ray2d', r2.v, r3.v, fr, vec=True)
    # relation to another line / ray
    ot = case['other']
    oa, ob = Ray2D(p2(ot['p']), v2(ot['v'])), Ray3D(fr.P(ot['p']), fr.V(ot['v']))
    Lo = math.hypot(ot['v'][0], ot['v'][1])
    cr = v[0] * ot['v'][1] - v[1] * ot['v'][0]
    ang = math.atan2(abs(cr), abs(v[0] * ot['v'][0] + v[1] * ot['v'][1]))
    for at in case['angle_tols']:
        if not _margin_ok(ang, (at,)):
            cmp.skip()
            continue
        ok, r2, r3 = call(cmp, 'is_parallel', lambda: a.is_parallel(oa, at),
                          lambda: b.is_parallel(ob, at))
        if ok:
            cmp.disc('is_parallel', r2, r3)
        # distance of p from the infinite other line
        dist = abs((p[0] - ot['p'][0]) * ot['v'][1] - (p[1] - ot['p'][1]) * ot['v'][0]) / Lo
        for tol in case['tols']:
            if not _margin_ok(dist, (tol,), S):
                cmp.skip()
                continue
            for atol in (None, at):
                ok, r2, r3 = call(cmp, 'is_colinear', lambda: a.is_colinear(oa, tol, atol),
                                  lambda: b.is_colinear(ob, tol, atol))
                if ok:
                    cmp.disc('is_colinear', r2, r3)
    # intersection with the other line extended infinitely <-> with the plane through it
    if abs(cr) > 1e-3 * L * Lo:
        t = ((ot['p'][0] - p[0]) * ot['v'][1] - (ot['p'][1] - p[1]) * ot['v'][0]) / cr
        if _margin_ok(t, (0.0, 1.0) if is_seg else (0.0,)):
            ok, r2, r3 = call(cmp, 'intersect(infinite line | plane)',
                              lambda: intersection2d.intersect_line2d_infinite(a, oa),
                              lambda: b.intersect_plane(fr.perp_plane(ot['p'], ot['v'])))
            if ok:
                m = 'intersect(infinite line | plane)'
                cmp.disc(m + '.is_none', r2 is None, r3 is None)
                if r2 is not None and r3 is not None:
                    cmp.pt(m, r2, r3, fr)
        else:
            cmp.skip()

    def same(tag, r2, r3):
        cmp.pt(tag, r2.p, r3.p, fr)
        cmp.pt(tag, r2.v, r3.v, fr, vec=True)
    transforms(cmp, fr, case['T'], a, b, same)
    return cmp


def _rand_T(rng, m):
    a = rng.uniform(0, 2 * math.pi)
    return {'move': [rng.uniform(-m, m), rng.uniform(-m, m)],
            'angle': rng.uniform(-2 * math.pi, 2 * math.pi),
            'origin': [rng.uniform(-m, m), rng.uniform(-m, m)],
            'normal': [math.cos(a), math.sin(a)],
            'factor': rng.choice([0.5, 2.0, 3.0, rng.uniform(0.05, 20)])}


def gen_line(rng, pair, frd):
    m = rng.choice([1.0, 10.0, 100.0, 1000.0])
    lat = rng.random() < 0.3
    R = (lambda: float(rng.randint(-8, 8))) if lat else (lambda: rng.uniform(-m, m))
    while True:
        p, v = [R(), R()], [R(), R()]
        if math.hypot(*v) >= 0.05:
            break
    L = math.hypot(*v)
    pts, lifts = [], []
    for _ in range(4):
        t, s = rng.uniform(-0.6, 1.6), rng.uniform(-1.5, 1.5)
        pts.append([p[0] + t * v[0] - s * v[1], p[1] + t * v[1] + s * v[0]])
        lifts.append(rng.choice([0.0, 0.0, rng.uniform(-2, 2) * L]))
    while True:
        ov = [R(), R()]
        if math.hypot(*ov) >= 0.05:
            break
    if rng.random() < 0.25:          # parallel / nearly colinear partner
        k = rng.choice([-2.0, 0.5, 1.0])
        ov = [v[0] * k, v[1] * k]
        off = rng.choice([0.0, 0.004, 0.5])
        op = [p[0] + 0.3 * v[0] - off * v[1] / L, p[1] + 0.3 * v[1] + off * v[0] / L]
    else:
        op = [p[0] + rng.uniform(-0.5, 1.5) * v[0], p[1] + rng.uniform(-0.5, 1.5) * v[1]]
    numbers = sorted(set([1, 2, 3, 9, 11, 18] + [rng.randint(1, 60) for _ in range(6)]))
    # (lists whose entries differ and whose running sums do not land on the end of the segment:
    # after the list is used up its LAST entry repeats)
    distances = [L / rng.uniform(1.3, 7.7), L * 2.0, [L * 0.13, L * 0.31], L / 4.0,
                 [L * 0.5, L * 0.13], [L * 0.2, L * 0.1, L * 0.075],
                 [L * rng.uniform(0.05, 0.3), L * rng.uniform(0.05, 0.3)]]
    return {'pair': pair, 'frame': frd, 'p': p, 'v': v, 'pts': pts, 'lifts': lifts,
            'params': [0.0, 1.0, 0.5, rng.random(), rng.uniform(-0.5, 1.5)],
            'numbers': numbers, 'distances': distances,
            'ends': [[R(), R()], [R() + 0.5, R() + 0.25]], 'sdl_len': rng.uniform(0.1, 50),
            'other': {'p': op, 'v': ov}, 'angle_tols': [0.0, 0.0175, 0.3],
            'tols': [0.001, 0.01, 0.25], 'T': _rand_T(rng, min(m, 50.0))}


# ====================================================================== Arc2D / Arc3D
def _ang_in(a, a1, a2, circle):
    """margin (radians) by which angle a is inside (+) / outside (-) the arc span."""
    two = 2 * math.pi
    if circle:
        return math.pi
    span = (a2 - a1) % two
    rel = (a - a1) % two
    if rel <= span:
        return min(rel, span - rel)
    return -min(rel - span, two - rel)


def check_arc(case):
    fr = Frame(case['frame'])
    c, r, a1, a2, circle = case['c'], case['r'], case['a1'], case['a2'], case['circle']
    ext = [[c[0] - r, c[1] - r], [c[0] + r, c[1] + r]]
    S = _case_S(fr, case, ext + case['pts'])
    cmp = Cmp(case, 'Arc2D/Arc3D', S)
    cmp.variant = 'circle' if circle else ('inverted' if a2 < a1 else 'arc')

    def mk2():
        return Arc2D(p2(c), r) if circle else Arc2D(p2(c), r, a1, a2)

    def mk3():
        pl = fr.plane(c)
        return Arc3D(pl, r) if circle else Arc3D(pl, r, a1, a2)
    ok, a, b = call(cmp, '__init__', mk2, mk3)
    if not ok:
        return cmp
    for m in ('c', 'p1', 'p2', 'midpoint'):
        ok, r2, r3 = call(cmp, m, lambda: getattr(a, m), lambda: getattr(b, m))
        if ok:
            cmp.pt(m, r2, r3, fr)
    for m, d in (('length', 1), ('angle', 0), ('a1', 0), ('a2', 0)):
        ok, r2, r3 = call(cmp, m, lambda: getattr(a, m), lambda: getattr(b, m))
        if ok:
            cmp.num(m, r2, r3, d)
    ok, r2, r3 = call(cmp, 'r|radius', lambda: a.r, lambda: b.radius)
    if ok:
        cmp.num('r|radius', r2, r3)
    for m in ('is_circle', 'is_inverted'):
        ok, r2, r3 = call(cmp, m, lambda: getattr(a, m), lambda: getattr(b, m))
        if ok:
            cmp.disc(m, r2, r3)
    ok, r2, r3 = call(cmp, 'area', lambda: a.area, lambda: b.area)   # asserts unless circle
    if ok:
        cmp.num('area', r2, r3, 2)
    if fr.xy:
        for m in ('min', 'max'):
            ok, r2, r3 = call(cmp, m, lambda: getattr(a, m), lambda: getattr(b, m))
            if ok:
                cmp.pt(m, r2, r3, fr)
        ok, r2, r3 = call(cmp, 'from_arc2d', lambda: a, lambda: Arc3D.from_arc2d(a))
        if ok:
            cmp.pt('from_arc2d', r2.p1, r3.p1, fr)
            cmp.pt('from_arc2d', r2.p2, r3.p2, fr)
            cmp.pt('from_arc2d', r2.midpoint, r3.midpoint, fr)
    Lr = a.length
    for t in case['params']:
        for m, arg in (('point_at', t), ('point_at_angle', t * a.angle),
                       ('point_at_length', t * Lr)):
            ok, r2, r3 = call(cmp, m, lambda: getattr(a, m)(arg), lambda: getattr(b, m)(arg))
            if ok:
                cmp.pt(m, r2, r3, fr)
    for n in case['numbers']:
        ok, r2, r3 = call(cmp, 'subdivide_evenly', lambda: a.subdivide_evenly(n),
                          lambda: b.subdivide_evenly(n))
        if ok:
            cmp.pts('subdivide_evenly', r2, r3, fr)
        ok, r2, r3 = call(cmp, 'to_polyline', lambda: a.to_polyline(n, n % 2 == 0),
                          lambda: b.to_polyline(n, n % 2 == 0))
        if ok:
            cmp.pts('to_polyline', r2.vertices, r3.vertices, fr)
            cmp.disc('to_polyline.interpolated', r2.interpolated, r3.interpolated)
    for dist in case['distances']:
        ok, r2, r3 = call(cmp, 'subdivide', lambda: a.subdivide(dist), lambda: b.subdivide(dist))
        if ok:
            cmp.pts('subdivide', r2, r3, fr)
    for q, h in zip(case['pts'], case['lifts']):
        d = math.hypot(q[0] - c[0], q[1] - c[1])
        if d < 1e-3 * r:
            cmp.skip()
            continue
        ang = math.atan2(q[1] - c[1], q[0] - c[0]) % (2 * math.pi)
        mg = _ang_in(ang, a1, a2, circle)
        # outside the span the nearer end point wins: stay away from the bisector
        if not circle:
            e1 = math.hypot(q[0] - a.p1.x, q[1] - a.p1.y)
            e2 = math.hypot(q[0] - a.p2.x, q[1] - a.p2.y)
            if abs(mg) < MARGIN * 10 or (mg < 0 and abs(e1 - e2) < MARGIN * 10 * S):
                cmp.skip()
                continue
        ok, r2, r3 = call(cmp, 'closest_point', lambda: a.closest_point(p2(q)),
                          lambda: b.closest_point(fr.P(q, h)))
        if ok:
            cmp.pt('closest_point', r2, r3, fr)
        ok, r2, r3 = call(cmp, 'distance_to_point', lambda: a.distance_to_point(p2(q)),
                          lambda: b.distance_to_point(fr.P(q, h)))
        if ok:
            cmp.num('distance_to_point', math.hypot(r2, h), r3)
    # infinite line in the plane <-> plane through it
    for ln in case['lines']:
        q, d = ln['p'], ln['v']
        Ld = math.hypot(*d)
        dist = abs((c[0] - q[0]) * d[1] - (c[1] - q[1]) * d[0]) / Ld
        decisive = abs(dist - r) > 1e-4 * r
        if decisive and dist < r and not circle:
            # the two crossings must not sit at the ends of the span
            foot_t = ((c[0] - q[0]) * d[0] + (c[1] - q[1]) * d[1]) / (Ld * Ld)
            half = math.sqrt(r * r - dist * dist) / Ld
            for s in (-1, 1):
                x = q[0] + (foot_t + s * half) * d[0]
                y = q[1] + (foot_t + s * half) * d[1]
                if abs(_ang_in(math.atan2(y - c[1], x - c[0]) % (2 * math.pi), a1, a2,
                               False)) < 1e-4:
                    decisive = False
        if not decisive:
            cmp.skip()
            continue
        ray = Ray2D(p2(q), v2(d))
        pl = fr.perp_plane(q, d)
        ok, r2, r3 = call(cmp, 'intersect_line_infinite|intersect_plane',
                          lambda: a.intersect_line_infinite(ray), lambda: b.intersect_plane(pl))
        if ok:
            cmp.pts('intersect_line_infinite|intersect_plane', r2, r3, fr, unordered=True)
        ok, r2, r3 = call(cmp, 'split_line_infinite|split_with_plane',
                          lambda: a.split_line_infinite(ray), lambda: b.split_with_plane(pl))
        if ok:
            m = 'split_line_infinite|split_with_plane'
            cmp.disc(m + '.count', len(r2), len(r3))
            if len(r2) == len(r3):
                for x, y in zip(sorted(s.length for s in r2), sorted(s.length for s in r3)):
                    cmp.num(m + '.lengths', x, y)
    # three points (counter-clockwise in the frame)
    if not circle:
        tm = case['params'][3]
        pa, pm, pb = a.p1, a.point_at(0.25 + 0.5 * tm), a.p2
        for circ in (False, True):
            ok, r2, r3 = call(cmp, 'from_start_mid_end',
                              lambda: Arc2D.from_start_mid_end(pa, pm, pb, circ),
                              lambda: Arc3D.from_start_mid_end(fr.P(pa), fr.P(pm), fr.P(pb), circ))
            if ok and a.angle > 0.05 and 2 * math.pi - a.angle > 0.05:
                tl = TOL * S * 1e3 / min(1.0, a.angle, 2 * math.pi - a.angle) ** 2
                cmp.pt('from_start_mid_end', r2.c, r3.c, fr, tol=tl)
                cmp.num('from_start_mid_end', r2.r, r3.radius, tol=tl)
                cmp.num('from_start_mid_end', r2.length, r3.length, tol=tl * 10)
                if not circ:
                    cmp.pt('from_start_mid_end', r2.p1, r3.p1, fr, tol=tl)
                    cmp.pt('from_start_mid_end', r2.p2, r3.p2, fr, tol=tl)
                    cmp.pt('from_start_mid_end', r2.midpoint, r3.midpoint, fr, tol=tl * 10)

    def same(tag, r2, r3):
        cmp.pt(tag, r2.c, r3.c, fr)
        cmp.num(tag, r2.r, r3.radius)
        cmp.num(tag, r2.length, r3.length, tol=TOL * S * 100)
        loose = TOL * S * 100 if tag == 'reflect' else None
        if circle and tag in ('rotate', 'rotate_xy', 'reflect'):
            return      # where a full circle "starts" is not part of its geometry
        if tag == 'reflect':
            cmp.pts(tag, [r2.p1, r2.p2], [r3.p1, r3.p2], fr, unordered=True, tol=loose)
        else:
            cmp.pt(tag, r2.p1, r3.p1, fr)
            cmp.pt(tag, r2.p2, r3.p2, fr)
        cmp.pt(tag, r2.midpoint, r3.midpoint, fr, tol=loose)
    transforms(cmp, fr, case['T'], a, b, same)
    return cmp


def gen_arc(rng, frd):
    m = rng.choice([1.0, 10.0, 100.0, 1000.0])
    c = [rng.uniform(-m, m), rng.uniform(-m, m)]
    r = rng.choice([rng.uniform(0.05, 1), rng.uniform(1, 20), rng.uniform(20, 500)])
    two = 2 * math.pi
    circle = rng.random() < 0.2
    a1, a2 = rng.uniform(0, two), rng.uniform(0, two)
    if rng.random() < 0.2:
        a1, a2 = rng.choice([(0.0, math.pi), (math.pi / 2, 0.0), (0.0, 1.0), (5.0, two),
                             (math.pi, math.pi / 2)])
    if abs(a1 - a2) < 0.02 or circle:
        a1, a2 = (0.0, two) if circle else (a1, (a1 + 1.0) % two)
    pts, lifts = [], []
    for _ in range(5):
        rr, th = r * rng.choice([0.3, 0.9, 1.1, 2.5]) * rng.uniform(0.8, 1.2), rng.uniform(0, two)
        pts.append([c[0] + rr * math.cos(th), c[1] + rr * math.sin(th)])
        lifts.append(rng.choice([0.0, 0.0, rng.uniform(-2, 2) * r]))
    lines = []
    for _ in range(4):
        th = rng.uniform(0, two)
        off = r * rng.choice([0.0, 0.3, 0.7, 0.95, 1.3, 2.0]) * rng.choice([-1, 1])
        th2 = rng.uniform(0, two)
        lines.append({'p': [c[0] + off * math.cos(th) + 3 * r * math.cos(th2) * 0.0,
                            c[1] + off * math.sin(th)],
                      'v': [-math.sin(th) * rng.uniform(0.2, 3), math.cos(th) * rng.uniform(0.2, 3)]})
        # direction perpendicular to the offset: distance from the centre is |off| up to the
        # anisotropy introduced by the two different factors, which only rotates the line
    ang = (a2 - a1) % two if not circle else two
    L = r * ang
    return {'pair': 'arc', 'frame': frd, 'c': c, 'r': r, 'a1': a1, 'a2': a2, 'circle': circle,
            'pts': pts, 'lifts': lifts, 'lines': lines,
            'params': [0.0, 1.0, 0.5, rng.random(), rng.random()],
            'numbers': sorted(set([1, 2, 3, 7, 9, 11] + [rng.randint(1, 40) for _ in range(3)])),
            'distances': [L / rng.uniform(1.3, 7.7), L * 2.0, [L * 0.13, L * 0.31],
                          [L * 0.2, L * 0.1, L * 0.075]],
            'T': _rand_T(rng, min(m, 50.0))}


# ====================================================================== Polyline2D / 3D
def _line_clear(verts, q, d, S):
    """no vertex within the margin of the infinite line q + t d."""
    Ld = math.hypot(*d)
    return all(abs((p[0] - q[0]) * d[1] - (p[1] - q[1]) * d[0]) / Ld > 1e-5 * S for p in verts)


def _obj_verts(o):
    """vertices of a Polyline / LineSegment result."""
    return list(o.vertices)


def check_polyline(case):
    fr = Frame(case['frame'])
    verts = case['verts']
    S = _case_S(fr, case, verts + [ln['p'] for ln in case['lines']])
    cmp = Cmp(case, 'Polyline2D/Polyline3D', S)
    interp = case['interpolated']
    ok, a, b = call(cmp, '__init__', lambda: Polyline2D([p2(p) for p in verts], interp),
                    lambda: Polyline3D([fr.P(p) for p in verts], interp))
    if not ok:
        return cmp
    ok, r2, r3 = call(cmp, 'from_polyline2d', lambda: a,
                      lambda: Polyline3D.from_polyline2d(a, fr.plane()))
    if ok:
        cmp.pts('from_polyline2d', r2.vertices, r3.vertices, fr)
        cmp.disc('from_polyline2d.interpolated', r2.interpolated, r3.interpolated)
    if fr.xy:
        ok, r2, r3 = call(cmp, 'to_polyline2d', lambda: a, lambda: b.to_polyline2d())
        if ok:
            cmp.disc('to_polyline2d', [tuple(p) for p in r2.vertices],
                     [tuple(p) for p in r3.vertices])
        for m in ('min', 'max', 'center'):
            ok, r2, r3 = call(cmp, m, lambda: getattr(a, m), lambda: getattr(b, m))
            if ok:
                cmp.pt(m, r2, r3, fr)
    for m in ('vertices', 'to_array'):
        ok, r2, r3 = call(cmp, m, lambda: getattr(a, m), lambda: getattr(b, m))
        if ok:
            if m == 'to_array':
                r2, r3 = r2(), r3()
            cmp.pts(m, r2, r3, fr)
    for m in ('p1', 'p2'):
        ok, r2, r3 = call(cmp, m, lambda: getattr(a, m), lambda: getattr(b, m))
        if ok:
            cmp.pt(m, r2, r3, fr)
    ok, r2, r3 = call(cmp, 'length', lambda: a.length, lambda: b.length)
    if ok:
        cmp.num('length', r2, r3)
    ok, r2, r3 = call(cmp, 'interpolated', lambda: a.interpolated, lambda: b.interpolated)
    if ok:
        cmp.disc('interpolated', r2, r3)
    ok, r2, r3 = call(cmp, 'segments', lambda: a.segments, lambda: b.segments)
    if ok:
        cmp.disc('segments.count', len(r2), len(r3))
        if len(r2) == len(r3):
            cmp.pts('segments', [s.p for s in r2], [s.p for s in r3], fr)
            for s2, s3 in zip(r2, r3):
                cmp.pt('segments', s2.v, s3.v, fr, vec=True)
    gap = math.hypot(verts[0][0] - verts[-1][0], verts[0][1] - verts[-1][1])
    for tol in case['tols']:
        if gap == 0.0 or gap > 3 * tol:
            ok, r2, r3 = call(cmp, 'is_closed', lambda: a.is_closed(tol),
                              lambda: b.is_closed(tol))
            if ok:
                cmp.disc('is_closed', r2, r3)
        else:
            cmp.skip()
        ok, r2, r3 = call(cmp, 'remove_colinear_vertices',
                          lambda: a.remove_colinear_vertices(tol),
                          lambda: b.remove_colinear_vertices(tol))
        if ok:
            cmp.pts('remove_colinear_vertices', r2.vertices, r3.vertices, fr)
    ok, r2, r3 = call(cmp, 'reverse', lambda: a.reverse(), lambda: b.reverse())
    if ok:
        cmp.pts('reverse', r2.vertices, r3.vertices, fr)
        cmp.num('reverse.length', r2.length, r3.length)
    for ln in case['lines']:
        if not _line_clear(verts, ln['p'], ln['v'], S):
            cmp.skip()
            continue
        ok, r2, r3 = call(cmp, 'intersect_line_infinite|intersect_plane',
                          lambda: a.intersect_line_infinite(Ray2D(p2(ln['p']), v2(ln['v']))),
                          lambda: b.intersect_plane(fr.perp_plane(ln['p'], ln['v'])))
        if ok:
            cmp.pts('intersect_line_infinite|intersect_plane', r2, r3, fr)
    # join_segments
    J = case['join']
    s2 = [LineSegment2D.from_end_points(p2(e[0]), p2(e[1])) for e in J['segs']]
    s3 = [LineSegment3D.from_end_points(fr.P(e[0]), fr.P(e[1])) for e in J['segs']]
    ok, r2, r3 = call(cmp, 'join_segments', lambda: Polyline2D.join_segments(s2, J['tol']),
                      lambda: Polyline3D.join_segments(s3, J['tol']))
    if ok:
        cmp.disc('join_segments.count', len(r2), len(r3))
        if len(r2) == len(r3):
            cmp.disc('join_segments.types', [type(o).__name__[:-2] for o in r2],
                     [type(o).__name__[:-2] for o in r3])
            for o2, o3 in zip(r2, r3):
                cmp.pts('join_segments', _obj_verts(o2), _obj_verts(o3), fr)

    def same(tag, r2, r3):
        cmp.pts(tag, r2.vertices, r3.vertices, fr)
        cmp.disc(tag + '.interpolated', r2.interpolated, r3.interpolated)
        cmp.num(tag + '.length', r2.length, r3.length)
    # warm the cached length so that a transform has something to carry over
    a.length, b.length
    transforms(cmp, fr, case['T'], a, b, same)
    return cmp


def _walk(rng, n, m, lattice):
    """vertices with clear corners (turn >= ~6 degrees, edges >= 0.5*unit) and, in lattice
    mode, runs of exactly collinear vertices."""
    unit = 1.0 if lattice else rng.choice([1.0, 5.0, 40.0])
    x, y = (float(rng.randint(-8, 8)), float(rng.randint(-8, 8))) if lattice else \
        (rng.uniform(-m, m), rng.uniform(-m, m))
    pts = [[x, y]]
    th = rng.uniform(0, 2 * math.pi)
    dirs = [(1, 0), (1, 1), (0, 1), (-1, 1), (-1, 0), (-1, -1), (0, -1), (1, -1), (2, 1), (1, 2),
            (-2, 1), (-1, 2), (2, -1), (1, -2), (-2, -1), (-1, -2)]
    last = None
    while len(pts) < n:
        if lattice:
            d = rng.choice([q for q in dirs if last is None or
                            (q[0] * last[1] - q[1] * last[0]) != 0 or
                            (q[0] * last[0] + q[1] * last[1]) > 0])
            if last is not None and d[0] * last[1] - d[1] * last[0] == 0 and d != last:
                continue
            run = rng.choice([1, 1, 2, 3])          # run > 1: exactly collinear vertices
            step = rng.randint(1, 3)
            for _ in range(run):
                if len(pts) < n:
                    x, y = x + d[0] * step, y + d[1] * step
                    pts.append([x, y])
            last = d
        else:
            th += rng.choice([-1, 1]) * rng.uniform(0.12, 2.6)
            ln = unit * rng.uniform(0.5, 3.0)
            x, y = x + ln * math.cos(th), y + ln * math.sin(th)
            pts.append([x, y])
    return pts


def gen_polyline(rng, frd):
    m = rng.choice([1.0, 10.0, 100.0, 1000.0])
    lattice = rng.random() < 0.5
    n = rng.choice([3, 3, 4, 5, 6, 8, 12, 20])
    verts = _walk(rng, n, m, lattice)
    if rng.random() < 0.25 and n > 3:
        verts[-1] = list(verts[0])          # closed
    if rng.random() < 0.2:
        # a shallow curve: any three consecutive vertices are colinear within the tolerance
        # 0.01, yet a run of removed vertices bends by more than it, so that the clean-up must
        # measure against the last KEPT vertex; followed by two sharp corners
        c = rng.uniform(2.3, 9.0)
        k = 0.01 / c
        nn = rng.randint(8, 14)
        th = rng.uniform(0, 2 * math.pi)
        ox, oy = rng.uniform(-m, m), rng.uniform(-m, m)
        raw = [(float(i), k * i * i) for i in range(nn)] + [(nn - 1.0, 5.0), (0.0, 5.0)]
        verts = [[ox + math.cos(th) * x - math.sin(th) * y,
                  oy + math.sin(th) * x + math.cos(th) * y] for (x, y) in raw]
    xs = [p[0] for p in verts]
    ys = [p[1] for p in verts]
    cx, cy = sum(xs) / len(xs), sum(ys) / len(ys)
    ext = max(max(xs) - min(xs), max(ys) - min(ys), 1.0)
    lines = []
    for _ in range(3):
        th = rng.uniform(0, math.pi)
        lines.append({'p': [cx + rng.uniform(-0.4, 0.4) * ext, cy + rng.uniform(-0.4, 0.4) * ext],
                      'v': [math.cos(th) * rng.uniform(0.5, 2), math.sin(th) * rng.uniform(0.5, 2)]})
    # segments of 1..3 polylines far apart, shuffled and partly flipped
    segs = []
    for k in range(rng.randint(1, 3)):
        w = _walk(rng, rng.randint(2, 6), 5.0, True)
        w = [[p[0] + 200.0 * k, p[1]] for p in w]
        # a walk may revisit a point: keep the part up to the first repetition
        seen, cut = set(), []
        for p in w:
            if tuple(p) in seen:
                break
            seen.add(tuple(p))
            cut.append(p)
        for i in range(len(cut) - 1):
            e = [cut[i], cut[i + 1]]
            if rng.random() < 0.4:
                e.reverse()
            segs.append(e)
    rng.shuffle(segs)
    if not segs:
        segs = [[[0.0, 0.0], [1.0, 0.0]]]
    return {'pair': 'polyline', 'frame': frd, 'verts': verts, 'interpolated': rng.random() < 0.3,
            'tols': [0.001, 0.01], 'lines': lines,
            'join': {'segs': segs, 'tol': rng.choice([0.01, 0.001])},
            'T': _rand_T(rng, min(m, 50.0))}


# ====================================================================== Polygon2D / Face3D
def _seg_dist(q, a, b):
    abx, aby = b[0] - a[0], b[1] - a[1]
    t = ((q[0] - a[0]) * abx + (q[1] - a[1]) * aby) / (abx * abx + aby * aby)
    t = max(0.0, min(1.0, t))
    return math.hypot(q[0] - a[0] - t * abx, q[1] - a[1] - t * aby)


def _clearance(q, verts):
    return min(_seg_dist(q, verts[i - 1], verts[i]) for i in range(len(verts)))


def _cyc(cmp, member, l2, l3, fr, tol=None):
    cmp.pts(member, l2, l3, fr, tol=tol, cyclic=True)


def check_polygon(case):
    fr = Frame(case['frame'])
    verts = case['verts']
    S = _case_S(fr, case, verts + [ln['p'] for ln in case['lines']])
    cmp = Cmp(case, 'Polygon2D/Face3D', S)
    pl = fr.plane()
    ok, a, b = call(cmp, '__init__', lambda: Polygon2D([p2(p) for p in verts]),
                    lambda: Face3D([fr.P(p) for p in verts], pl))
    if not ok:
        return cmp
    # the same face without the right-hand-rule reversal, and with a plane of its own
    ok, _, braw = call(cmp, '__init__(enforce_right_hand=False)', lambda: a,
                       lambda: Face3D([fr.P(p) for p in verts], pl, enforce_right_hand=False))
    ok2, _, bown = call(cmp, '__init__(plane=None)', lambda: a,
                        lambda: Face3D([fr.P(p) for p in verts]))
    faces = [('', b)] + ([('(plane=None)', bown)] if ok2 else [])
    for tag, f in faces:
        for m, d in (('area', 2), ('perimeter', 1)):
            ok_, r2, r3 = call(cmp, m + tag, lambda: getattr(a, m), lambda: getattr(f, m))
            if ok_:
                cmp.num(m + tag, r2, r3, d)
        for m in ('is_convex', 'is_self_intersecting', 'is_valid'):
            if m == 'is_convex' and not case['convex_decisive']:
                cmp.skip()
                continue
            ok_, r2, r3 = call(cmp, m + tag, lambda: getattr(a, m), lambda: getattr(f, m))
            if ok_:
                cmp.disc(m + tag, r2, r3)
        ok_, r2, r3 = call(cmp, 'vertices' + tag, lambda: a.vertices, lambda: f.vertices)
        if ok_:
            _cyc(cmp, 'vertices' + tag, r2, r3, fr)
        ok_, r2, r3 = call(cmp, 'centroid' + tag,
                           lambda: Mesh2D.from_polygon_triangulated(a).centroid,
                           lambda: f.centroid)
        if ok_:
            cmp.pt('centroid' + tag, r2, r3, fr)
        ok_, r2, r3 = call(cmp, 'triangulated area' + tag,
                           lambda: Mesh2D.from_polygon_triangulated(a).area,
                           lambda: f.triangulated_mesh3d.area)
        if ok_:
            cmp.num('triangulated area' + tag, r2, r3, 2)
    if braw is not None:
        ok_, r2, r3 = call(cmp, 'is_clockwise', lambda: a.is_clockwise, lambda: braw.is_clockwise)
        if ok_:
            cmp.disc('is_clockwise', r2, r3)
        ok_, r2, r3 = call(cmp, 'vertices(ordered)', lambda: a.vertices, lambda: braw.vertices)
        if ok_:
            cmp.pts('vertices(ordered)', r2, r3, fr)
        ok_, r2, r3 = call(cmp, 'to_array', lambda: a.to_array(), lambda: braw.to_array())
        if ok_:
            cmp.disc('to_array.loops', 1, len(r3))
            cmp.pts('to_array', r2, r3[0], fr)
    if fr.xy:
        for m in ('min', 'max', 'center'):
            ok_, r2, r3 = call(cmp, m, lambda: getattr(a, m), lambda: getattr(b, m))
            if ok_:
                cmp.pt(m, r2, r3, fr)
    ok_, r2, r3 = call(cmp, 'self_intersection_points', lambda: a.self_intersection_points,
                       lambda: b.self_intersection_points)
    if ok_:
        cmp.pts('self_intersection_points', list(r2), list(r3), fr, unordered=True)
    for tol in case['tols']:
        if case['colinear_decisive']:
            ok_, r2, r3 = call(cmp, 'remove_colinear_vertices',
                               lambda: a.remove_colinear_vertices(tol),
                               lambda: b.remove_colinear_vertices(tol))
            if ok_:
                _cyc(cmp, 'remove_colinear_vertices', r2.vertices, r3.vertices, fr)
                cmp.num('remove_colinear_vertices.area', r2.area, r3.area, 2)
        else:
            cmp.skip()
        ok_, r2, r3 = call(cmp, 'remove_duplicate_vertices',
                           lambda: a.remove_duplicate_vertices(tol),
                           lambda: b.remove_duplicate_vertices(tol))
        if ok_:
            _cyc(cmp, 'remove_duplicate_vertices', r2.vertices, r3.vertices, fr)
    ptol = case['pole_tol']
    ok_, r2, r3 = call(cmp, 'pole_of_inaccessibility', lambda: a.pole_of_inaccessibility(ptol),
                       lambda: b.pole_of_inaccessibility(ptol))
    if ok_:
        u, v, w = fr.back(r3)
        cmp.num('pole_of_inaccessibility.offset', 0.0, w)
        cmp.num('pole_of_inaccessibility.clearance', _clearance(r2, verts),
                _clearance((u, v), verts), tol=ptol + TOL * S)
    for ln in case['lines']:
        if not _line_clear(verts, ln['p'], ln['v'], S):
            cmp.skip()
            continue
        ok_, r2, r3 = call(cmp, 'intersect_line_infinite|intersect_plane',
                           lambda: a.intersect_line_infinite(Ray2D(p2(ln['p']), v2(ln['v']))),
                           lambda: b.intersect_plane(fr.perp_plane(ln['p'], ln['v'])))
        if ok_:
            m = 'intersect_line_infinite|intersect_plane'
            cmp.disc(m + '.none', len(r2) == 0, r3 is None)
            if r3 is not None:
                ends = [e for s in r3 for e in (s.p1, s.p2)]
                cmp.pts(m, r2, ends, fr, unordered=True)
    # factories
    F = case['factories']
    ok_, r2, r3 = call(cmp, 'from_rectangle',
                       lambda: Polygon2D.from_rectangle(p2(F['base_pt']), v2(F['h_vec']),
                                                        F['base'], F['height']),
                       lambda: Face3D.from_rectangle(
                           F['base'], F['height'],
                           Plane(Vector3D(*fr.n), fr.P(F['base_pt']),
                                 fr.V((F['h_vec'][1], -F['h_vec'][0])))))
    if ok_:
        _cyc(cmp, 'from_rectangle', r2.vertices, r3.vertices, fr)
        cmp.num('from_rectangle.area', r2.area, r3.area, 2)
        cmp.num('from_rectangle.perimeter', r2.perimeter, r3.perimeter)
    ok_, r2, r3 = call(cmp, 'from_regular_polygon',
                       lambda: Polygon2D.from_regular_polygon(F['sides'], F['radius'],
                                                              p2(F['base_pt'])),
                       lambda: Face3D.from_regular_polygon(F['sides'], F['radius'],
                                                           fr.plane(F['base_pt'])))
    if ok_:
        _cyc(cmp, 'from_regular_polygon', r2.vertices, r3.vertices, fr)
        cmp.num('from_regular_polygon.area', r2.area, r3.area, 2)
        cmp.num('from_regular_polygon.perimeter', r2.perimeter, r3.perimeter)
        cmp.disc('from_regular_polygon.is_convex', r2.is_convex, r3.is_convex)

    def same(tag, r2, r3):
        _cyc(cmp, tag, r2.vertices, r3.vertices, fr)
        cmp.num(tag + '.area', r2.area, r3.area, 2)
        cmp.num(tag + '.perimeter', r2.perimeter, r3.perimeter)
    a.area, a.perimeter, b.area, b.perimeter        # warm the caches a transform carries over
    transforms(cmp, fr, case['T'], a, b, same)
    return cmp


def _poly_verts(rng, m):
    fam = rng.choice(['star', 'convex', 'rectilinear', 'lattice', 'collinear'])
    n = rng.choice([3, 4, 5, 6, 8, 12, 20, 40])
    cx, cy = rng.uniform(-m, m), rng.uniform(-m, m)
    sc = rng.choice([1.0, 5.0, 50.0])
    if fam in ('star', 'convex', 'lattice'):
        k = max(4 * n, 48)
        while True:
            angs = sorted(rng.sample(range(k), n))
            if all((angs[i] - angs[i - 1]) % k < k // 2 for i in range(n)):
                break
        pts = []
        for t in angs:
            r = sc * (1.0 if fam == 'convex' else rng.uniform(0.4, 1.0))
            pts.append([cx + r * math.cos(2 * math.pi * t / k), cy + r * math.sin(2 * math.pi * t / k)])
        if fam == 'lattice':
            pts = [[float(round((p[0] - cx) * 8 / sc)), float(round((p[1] - cy) * 8 / sc))]
                   for p in pts]
            pts = [p for i, p in enumerate(pts) if p != pts[i - 1]]
    elif fam == 'rectilinear':
        cols = max(1, (n - 2) // 2)
        xs = [0]
        for _ in range(cols):
            xs.append(xs[-1] + rng.randint(1, 4))
        hs = []
        for _ in range(cols):
            h = rng.randint(1, 8)
            while hs and h == hs[-1]:
                h = rng.randint(1, 8)
            hs.append(h)
        pts = [[0.0, 0.0], [float(xs[-1]), 0.0]]
        for i in range(cols - 1, -1, -1):
            pts.append([float(xs[i + 1]), float(hs[i])])
            pts.append([float(xs[i]), float(hs[i])])
        pts = [[cx + p[0] * sc / 4, cy + p[1] * sc / 4] for p in pts]
    else:
        # rectangle on the integer lattice with extra exactly collinear vertices on its sides
        w, h = rng.randint(2, 9), rng.randint(2, 9)
        pts = []
        for (x0, y0, dx, dy, ln) in ((0, 0, 1, 0, w), (w, 0, 0, 1, h), (w, h, -1, 0, w),
                                     (0, h, 0, -1, h)):
            pts.append([float(x0), float(y0)])
            for s in range(1, ln):
                if rng.random() < 0.4:
                    pts.append([float(x0 + dx * s), float(y0 + dy * s)])
        s0 = rng.randrange(len(pts))
        pts = pts[s0:] + pts[:s0]
    if rng.random() < 0.5:
        pts.reverse()
    return fam, pts


def _poly_ok(pts):
    """simple, clear corners or exact collinearity; returns (valid, convex_decisive,
    colinear_decisive)."""
    n = len(pts)
    if n < 3:
        return False, False, False
    ext = max(max(p[0] for p in pts) - min(p[0] for p in pts),
              max(p[1] for p in pts) - min(p[1] for p in pts))
    area2 = sum(pts[i - 1][0] * pts[i][1] - pts[i - 1][1] * pts[i][0] for i in range(n))
    if abs(area2) < 1e-3 * ext * ext:
        return False, False, False
    convex_dec = colin_dec = True
    for i in range(n):
        a, b, c = pts[i - 2], pts[i - 1], pts[i]
        e1 = math.hypot(b[0] - a[0], b[1] - a[1])
        e2 = math.hypot(c[0] - b[0], c[1] - b[1])
        if e1 < 0.05 or e2 < 0.05:
            return False, False, False
        cr = (b[0] - a[0]) * (c[1] - b[1]) - (b[1] - a[1]) * (c[0] - b[0])
        s = abs(cr) / (e1 * e2)
        if cr != 0.0 and s < 0.09:
            convex_dec = colin_dec = False      # a shallow (< 5 degree) corner
        if cr == 0.0:
            convex_dec = False      # exactly straight: is_convex sits on its decision boundary
        elif e1 * e2 * s < 0.05 or min(e1, e2) < 0.5:
            colin_dec = False
    # simplicity (float test with margin: the generators are star-shaped / rectilinear)
    for i in range(n):
        for j in range(i + 2, n):
            if i == 0 and j == n - 1:
                continue
            p, q, r, s = pts[i - 1], pts[i], pts[j - 1], pts[j]
            d1 = (q[0] - p[0]) * (r[1] - p[1]) - (q[1] - p[1]) * (r[0] - p[0])
            d2 = (q[0] - p[0]) * (s[1] - p[1]) - (q[1] - p[1]) * (s[0] - p[0])
            d3 = (s[0] - r[0]) * (p[1] - r[1]) - (s[1] - r[1]) * (p[0] - r[0])
            d4 = (s[0] - r[0]) * (q[1] - r[1]) - (s[1] - r[1]) * (q[0] - r[0])
            if d1 * d2 <= 0 and d3 * d4 <= 0:
                return False, False, False
    return True, convex_dec, colin_dec


def gen_polygon(rng, frd):
    m = rng.choice([1.0, 10.0, 100.0, 1000.0])
    for _ in range(20):
        fam, pts = _poly_verts(rng, m)
        valid, cd, ld = _poly_ok(pts)
        if valid:
            break
    else:
        fam, pts, cd, ld = 'fallback', [[0.0, 0.0], [4.0, 0.0], [3.0, 2.0], [0.0, 1.0]], True, True
    xs = [p[0] for p in pts]
    ys = [p[1] for p in pts]
    cx, cy = sum(xs) / len(xs), sum(ys) / len(ys)
    ext = max(max(xs) - min(xs), max(ys) - min(ys), 1.0)
    lines = []
    for _ in range(3):
        th = rng.uniform(0, math.pi)
        lines.append({'p': [cx + rng.uniform(-0.4, 0.4) * ext, cy + rng.uniform(-0.4, 0.4) * ext],
                      'v': [math.cos(th) * rng.uniform(0.5, 2), math.sin(th) * rng.uniform(0.5, 2)]})
    th = rng.uniform(0, 2 * math.pi)
    return {'pair': 'polygon', 'frame': frd, 'verts': pts, 'fam': fam, 'convex_decisive': cd,
            'colinear_decisive': ld, 'tols': [0.001, 0.01], 'lines': lines,
            'pole_tol': 0.03 * ext,
            'factories': {'base_pt': [rng.uniform(-m, m), rng.uniform(-m, m)],
                          'h_vec': [math.cos(th), math.sin(th)], 'base': rng.uniform(0.2, 30),
                          'height': rng.uniform(0.2, 30), 'sides': rng.randint(3, 24),
                          'radius': rng.uniform(0.2, 30)},
            'T': _rand_T(rng, min(m, 50.0))}


# ====================================================================== Mesh2D / Mesh3D
def _segs(cmp, member, l2, l3, fr):
    cmp.disc(member + '.count', len(l2), len(l3))
    if len(l2) == len(l3):
        cmp.pts(member, [s.p for s in l2], [s.p for s in l3], fr)
        cmp.pts(member, [s.p2 for s in l2], [s.p2 for s in l3], fr)


def _root_failed(cmp, *members):
    """a plain member already disagrees on the mesh itself: the same disagreement seen again
    through a derived mesh (transform, join, remove, rebuilt) is not a new kind of failure."""
    bad = set(f['member'] for f in cmp.fails)
    return any(m in bad for m in members)


def _mesh_same(cmp, tag, r2, r3, fr, cached=True):
    cmp.disc(tag + '.faces', tuple(r2.faces), tuple(r3.faces))
    cmp.pts(tag + '.vertices', r2.vertices, r3.vertices, fr)
    if len(r2.faces) == len(r3.faces):
        if not _root_failed(cmp, 'face_areas', 'area'):
            for x, y in zip(r2.face_areas, r3.face_areas):
                cmp.num(tag + '.face_areas', x, y, 2)
            cmp.num(tag + '.area', r2.area, r3.area, 2)
        if not _root_failed(cmp, 'face_centroids'):
            cmp.pts(tag + '.face_centroids', r2.face_centroids, r3.face_centroids, fr)


def check_mesh(case):
    fr = Frame(case['frame'])
    verts, faces = case['verts'], [tuple(f) for f in case['faces']]
    S = _case_S(fr, case, verts)
    cmp = Cmp(case, 'Mesh2D/Mesh3D', S)
    cmp.variant = 'quad' if any(len(f) == 4 for f in faces) else 'tri'
    ok, a, b = call(cmp, '__init__', lambda: Mesh2D([p2(p) for p in verts], faces),
                    lambda: Mesh3D([fr.P(p) for p in verts], faces))
    if not ok:
        return cmp
    ok, _, b2 = call(cmp, 'from_mesh2d', lambda: a,
                     lambda: Mesh3D.from_mesh2d(a, None if fr.xy else fr.plane()))
    meshes = [('', b)] + ([('(from_mesh2d)', b2)] if ok else [])
    for tag, m3 in meshes:
        ok, r2, r3 = call(cmp, 'vertices' + tag, lambda: a.vertices, lambda: m3.vertices)
        if ok:
            cmp.pts('vertices' + tag, r2, r3, fr)
        ok, r2, r3 = call(cmp, 'faces' + tag, lambda: a.faces, lambda: m3.faces)
        if ok:
            cmp.disc('faces' + tag, tuple(r2), tuple(r3))
        # read order differs between the two passes: memo slots must not matter
        order = ('face_areas', 'area', 'face_area_centroids', 'face_centroids') if not tag \
            else ('area', 'face_centroids', 'face_areas', 'face_area_centroids')
        for m in order:
            if tag and _root_failed(cmp, m, 'face_areas' if m == 'area' else m):
                continue
            ok, r2, r3 = call(cmp, m + tag, lambda: getattr(a, m), lambda: getattr(m3, m))
            if not ok:
                continue
            if m == 'area':
                cmp.num(m + tag, r2, r3, 2)
            elif m == 'face_areas':
                cmp.disc(m + tag + '.count', len(r2), len(r3))
                for x, y in zip(r2, r3):
                    cmp.num(m + tag, x, y, 2)
            else:
                cmp.pts(m + tag, r2, r3, fr)
    ok, r2, r3 = call(cmp, 'face_vertices', lambda: a.face_vertices, lambda: b.face_vertices)
    if ok:
        cmp.disc('face_vertices.count', len(r2), len(r3))
        for x, y in zip(r2, r3):
            cmp.pts('face_vertices', x, y, fr)
    ok, r2, r3 = call(cmp, 'vertex_connected_faces', lambda: a.vertex_connected_faces,
                      lambda: b.vertex_connected_faces)
    if ok:
        cmp.disc('vertex_connected_faces', r2, r3)
    for m in ('edges', 'naked_edges', 'internal_edges', 'non_manifold_edges'):
        ok, r2, r3 = call(cmp, m, lambda: getattr(a, m), lambda: getattr(b, m))
        if ok:
            _segs(cmp, m, r2, r3, fr)
    ok, r2, r3 = call(cmp, 'face_edges', lambda: a.face_edges, lambda: b.face_edges)
    if ok:
        cmp.disc('face_edges.count', len(r2), len(r3))
        for x, y in zip(r2, r3):
            cmp.pts('face_edges', x.vertices, y.vertices, fr)
    if fr.xy:
        for m in ('min', 'max', 'center'):
            ok, r2, r3 = call(cmp, m, lambda: getattr(a, m), lambda: getattr(b, m))
            if ok:
                cmp.pt(m, r2, r3, fr)
    vp, fp = case['vertex_pattern'], case['face_pattern']
    ok, r2, r3 = call(cmp, 'remove_vertices', lambda: a.remove_vertices(vp),
                      lambda: b.remove_vertices(vp))
    if ok:
        cmp.disc('remove_vertices.pattern', list(r2[1]), list(r3[1]))
        _mesh_same(cmp, 'remove_vertices', r2[0], r3[0], fr)
    ok, r2, r3 = call(cmp, 'remove_faces', lambda: a.remove_faces(fp), lambda: b.remove_faces(fp))
    if ok:
        cmp.disc('remove_faces.pattern', list(r2[1]), list(r3[1]))
        _mesh_same(cmp, 'remove_faces', r2[0], r3[0], fr)
    ok, r2, r3 = call(cmp, 'remove_faces_only', lambda: a.remove_faces_only(fp),
                      lambda: b.remove_faces_only(fp))
    if ok:
        _mesh_same(cmp, 'remove_faces_only', r2, r3, fr)
    mv = case['T']['move']
    ok, r2, r3 = call(cmp, 'join_meshes', lambda: Mesh2D.join_meshes([a, a.move(v2(mv))]),
                      lambda: Mesh3D.join_meshes([b, b.move(fr.V(mv))]))
    if ok:
        _mesh_same(cmp, 'join_meshes', r2, r3, fr)
    fv2 = [[p2(verts[i]) for i in f] for f in faces]
    fv3 = [[fr.P(verts[i]) for i in f] for f in faces]
    for purge in (True, False):
        ok, r2, r3 = call(cmp, 'from_face_vertices', lambda: Mesh2D.from_face_vertices(fv2, purge),
                          lambda: Mesh3D.from_face_vertices(fv3, purge))
        if ok:
            _mesh_same(cmp, 'from_face_vertices', r2, r3, fr)
    if case['purge_tol_ok']:
        ok, r2, r3 = call(cmp, 'from_purged_face_vertices',
                          lambda: Mesh2D.from_purged_face_vertices(fv2, case['purge_tol']),
                          lambda: Mesh3D.from_purged_face_vertices(fv3, case['purge_tol']))
        if ok:
            _mesh_same(cmp, 'from_purged_face_vertices', r2, r3, fr)
    else:
        cmp.skip()

    def same(tag, r2, r3):
        _mesh_same(cmp, tag, r2, r3, fr)
        if not _root_failed(cmp, 'face_area_centroids'):
            cmp.pts(tag + '.face_area_centroids', r2.face_area_centroids,
                    r3.face_area_centroids, fr)
    transforms(cmp, fr, case['T'], a, b, same)
    return cmp


def gen_mesh(rng, frd):
    m = rng.choice([1.0, 10.0, 100.0, 1000.0])
    kind = rng.choice(['grid', 'grid', 'quad', 'fan'])
    ox, oy = rng.uniform(-m, m), rng.uniform(-m, m)
    if kind == 'grid':
        nx, ny = rng.randint(1, 4), rng.randint(1, 3)
        cell = rng.choice([0.5, 1.0, 3.0, 40.0])
        jit = rng.choice([0.0, 0.15, 0.2])
        verts = [[ox + cell * (i + rng.uniform(-jit, jit)), oy + cell * (j + rng.uniform(-jit, jit))]
                 for i in range(nx + 1) for j in range(ny + 1)]
        faces = []
        for i in range(nx):
            for j in range(ny):
                c = i * (ny + 1) + j
                q = (c, c + ny + 1, c + ny + 2, c + 1)
                r = rng.random()
                if r < 0.65:
                    faces.append(q)
                elif r < 0.85:
                    faces.extend([(q[0], q[1], q[2]), (q[2], q[3], q[0])])
                else:
                    faces.extend([(q[1], q[2], q[3]), (q[3], q[0], q[1])])
    elif kind == 'quad':
        sc = rng.choice([1.0, 7.0, 250.0])
        base = rng.choice([[(0, 0), (4, 0), (3, 2), (0, 1)], [(0, 0), (3, 0), (2.2, 1.5), (0.4, 1.5)],
                           [(0, 0), (2, -1), (5, 0), (2, 1)], [(0, 0), (2, 0.3), (2.5, 2), (-0.5, 1)]])
        verts = [[ox + sc * x, oy + sc * y] for x, y in base]
        faces = [(0, 1, 2, 3)]
        if rng.random() < 0.5:
            verts.append([ox + sc * 6, oy + sc * 1.5])
            faces.append((1, 4, 2))
    else:
        n = rng.randint(3, 9)
        sc = rng.choice([1.0, 10.0, 300.0])
        verts = [[ox + sc * math.cos(2 * math.pi * (i + rng.uniform(-0.2, 0.2)) / n),
                  oy + sc * 0.7 * math.sin(2 * math.pi * (i + rng.uniform(-0.2, 0.2)) / n)]
                 for i in range(n)] + [[ox + 0.1 * sc, oy]]
        faces = [(i, (i + 1) % n, n) for i in range(n)]
    # quads must be strictly convex (documented limit of Mesh3D): split the others
    chk = []
    for f in faces:
        if len(f) == 4:
            q = [verts[i] for i in f]
            crs = [(q[k - 1][0] - q[k - 2][0]) * (q[k][1] - q[k - 1][1]) -
                   (q[k - 1][1] - q[k - 2][1]) * (q[k][0] - q[k - 1][0]) for k in range(4)]
            big = max(abs(c) for c in crs)
            if not (all(c > 0.02 * big for c in crs) or all(c < -0.02 * big for c in crs)):
                chk.extend([(f[0], f[1], f[2]), (f[2], f[3], f[0])]
                           if crs[0] * crs[2] > 0 else [(f[1], f[2], f[3]), (f[3], f[0], f[1])])
                continue
        chk.append(tuple(f))
    faces = chk
    # mixed orientation and start of each face
    out = []
    for f in faces:
        if rng.random() < 0.5:
            f = tuple(reversed(f))
        s = rng.randrange(len(f))
        out.append(f[s:] + f[:s])
    faces = out
    nv, nf = len(verts), len(faces)
    fp = [rng.random() < 0.7 for _ in range(nf)]
    if not any(fp):
        fp[0] = True
    vp = [rng.random() < 0.8 for _ in range(nv)]
    for i in faces[rng.randrange(nf)]:
        vp[i] = True                       # at least one face survives
    dmin = min(math.hypot(verts[i][0] - verts[j][0], verts[i][1] - verts[j][1])
               for i in range(nv) for j in range(i + 1, nv))
    ptol = rng.choice([0.001, 0.01])
    return {'pair': 'mesh', 'frame': frd, 'verts': verts, 'faces': [list(f) for f in faces],
            'fam': kind, 'vertex_pattern': vp, 'face_pattern': fp, 'purge_tol': ptol,
            'purge_tol_ok': dmin > 10 * ptol, 'T': _rand_T(rng, min(m, 50.0))}


# ====================================================================== run / replay
PAIRS = {'line': (check_line, lambda rng, fr: gen_line(rng, 'line', fr)),
         'ray': (check_line, lambda rng, fr: gen_line(rng, 'ray', fr)),
         'arc': (check_arc, gen_arc), 'polyline': (check_polyline, gen_polyline),
         'polygon': (check_polygon, gen_polygon), 'mesh': (check_mesh, gen_mesh)}
BUDGET = {'line': (540, 10000), 'ray': (360, 7000), 'arc': (540, 10000), 'polyline': (540, 10000),
          'polygon': (400, 7000), 'mesh': (450, 8500)}     # data sets (x 3 frames each)
FRAMES = ('xy', 'plane', 'far')


def check_case(case):
    try:
        return PAIRS[case['pair']][0](case)
    except Exception as e:      # a defect of the harness must never crash the check
        cmp = Cmp(case, 'harness', 1.0)
        cmp.fails.append({'signature': 'harness|%s|%s' % (case.get('pair'), type(e).__name__),
                          'member': 'harness', 'value2d': '-', 'value3d': '-',
                          'note': repr(e)[:300]})
        return cmp


def _axis_par(v):
    return v[0] == 0.0 or v[1] == 0.0


def _nontrivial(case):
    k = case['pair']
    if case['frame']['kind'] != 'xy':
        return True
    if k in ('line', 'ray'):
        return not _axis_par(case['v'])
    if k == 'arc':
        return not case['circle']
    vs = case['verts']
    if k == 'mesh':
        return not all(len(f) == 4 and all(
            _axis_par((vs[f[i]][0] - vs[f[i - 1]][0], vs[f[i]][1] - vs[f[i - 1]][1]))
            for i in range(4)) for f in case['faces'])
    n = len(vs)
    rng_ = range(n) if k == 'polygon' else range(1, n)
    return not all(_axis_par((vs[i][0] - vs[i - 1][0], vs[i][1] - vs[i - 1][1])) for i in rng_)


def _size(case):
    k = case['pair']
    if k in ('polyline', 'polygon'):
        return len(case['verts'])
    if k == 'mesh':
        return sum(len(f) for f in case['faces'])
    return 2


_LISTS = ('params', 'numbers', 'distances', 'lines', 'tols', 'angle_tols')


def _candidates(case):
    if case['frame']['kind'] != 'xy':
        d = dict(case)
        d['frame'] = make_frame(None, 'xy')
        yield d
    for key in _LISTS:
        if key in case and len(case[key]) > 1:
            for x in case[key]:
                d = dict(case)
                d[key] = [x]
                yield d
    if 'pts' in case and len(case['pts']) > 1:
        for q, h in zip(case['pts'], case['lifts']):
            d = dict(case)
            d['pts'], d['lifts'] = [q], [h]
            yield d
    k = case['pair']
    if k in ('polyline', 'polygon') and len(case['verts']) > 3:
        vs = case['verts']
        for i in range(len(vs)):
            w = vs[:i] + vs[i + 1:]
            if k == 'polygon' and not _poly_ok(w)[0]:
                continue
            d = dict(case)
            d['verts'] = w
            if k == 'polygon':
                _, d['convex_decisive'], d['colinear_decisive'] = _poly_ok(w)
            yield d
    if k == 'mesh' and len(case['faces']) > 1:
        for f in case['faces']:
            d = dict(case)
            d['verts'] = [case['verts'][i] for i in f]
            d['faces'] = [list(range(len(f)))]
            d['vertex_pattern'] = [True] * len(f)
            d['face_pattern'] = [True]
            yield d


def shrink(case, sig, budget=150, seconds=4.0):
    cur, calls, progress = case, 0, True
    t_stop = time.time() + seconds
    while progress and calls < budget and time.time() < t_stop:
        progress = False
        for cand in _candidates(cur):
            if calls >= budget or time.time() > t_stop:
                break
            calls += 1
            if any(f['signature'] == sig for f in check_case(cand).fails):
                cur, progress = cand, True
                break
    return cur


def _failure(case, f, seed):
    head = dict((k, case[k]) for k in ('p', 'v', 'c', 'r', 'a1', 'a2', 'circle') if k in case)
    if 'verts' in case:
        head['verts'] = case['verts'][:8]
    if 'faces' in case:
        head['faces'] = case['faces'][:6]
    return {'signature': f['signature'], 'member': f['member'], 'value2d': f['value2d'],
            'value3d': f['value3d'], 'note': f['note'], 'case': case, 'seed': seed,
            'what': '%s on %s %s in frame %s: 2D gives %s, 3D (mapped back) gives %s -- %s' % (
                f['member'], case['pair'], repr(head)[:260], case['frame']['kind'],
                f['value2d'][:160], f['value3d'][:160], f['note'])}


def run(ctx):
    seed = ctx.seed
    thorough = ctx.tier == 'thorough' or bool(getattr(ctx, 'broken', None))
    t_end = min(ctx.deadline, time.time() + (690 if thorough else 40))
    evaluations = comparisons = skipped = 0
    nontrivial = set()
    by_sig = {}
    hist = {'pair': {}, 'frame': {}, 'members_compared': {}, 'family': {}, 'size': {},
            'worst_err_over_tol': {}}
    samples = []
    timed_out = False
    plan = []
    for name in sorted(PAIRS):
        cnt = BUDGET[name][1 if thorough else 0]
        plan.extend((j / float(cnt), name, j) for j in range(cnt))
    plan.sort()
    for _, name, j in plan:
        if time.time() > t_end:
            timed_out = True
            break
        fn, gen = PAIRS[name]
        for fk in FRAMES:
            rng = random.Random('%s/c16/%s/%d/%s' % (seed, name, j, fk))
            try:
                case = gen(rng, make_frame(rng, fk))
            except Exception as e:
                by_sig.setdefault('harness|generator|' + name, (0, {
                    'signature': 'harness|generator|' + name, 'what': 'generator raised %r' % e,
                    'case': {'pair': 'generator'}, 'seed': seed}))
                continue
            cmp = check_case(case)
            evaluations += 1
            comparisons += cmp.n
            skipped += cmp.skipped
            hist['pair'][name] = hist['pair'].get(name, 0) + 1
            hist['frame'][fk] = hist['frame'].get(fk, 0) + 1
            fam = case.get('fam', name)
            hist['family'][fam] = hist['family'].get(fam, 0) + 1
            sz = _size(case)
            b = '2' if sz <= 2 else '3-4' if sz <= 4 else '5-8' if sz <= 8 else '9-20' \
                if sz <= 20 else '>20'
            hist['size'][b] = hist['size'].get(b, 0) + 1
            mc = hist['members_compared']
            for op in cmp.ops:
                key = '%s.%s' % (cmp.pair, op)
                mc[key] = mc.get(key, 0) + 1
            w = hist['worst_err_over_tol']
            w[name] = max(w.get(name, 0.0), cmp.worst)
            if _nontrivial(case):
                nontrivial.add(hash(repr(sorted(case.items()))))
            if len(samples) < 6 and name not in [s['pair'] for s in samples] and sz <= 6:
                samples.append(case)
            for f in cmp.fails:
                sig = f['signature']
                if sig not in by_sig or sz < by_sig[sig][0]:
                    by_sig[sig] = (sz, _failure(case, f, seed))
    failures = []
    t_shrink = time.time() + (120 if thorough else 25)
    for sig in sorted(by_sig):
        sz, fl = by_sig[sig]
        case = fl['case']
        if case.get('pair') in PAIRS and time.time() < min(ctx.deadline, t_shrink):
            small = shrink(case, sig, seconds=min(4.0, t_shrink - time.time()))
            if small is not case:
                ff = [f for f in check_case(small).fails if f['signature'] == sig]
                if ff:
                    fl = _failure(small, ff[0], seed)
        failures.append(fl)
    hist['worst_err_over_tol'] = dict((k, float('%.3g' % v))
                                      for k, v in hist['worst_err_over_tol'].items())
    return {
        'evaluations': evaluations,
        'distinct_nontrivial': len(nontrivial),
        'rule': 'case = one 2D data set (segment, ray, arc, polyline, polygon, triangle/quad '
                'mesh) + call arguments, in the world XY frame and in two random planes (origin '
                'up to 10 / 1e3 away); every shared member is called on the 2D class and on '
                'its 3D sibling and compared after mapping through the frame (see '
                'extra.histograms.members_compared); non-trivial = any case in a tilted plane, '
                'and XY-frame cases whose data is not axis-parallel (full circles excluded)',
        'samples': samples,
        'failures': failures,
        'extra': {'histograms': hist, 'comparisons': comparisons, 'skipped': skipped,
                  'timed_out': timed_out},
    }


def replay(ctx, failure):
    case = failure.get('case')
    if not case or case.get('pair') not in PAIRS:
        return None
    for f in check_case(case).fails:
        if f['signature'] == failure['signature']:
            return _failure(case, f, failure.get('seed'))
    return None
