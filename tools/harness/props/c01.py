"""C01 -- area, perimeter/length, volume and centroid equal the exact values of the shape.

Property oracle on the REAL code.  Shapes are generated as plain float data (2D source
loops certified valid in exact integer arithmetic, then placed rigidly in 2D / in a random
plane of 3D), handed to the real classes in both vertex orders and from every (sampled above
12 vertices) cyclic start, and every reported measure is compared with the exact measure of
the float data the object was built from: every float is a rational, the references are
computed with Python integers / Fractions (shoelace, Newell vector, signed tetrahedra from
the origin, first-moment centroid formulas) and only the final square roots are taken in
double precision (correctly rounded from the exact rational).
"""
import math
import random
import time
from fractions import Fraction

from ladybug_geometry.geometry2d.pointvector import Point2D, Vector2D
from ladybug_geometry.geometry3d.pointvector import Point3D, Vector3D
from ladybug_geometry.geometry2d.polygon import Polygon2D
from ladybug_geometry.geometry2d.mesh import Mesh2D
from ladybug_geometry.geometry3d.mesh import Mesh3D
from ladybug_geometry.geometry3d.face import Face3D
from ladybug_geometry.geometry3d.polyface import Polyface3D
from ladybug_geometry.geometry3d.plane import Plane
from ladybug_geometry.geometry3d.line import LineSegment3D
from ladybug_geometry.geometry2d.arc import Arc2D
from ladybug_geometry.geometry3d.arc import Arc3D
from ladybug_geometry.geometry3d.sphere import Sphere
from ladybug_geometry.geometry3d.cone import Cone
from ladybug_geometry.geometry3d.cylinder import Cylinder

TOL = 1e-9
GAP = Fraction(1, 1000)

ASSUMPTIONS = [
    'valid inputs only: every 2D source loop is certified in exact integer arithmetic to be '
    'simple, of non-zero area, with every edge and every gap between non-adjacent edges >= '
    '1e-3; holes are certified strictly inside the boundary, pairwise disjoint and not '
    'nested, every hole/boundary and hole/hole gap >= 1e-3',
    'a placement (2D rotation+translation, or embedding into a plane of 3D) is an isometry '
    'evaluated in double precision: it moves vertices by <= 1e-12 relative, which cannot '
    'invalidate a loop whose gaps are >= 1e-3; the reference values are computed from the '
    'placed floats themselves, not from the source',
    'agreement to 1e-9 relative; "relative" is to the size of the terms the measure is made '
    'of: area tol = 1e-9*max(A, S*P), length tol = 1e-9*max(P, S), volume tol = '
    '1e-9*max(V, S*A), centroid tol = 1e-9*S (S = largest |coordinate|, >= 1; P = total edge '
    'length, A = area) -- for a shape near the origin this is plain 1e-9 relative',
    'mesh quads are planar and strictly convex (certified exactly in the 2D source); solids '
    'are prisms (straight/sheared, with holes), pyramids, frusta, bipyramids, tetrahedra and '
    'boxes with all features >= 0.25 so that Polyface3D.get_outward_faces(0.01) applies',
    'Cone angle in [0.05, 1.4] rad; from_extrusion angle between segment and vector in '
    '[0.2, pi-0.2]',
]
TRUSTED = [
    'C01 oracle is Python integer/Fraction arithmetic (no Lean executable spec: the measures '
    'need square roots and pi, which are outside Q); math.sqrt / float(Fraction) are trusted '
    'to be correctly rounded; math.pi, math.tan, math.cos for the closed forms',
    'that the rational formulas used as reference (shoelace, Newell, signed tetrahedra, first '
    'moments) equal the Lebesgue measure / centre of mass of the described set -- the Lean '
    'lemmas Shoelace/Newell prove the algebraic part (start/orientation/decomposition '
    'invariance); the module cross-checks them against closed forms (base*height, A*h/3, '
    'frustum formula, w*d*h) on every generated solid (extra.oracle_selfcheck)',
]


# ====================================================================== exact arithmetic
def ints(points):
    """list of float tuples -> (list of int tuples, D): coordinate = int / D, D a power of 2."""
    D = 1
    rat = []
    for p in points:
        row = []
        for c in p:
            n, d = float(c).as_integer_ratio()
            if d > D:
                D = d
            row.append((n, d))
        rat.append(row)
    return [tuple(n * (D // d) for (n, d) in row) for row in rat], D


def ints_multi(loops):
    """several loops with one common denominator."""
    flat = [p for lp in loops for p in lp]
    ip, D = ints(flat)
    out, k = [], 0
    for lp in loops:
        out.append(ip[k:k + len(lp)])
        k += len(lp)
    return out, D


def orient(a, b, c):
    return (b[0] - a[0]) * (c[1] - a[1]) - (b[1] - a[1]) * (c[0] - a[0])


def shoelace2(ip):
    """twice the signed area (integer units)."""
    s = 0
    for i in range(len(ip)):
        a, b = ip[i - 1], ip[i]
        s += a[0] * b[1] - a[1] * b[0]
    return s


def _between(a, b, c):
    return min(a[0], b[0]) <= c[0] <= max(a[0], b[0]) and \
        min(a[1], b[1]) <= c[1] <= max(a[1], b[1])


def seg_intersect(a, b, c, d):
    """closed segments ab, cd share a point (exact)."""
    o1, o2, o3, o4 = orient(a, b, c), orient(a, b, d), orient(c, d, a), orient(c, d, b)
    if ((o1 > 0 and o2 < 0) or (o1 < 0 and o2 > 0)) and \
            ((o3 > 0 and o4 < 0) or (o3 < 0 and o4 > 0)):
        return True
    if o1 == 0 and _between(a, b, c):
        return True
    if o2 == 0 and _between(a, b, d):
        return True
    if o3 == 0 and _between(c, d, a):
        return True
    if o4 == 0 and _between(c, d, b):
        return True
    return False


def pt_seg_d2(p, a, b):
    """squared distance point-segment, exact Fraction in integer units."""
    abx, aby = b[0] - a[0], b[1] - a[1]
    apx, apy = p[0] - a[0], p[1] - a[1]
    t = apx * abx + apy * aby
    L = abx * abx + aby * aby
    if t <= 0 or L == 0:
        return Fraction(apx * apx + apy * apy)
    if t >= L:
        bx, by = p[0] - b[0], p[1] - b[1]
        return Fraction(bx * bx + by * by)
    cr = apx * aby - apy * abx
    return Fraction(cr * cr, L)


def seg_seg_far(a, b, c, d, thr, thr2):
    """distance(ab, cd) >= thr, exactly (thr integer-unit length rounded up, thr2 exact)."""
    if max(a[0], b[0]) + thr < min(c[0], d[0]) or max(c[0], d[0]) + thr < min(a[0], b[0]) or \
            max(a[1], b[1]) + thr < min(c[1], d[1]) or max(c[1], d[1]) + thr < min(a[1], b[1]):
        return True
    if seg_intersect(a, b, c, d):
        return False
    return min(pt_seg_d2(a, c, d), pt_seg_d2(b, c, d), pt_seg_d2(c, a, b),
               pt_seg_d2(d, a, b)) >= thr2


def _thr(D, gap=GAP):
    gap = Fraction(gap)
    thr2 = gap * gap * D * D
    thr = int(gap * D) + 2
    return thr, thr2


def loop_valid(ip, D, gap=GAP):
    """simple loop, edges >= 1e-3, gaps between non-adjacent edges >= 1e-3, area != 0."""
    n = len(ip)
    if n < 3 or shoelace2(ip) == 0:
        return False
    thr, thr2 = _thr(D, gap)
    for i in range(n):
        a, b = ip[i - 1], ip[i]
        if (a[0] - b[0]) ** 2 + (a[1] - b[1]) ** 2 < thr2:
            return False
        # adjacent edges may only share their common vertex (no fold-back)
        c = ip[(i + 1) % n]
        if orient(a, b, c) == 0 and (b[0] - a[0]) * (c[0] - b[0]) + (b[1] - a[1]) * (c[1] - b[1]) < 0:
            return False
    for i in range(n):
        a, b = ip[i - 1], ip[i]
        for j in range(i + 2, n):
            if i == 0 and j == n - 1:
                continue
            if not seg_seg_far(a, b, ip[j - 1], ip[j], thr, thr2):
                return False
    return True


def strictly_inside(p, ip):
    """point strictly inside the simple loop (exact crossing number)."""
    inside = False
    n = len(ip)
    for i in range(n):
        a, b = ip[i - 1], ip[i]
        if orient(a, b, p) == 0 and _between(a, b, p):
            return False
        if (a[1] > p[1]) != (b[1] > p[1]):
            # x of the crossing > p.x  <=>  sign test without division
            o = orient(a, b, p)
            if (b[1] > a[1]) == (o > 0):
                inside = not inside
    return inside


def shape_valid(boundary, holes, gap=GAP):
    """exact validity certificate of a 2D shape with holes given as float loops."""
    loops, D = ints_multi([boundary] + list(holes))
    for lp in loops:
        if not loop_valid(lp, D, gap):
            return False
    thr, thr2 = _thr(D, gap)
    b = loops[0]
    hs = loops[1:]
    for h in hs:
        if not all(strictly_inside(p, b) for p in h):
            return False
        for i in range(len(h)):
            for j in range(len(b)):
                if not seg_seg_far(h[i - 1], h[i], b[j - 1], b[j], thr, thr2):
                    return False
    for x in range(len(hs)):
        for y in range(x + 1, len(hs)):
            h1, h2 = hs[x], hs[y]
            for i in range(len(h1)):
                for j in range(len(h2)):
                    if not seg_seg_far(h1[i - 1], h1[i], h2[j - 1], h2[j], thr, thr2):
                        return False
            if strictly_inside(h1[0], h2) or strictly_inside(h2[0], h1):
                return False
    return True


def strictly_convex(ip):
    n = len(ip)
    s = 0
    for i in range(n):
        o = orient(ip[i - 2], ip[i - 1], ip[i])
        if o == 0:
            return False
        if s == 0:
            s = 1 if o > 0 else -1
        elif (o > 0) != (s > 0):
            return False
    return True


def fsqrt(q):
    """sqrt of a non-negative exact rational, in double precision."""
    q = Fraction(q)
    if q <= 0:
        return 0.0
    try:
        return math.sqrt(float(q))
    except OverflowError:
        return math.sqrt(q.numerator) / math.sqrt(q.denominator)


# ---------------------------------------------------------------- exact measures, 2D loops
def exact_area2(loops):
    """[boundary, hole, ...] float loops -> exact area (Fraction): |A_b| - sum |A_h|."""
    ips, D = ints_multi(loops)
    tot = abs(shoelace2(ips[0]))
    for h in ips[1:]:
        tot -= abs(shoelace2(h))
    return Fraction(tot, 2 * D * D)


def exact_perimeter(loops):
    """total edge length of all loops (2D or 3D float loops)."""
    ips, D = ints_multi(loops)
    tot = 0.0
    for lp in ips:
        for i in range(len(lp)):
            a, b = lp[i - 1], lp[i]
            tot += fsqrt(Fraction(sum((x - y) ** 2 for x, y in zip(a, b)), D * D))
    return tot


def exact_centroid2(loops):
    """centre of mass of boundary minus holes (Fractions)."""
    ips, D = ints_multi(loops)
    A6 = 0
    mx = my = 0
    for k, lp in enumerate(ips):
        a2 = 0
        cx = cy = 0
        for i in range(len(lp)):
            p, q = lp[i - 1], lp[i]
            d = p[0] * q[1] - p[1] * q[0]
            a2 += d
            cx += (p[0] + q[0]) * d
            cy += (p[1] + q[1]) * d
        if a2 < 0:                      # moments of the loop as a positively oriented region
            a2, cx, cy = -a2, -cx, -cy
        sign = 1 if k == 0 else -1      # boundary counted +, holes -
        A6 += sign * a2
        mx += sign * cx
        my += sign * cy
    # centroid = sum((p+q) d) / (3 * sum d)
    return Fraction(mx, 3 * A6 * D), Fraction(my, 3 * A6 * D)


# ---------------------------------------------------------------- exact measures, 3D loops
def cross3(a, b):
    return (a[1] * b[2] - a[2] * b[1], a[2] * b[0] - a[0] * b[2], a[0] * b[1] - a[1] * b[0])


def sub3(a, b):
    return (a[0] - b[0], a[1] - b[1], a[2] - b[2])


def dot3(a, b):
    return a[0] * b[0] + a[1] * b[1] + a[2] * b[2]


def newell2(lp):
    """twice the area vector of an integer 3D loop."""
    nx = ny = nz = 0
    for i in range(len(lp)):
        c = cross3(lp[i - 1], lp[i])
        nx += c[0]
        ny += c[1]
        nz += c[2]
    return (nx, ny, nz)


def exact_area3(loops):
    """planar face: |N_b|/2 - sum |N_h|/2 as float (sqrt of exact rationals)."""
    ips, D = ints_multi(loops)
    tot = 0.0
    for k, lp in enumerate(ips):
        # translate to the first vertex: keeps integers small and is exact
        o = lp[0]
        n2 = newell2([sub3(p, o) for p in lp])
        a = fsqrt(Fraction(dot3(n2, n2), 4 * D ** 4))
        tot += a if k == 0 else -a
    return tot


def exact_centroid3(loops):
    """centre of mass of a planar face with holes (Fractions); weights are the components
    of the fan triangles' area vectors along the boundary's Newell vector."""
    ips, D = ints_multi(loops)
    o = ips[0][0]
    N = newell2([sub3(p, o) for p in ips[0]])
    W = 0
    M = [0, 0, 0]
    for k, lp in enumerate(ips):
        q = [sub3(p, o) for p in lp]
        nk = newell2(q)
        s = dot3(nk, N)
        sign = 1 if k == 0 else (-1 if s > 0 else 1)
        p0 = q[0]
        for i in range(1, len(q) - 1):
            w = sign * dot3(cross3(sub3(q[i], p0), sub3(q[i + 1], p0)), N)
            W += w
            for c in range(3):
                M[c] += w * (p0[c] + q[i][c] + q[i + 1][c])
    return tuple(Fraction(M[c], 3 * W * D) + Fraction(o[c], D) for c in range(3))


def exact_volume(faces):
    """faces: list of [boundary, hole, ...] 3D float loops, boundary oriented outward
    (counter-clockwise seen from outside), holes in any order.  Signed tetrahedra from the
    first vertex of the solid (exact Fraction)."""
    allp = [p for f in faces for lp in f for p in lp]
    ip, D = ints(allp)
    o = ip[0]
    k = 0
    V6 = 0
    for f in faces:
        loops = []
        for lp in f:
            loops.append([sub3(p, o) for p in ip[k:k + len(lp)]])
            k += len(lp)
        Nb = newell2(loops[0])
        for j, q in enumerate(loops):
            sign = 1
            if j > 0 and dot3(newell2(q), Nb) > 0:
                sign = -1
            p0 = q[0]
            for i in range(1, len(q) - 1):
                V6 += sign * dot3(p0, cross3(q[i], q[i + 1]))
    return Fraction(V6, 6 * D ** 3)


# ====================================================================== generators (2D source)
def _lat(x, q=64.0):
    """snap to a dyadic lattice (keeps the exact integers small)."""
    return round(x * q) / q


def fam_star(rng, n, scale):
    m = max(4 * n, 48)
    angs = sorted(rng.sample(range(m), n))
    # a star-shaped loop must not skip more than half a turn between two vertices
    for i in range(n):
        if (angs[i] - angs[i - 1]) % m >= m // 2:
            return None
    r0 = rng.uniform(0.3, 0.9)
    return [(_lat(scale * rng.uniform(r0, 1.0) * math.cos(2 * math.pi * a / m)) ,
             _lat(scale * rng.uniform(r0, 1.0) * math.sin(2 * math.pi * a / m))) for a in angs]


def fam_convex(rng, n, scale):
    m = max(4 * n, 48)
    angs = sorted(rng.sample(range(m), n))
    for i in range(n):
        if (angs[i] - angs[i - 1]) % m >= m // 2:
            return None
    a, b = scale, scale * rng.uniform(0.3, 1.0)
    ph = rng.uniform(0, math.pi)
    out = []
    for t in angs:
        x, y = a * math.cos(2 * math.pi * t / m), b * math.sin(2 * math.pi * t / m)
        out.append((_lat(x * math.cos(ph) - y * math.sin(ph), 4096.0),
                    _lat(x * math.sin(ph) + y * math.cos(ph), 4096.0)))
    return out


def fam_rectilinear(rng, n, scale):
    """histogram polygon: columns of different heights (L, U, T, staircase, comb shapes)."""
    cols = max(1, (n - 2) // 2)
    xs = [0.0]
    for _ in range(cols):
        xs.append(xs[-1] + rng.randint(1, 4))
    hs = []
    for _ in range(cols):
        h = rng.randint(1, 8)
        while hs and h == hs[-1]:
            h = rng.randint(1, 8)
        hs.append(h)
    k = scale / max(xs[-1], 8.0)
    pts = [(0.0, 0.0), (xs[-1] * k, 0.0)]
    for i in range(cols - 1, -1, -1):
        pts.append((xs[i + 1] * k, hs[i] * k))
        pts.append((xs[i] * k, hs[i] * k))
    return [(_lat(x), _lat(y)) for x, y in pts]


def fam_comb(rng, n, scale):
    """zig-zag comb: deep narrow teeth (strongly concave, long thin parts)."""
    teeth = max(1, (n - 2) // 2)
    w = scale / teeth
    pts = [(0.0, 0.0), (scale, 0.0)]
    for i in range(teeth, 0, -1):
        pts.append((_lat(i * w), _lat(scale * rng.uniform(0.5, 1.0))))
        if i > 1 or n % 2 == 1:
            pts.append((_lat((i - 0.5) * w), _lat(scale * rng.uniform(0.05, 0.3))))
    if len(pts) < 3:
        return None
    return pts[:max(3, n)] if len(pts) > n else pts


def fam_lattice(rng, n, scale):
    """small integers: double arithmetic is exact on these."""
    p = fam_star(rng, n, 8.0)
    if p is None:
        return None
    return [(float(round(x)), float(round(y))) for x, y in p]


def fam_sliver(rng, n, scale):
    """near-degenerate: a long thin wedge / spike close to the 1e-3 limits."""
    w = rng.choice([0.0025, 0.004, 0.01, 0.05])
    L = scale
    k = max(3, n)
    top = [(L * i / (k // 2 + 1), w * (1 + 0.5 * math.sin(i))) for i in range(k // 2 + 1, 0, -1)]
    pts = [(0.0, 0.0), (L, 0.0)] + top
    return [(float(x), float(y)) for x, y in pts][:max(3, n)]


def fam_quad(rng, n, scale):
    """generic strictly convex quadrilateral (trapezoid, kite, generic)."""
    kind = rng.choice(['generic', 'trapezoid', 'kite', 'witness'])
    if kind == 'witness':
        return [(0.0, 0.0), (4.0 * scale, 0.0), (3.0 * scale, 2.0 * scale), (0.0, 1.0 * scale)]
    if kind == 'trapezoid':
        a, b, h, s = rng.uniform(2, 5), rng.uniform(0.5, 1.8), rng.uniform(1, 3), rng.uniform(0, 2)
        pts = [(0, 0), (a, 0), (s + b, h), (s, h)]
    elif kind == 'kite':
        a, b, c = rng.uniform(1, 3), rng.uniform(0.5, 2), rng.uniform(2, 6)
        pts = [(0, 0), (a, -b), (c, 0), (a, b)]
    else:
        return fam_convex(rng, 4, scale)
    return [(_lat(x * scale), _lat(y * scale)) for x, y in pts]


FAMILIES = {'star': fam_star, 'convex': fam_convex, 'rectilinear': fam_rectilinear,
            'comb': fam_comb, 'lattice': fam_lattice, 'sliver': fam_sliver, 'quad': fam_quad}


def gen_loop(rng, fam=None, n=None, scale=None):
    """a certified simple loop (list of float pairs) or None."""
    fam = fam or rng.choice(['star', 'star', 'convex', 'rectilinear', 'comb', 'lattice',
                             'sliver', 'quad'])
    if n is None:
        n = rng.choice([3, 4, 4, 5, 6, 7, 8, 9, 10, 12, 12, 16, 24, 37, 60])
    if fam == 'quad':
        n = 4
    if scale is None:
        scale = rng.choice([1.0, 5.0, 20.0, 100.0, 1000.0, 9000.0])
    for _ in range(8):
        pts = FAMILIES[fam](rng, n, scale)
        if pts is None or len(pts) < 3 or len(pts) > 60:
            continue
        # drop exact duplicates created by the lattice snap
        cl = [p for i, p in enumerate(pts) if p != pts[i - 1]]
        if len(cl) < 3:
            continue
        ip, D = ints(cl)
        if loop_valid(ip, D):
            return fam, cl
    return fam, None


def gen_holes(rng, boundary, k):
    """up to k small certified holes inside the boundary (grid cells around the centre of
    mass, kept only if the whole shape certifies)."""
    cx, cy = [float(c) for c in exact_centroid2([boundary])]
    xs = [p[0] for p in boundary]
    ys = [p[1] for p in boundary]
    ext = min(max(xs) - min(xs), max(ys) - min(ys))
    cell = ext / 8.0
    if cell < 0.05:
        return []
    slots = [(i, j) for i in range(-3, 3) for j in range(-3, 3)]
    rng.shuffle(slots)
    holes = []
    for (i, j) in slots:
        if len(holes) >= k:
            break
        ox, oy = cx + (i + 0.5) * cell, cy + (j + 0.5) * cell
        kind = rng.choice(['star', 'convex', 'quad', 'rectilinear'])
        _, h = gen_loop(rng, kind, rng.choice([3, 4, 5, 6, 8]), 1.0)
        if h is None:
            continue
        hx = [p[0] for p in h]
        hy = [p[1] for p in h]
        s = 0.8 * cell / max(max(hx) - min(hx), max(hy) - min(hy))
        mx, my = (max(hx) + min(hx)) / 2, (max(hy) + min(hy)) / 2
        h = [(_lat(ox + (p[0] - mx) * s, 4096.0), _lat(oy + (p[1] - my) * s, 4096.0)) for p in h]
        if rng.random() < 0.5:
            h.reverse()
        if shape_valid(boundary, holes + [h]):
            holes.append(h)
    return holes


# ---------------------------------------------------------------- placements
def place2(rng, kind):
    """2D rigid motion as a function on float pairs."""
    if kind == 'none':
        return lambda p: (float(p[0]), float(p[1]))
    th = rng.uniform(0, 2 * math.pi)
    c, s = math.cos(th), math.sin(th)
    m = 1e3 if kind == 'far' else 10.0
    tx, ty = rng.uniform(-m, m), rng.uniform(-m, m)
    return lambda p: (c * p[0] - s * p[1] + tx, s * p[0] + c * p[1] + ty)


def frame3(rng, kind):
    """orthonormal frame (o, x, y, n) of a plane: 'xy' world plane, 'axis' another
    coordinate plane / flipped, 'tilt' random normal + random in-plane rotation, 'far' the
    same with an origin up to 1e3 away."""
    if kind == 'xy':
        return ((0.0, 0.0, 0.0), (1.0, 0.0, 0.0), (0.0, 1.0, 0.0), (0.0, 0.0, 1.0))
    if kind == 'axis':
        o = (rng.uniform(-5, 5), rng.uniform(-5, 5), rng.uniform(-5, 5))
        return rng.choice([
            (o, (0.0, 1.0, 0.0), (0.0, 0.0, 1.0), (1.0, 0.0, 0.0)),
            (o, (1.0, 0.0, 0.0), (0.0, 0.0, 1.0), (0.0, -1.0, 0.0)),
            (o, (0.0, 1.0, 0.0), (1.0, 0.0, 0.0), (0.0, 0.0, -1.0)),
            (o, (1.0, 0.0, 0.0), (0.0, 1.0, 0.0), (0.0, 0.0, 1.0))])
    while True:
        n = (rng.gauss(0, 1), rng.gauss(0, 1), rng.gauss(0, 1))
        w = (rng.gauss(0, 1), rng.gauss(0, 1), rng.gauss(0, 1))
        ln = math.sqrt(dot3(n, n))
        if ln < 0.1:
            continue
        n = tuple(c / ln for c in n)
        x = cross3(n, w)
        lx = math.sqrt(dot3(x, x))
        if lx < 0.1:
            continue
        x = tuple(c / lx for c in x)
        break
    y = cross3(n, x)
    ly = math.sqrt(dot3(y, y))
    y = tuple(c / ly for c in y)
    m = 1e3 if kind == 'far' else 10.0
    o = (rng.uniform(-m, m), rng.uniform(-m, m), rng.uniform(-m, m))
    return (o, x, y, n)


def embed(fr, p, h=0.0):
    o, x, y, n = fr
    return tuple(o[c] + x[c] * p[0] + y[c] * p[1] + n[c] * h for c in range(3))


def orders(rng, n, exhaustive_to=12, sample=3):
    """(reverse?, start) pairs: both orders x every cyclic start (sampled above 12)."""
    if n <= exhaustive_to:
        starts = list(range(n))
    else:
        starts = sorted(set([0] + [rng.randrange(n) for _ in range(sample)]))
    return [(rev, s) for rev in (False, True) for s in starts]


def reorder(loop, rev, start):
    lp = list(reversed(loop)) if rev else list(loop)
    return lp[start:] + lp[:start]


# ====================================================================== checking a case
def _S(loops):
    return max([1.0] + [abs(c) for lp in loops for p in lp for c in p])


def _p2(p):
    return Point2D(p[0], p[1])


def _p3(p):
    return Point3D(p[0], p[1], p[2])


def _mk_plane(pl):
    return Plane(Vector3D(*pl['n']), Point3D(*pl['o']), Vector3D(*pl['x']))


class Out(object):
    """collects the comparisons of one case."""

    def __init__(self, case, cls):
        self.case = case
        self.cls = cls              # input class used in the signature
        self.fails = []
        self.n = 0
        self.worst = 0.0            # largest |obs-exp| / tol seen

    def num(self, site, obs, exp, tol):
        self.n += 1
        try:
            obs = float(obs)
            d = abs(obs - float(exp))
            ok = d <= tol and obs == obs
        except Exception as e:     # noqa
            ok, d = False, float('inf')
        if ok:
            if tol > 0:
                self.worst = max(self.worst, d / tol)
            return
        self.fails.append({'signature': '%s|%s' % (site, self.cls), 'site': site,
                           'observed': repr(obs), 'expected': repr(float(exp)),
                           'tol': repr(tol)})

    def pt(self, site, obs, exp, tol):
        self.n += 1
        try:
            co = [float(c) for c in obs]
            ok = len(co) == len(exp) and all(abs(a - float(b)) <= tol for a, b in zip(co, exp))
        except Exception:
            ok, co = False, repr(obs)
        if not ok:
            self.fails.append({'signature': '%s|%s' % (site, self.cls), 'site': site,
                               'observed': repr(co), 'expected': repr([float(c) for c in exp]),
                               'tol': repr(tol)})

    def disc(self, site, obs, exp):
        self.n += 1
        if obs != exp or type(obs) != type(exp):
            self.fails.append({'signature': '%s|%s' % (site, self.cls), 'site': site,
                               'observed': repr(obs), 'expected': repr(exp), 'tol': 'exact'})

    def raised(self, site, e):
        self.n += 1
        self.fails.append({'signature': '%s|raises %s' % (site, type(e).__name__),
                           'site': site, 'observed': '%s: %s' % (type(e).__name__, str(e)[:160]),
                           'expected': 'a value', 'tol': '-'})


def _get(out, site, f):
    try:
        return True, f()
    except Exception as e:      # any exception on a valid input is a failure
        out.raised(site, e)
        return False, None


# ---------------------------------------------------------------- Polygon2D
def check_polygon2d(case):
    verts = [tuple(p) for p in case['verts']]
    holes = [[tuple(p) for p in h] for h in case.get('holes', [])]
    cls = 'holes' if holes else ('n=3' if len(verts) == 3 else 'simple')
    out = Out(case, cls)
    loops = [verts] + holes
    S = _S(loops)
    A = float(exact_area2(loops))
    P = exact_perimeter(loops)
    tolA = TOL * max(A, S * P)
    if holes:
        for ctor in ('from_shape_with_holes', 'from_shape_with_holes_fast'):
            ok, poly = _get(out, 'Polygon2D.' + ctor, lambda: getattr(Polygon2D, ctor)(
                [_p2(p) for p in verts], [[_p2(p) for p in h] for h in holes]))
            if ok:
                ok, a = _get(out, 'Polygon2D.%s.area' % ctor, lambda: poly.area)
                if ok:
                    out.num('Polygon2D.%s.area' % ctor, a, A, tolA)
        return out
    via = case.get('via', 'init')
    ok, poly = _get(out, 'Polygon2D', lambda: Polygon2D([_p2(p) for p in verts]))
    if not ok:
        return out
    for rd in case.get('reads', ('area', 'perimeter', 'is_clockwise')):
        ok, v = _get(out, 'Polygon2D.' + rd, lambda: getattr(poly, rd))
        if not ok:
            continue
        if rd == 'area':
            out.num('Polygon2D.area', v, A, tolA)
        elif rd == 'perimeter':
            out.num('Polygon2D.perimeter', v, P, TOL * max(P, S))
        else:
            ip, D = ints(verts)
            out.disc('Polygon2D.is_clockwise', v, shoelace2(ip) < 0)
    return out


# ---------------------------------------------------------------- Face3D
def check_face3d(case):
    b = [tuple(p) for p in case['boundary']]
    holes = [[tuple(p) for p in h] for h in case.get('holes', [])]
    out = Out(case, 'holes' if holes else 'no-holes')
    loops = [b] + holes
    S = _S(loops)
    A = exact_area3(loops)
    P = exact_perimeter(loops)
    C = exact_centroid3(loops)
    pl = case.get('plane')

    def mk():
        plane = _mk_plane(pl) if pl else None
        hs = [[_p3(p) for p in h] for h in holes] if holes else None
        return Face3D([_p3(p) for p in b], plane, hs)
    ok, face = _get(out, 'Face3D', mk)
    if not ok:
        return out
    ok, v = _get(out, 'Face3D.area', lambda: face.area)
    if ok:
        out.num('Face3D.area', v, A, TOL * max(A, S * P))
    ok, v = _get(out, 'Face3D.perimeter', lambda: face.perimeter)
    if ok:
        out.num('Face3D.perimeter', v, P, TOL * max(P, S))
    if case.get('no_centroid'):
        return out
    ok, v = _get(out, 'Face3D.centroid', lambda: face.centroid)
    if ok:
        out.pt('Face3D.centroid', (v.x, v.y, v.z), C, TOL * S)
    return out


def check_face3d_factory(case):
    """factories that pre-seed area / perimeter / centroid."""
    out = Out(case, case['factory'])
    f = case['factory']

    def mk():
        if f == 'from_rectangle':
            return Face3D.from_rectangle(case['base'], case['height'], _mk_plane(case['plane']))
        if f == 'from_regular_polygon':
            return Face3D.from_regular_polygon(case['sides'], case['radius'],
                                               _mk_plane(case['plane']))
        return Face3D.from_extrusion(LineSegment3D(_p3(case['p']), Vector3D(*case['v'])),
                                     Vector3D(*case['e']))
    ok, face = _get(out, 'Face3D.' + f, mk)
    if not ok:
        return out
    b = [(p.x, p.y, p.z) for p in face.boundary]
    loops = [b]
    S, A, P, C = _S(loops), exact_area3(loops), exact_perimeter(loops), exact_centroid3(loops)
    ok, v = _get(out, 'Face3D.%s.area' % f, lambda: face.area)
    if ok:
        out.num('Face3D.%s.area' % f, v, A, TOL * max(A, S * P))
    ok, v = _get(out, 'Face3D.%s.perimeter' % f, lambda: face.perimeter)
    if ok:
        out.num('Face3D.%s.perimeter' % f, v, P, TOL * max(P, S))
    ok, v = _get(out, 'Face3D.%s.centroid' % f, lambda: face.centroid)
    if ok:
        out.pt('Face3D.%s.centroid' % f, (v.x, v.y, v.z), C, TOL * S)
    return out


# ---------------------------------------------------------------- Mesh2D / Mesh3D
def check_mesh(case):
    dim = 2 if case['kind'] == 'mesh2d' else 3
    verts = [tuple(p) for p in case['verts']]
    faces = [tuple(f) for f in case['faces']]
    has_quad = any(len(f) == 4 for f in faces)
    out = Out(case, 'quad' if has_quad else 'tri')
    name = 'Mesh%dD' % dim
    S = _S([verts])
    # exact per-face values
    ex_a, ex_c, ex_vc, ex_p = [], [], [], []
    for f in faces:
        lp = [verts[i] for i in f]
        if dim == 2:
            ex_a.append(float(exact_area2([lp])))
            ex_c.append(exact_centroid2([lp]))
        else:
            ex_a.append(exact_area3([lp]))
            ex_c.append(exact_centroid3([lp]))
        ex_p.append(exact_perimeter([lp]))
        ex_vc.append(tuple(sum(Fraction(p[c]) for p in lp) / len(lp) for c in range(dim)))
    ok, mesh = _get(out, name, lambda: (Mesh2D if dim == 2 else Mesh3D)(
        [(_p2(p) if dim == 2 else _p3(p)) for p in verts], faces))
    if not ok:
        return out
    order = case.get('read_order', ('face_areas', 'area', 'face_area_centroids',
                                    'face_centroids', 'centroid'))
    for rd in order:
        if rd == 'centroid' and dim == 3:
            continue
        ok, v = _get(out, '%s.%s' % (name, rd), lambda: getattr(mesh, rd))
        if not ok:
            continue
        site = '%s.%s' % (name, rd)
        if rd == 'face_areas':
            out.disc(site + '.len', len(v), len(faces))
            for a, e, p in zip(v, ex_a, ex_p):
                out.num(site, a, e, TOL * max(e, S * p))
        elif rd == 'area':
            out.num(site, v, sum(ex_a), TOL * max(sum(ex_a), S * sum(ex_p)))
        elif rd in ('face_area_centroids', 'face_centroids'):
            out.disc(site + '.len', len(v), len(faces))
            ref = ex_c if rd == 'face_area_centroids' else ex_vc
            for c, e in zip(v, ref):
                out.pt(site, tuple(c), e, TOL * S)
        elif rd == 'centroid':
            tot = sum(Fraction(a) for a in ex_a)
            e = tuple(sum(Fraction(a) * c[k] for a, c in zip(ex_a, ex_c)) / tot
                      for k in range(2))
            out.pt(site, tuple(v), e, TOL * S)
    return out


# ---------------------------------------------------------------- Polyface3D
def build_solid(rng, kind, base, holes, fr):
    """outward-oriented faces [[boundary, hole...], ...] of a solid over the certified 2D
    shape (base made counter-clockwise), embedded through the frame; plus the analytic
    volume in local coordinates (Fraction) for the oracle self-check."""
    ip, D = ints(base)
    if shoelace2(ip) < 0:
        base = list(reversed(base))
    hs = []
    for h in holes:
        ih, Dh = ints(h)
        hs.append(list(reversed(h)) if shoelace2(ih) > 0 else list(h))    # holes clockwise
    A = exact_area2([base] + hs)
    n = len(base)
    xs = [p[0] for p in base]
    ys = [p[1] for p in base]
    ext = max(max(xs) - min(xs), max(ys) - min(ys))
    h = _lat(rng.uniform(0.3, 1.5) * ext + 0.5)
    E = lambda p, z=0.0: embed(fr, p, z)    # noqa: E731
    faces = []
    if kind in ('prism', 'sheared'):
        sx, sy = (0.0, 0.0) if kind == 'prism' else (_lat(rng.uniform(-1, 1) * ext),
                                                     _lat(rng.uniform(-1, 1) * ext))
        top = lambda p: E((p[0] + sx, p[1] + sy), h)     # noqa: E731
        faces.append([[E(p) for p in reversed(base)]] + [[E(p) for p in hh] for hh in hs])
        faces.append([[top(p) for p in base]] + [[top(p) for p in hh] for hh in hs])
        for lp in [base] + hs:
            for i in range(len(lp)):
                a, b = lp[i - 1], lp[i]
                faces.append([[E(a), E(b), top(b), top(a)]])
        vol = A * Fraction(h)
    elif kind == 'pyramid':
        ap = (_lat(rng.uniform(min(xs), max(xs))), _lat(rng.uniform(min(ys), max(ys))))
        apex = E(ap, h)
        faces.append([[E(p) for p in reversed(base)]])
        for i in range(n):
            faces.append([[E(base[i - 1]), E(base[i]), apex]])
        vol = A * Fraction(h) / 3
    elif kind == 'frustum':
        cx, cy = _lat(sum(xs) / n), _lat(sum(ys) / n)
        k = rng.choice([0.25, 0.5, 0.75])
        top = lambda p: E((cx + k * (p[0] - cx), cy + k * (p[1] - cy)), h)    # noqa: E731
        faces.append([[E(p) for p in reversed(base)]])
        faces.append([[top(p) for p in base]])
        for i in range(n):
            a, b = base[i - 1], base[i]
            faces.append([[E(a), E(b), top(b), top(a)]])
        kk = Fraction(k)
        vol = A * Fraction(h) * (1 + kk + kk * kk) / 3
    elif kind == 'bipyramid':
        cx, cy = [float(c) for c in exact_centroid2([base])]
        cx, cy = _lat(cx), _lat(cy)
        h2 = _lat(rng.uniform(0.3, 1.5) * ext + 0.5)
        up, dn = E((cx, cy), h), E((cx, cy), -h2)
        for i in range(n):
            a, b = base[i - 1], base[i]
            faces.append([[E(a), E(b), up]])
            faces.append([[E(b), E(a), dn]])
        vol = A * (Fraction(h) + Fraction(h2)) / 3
    else:
        raise ValueError(kind)
    return faces, vol


def check_polyface(case):
    mode = case['mode']
    cls = mode
    if 'solid' in case and mode not in ('from_box', 'from_offset_face'):
        cls += '/' + str(case['solid'])
    if case.get('has_holes'):
        cls += '+holes'
    if any(case.get('flips', [])):
        cls += '/flipped'
    out = Out(case, cls)
    if mode in ('from_box', 'from_offset_face'):
        return _check_polyface_factory(case, out)
    # faces as oriented outward by construction; 'flip'/'start' describe what is handed over
    faces = [[[tuple(p) for p in lp] for lp in f] for f in case['faces']]
    V = exact_volume(faces)
    if V < 0:
        V = -V
    V = float(V)
    areas = [exact_area3(f) for f in faces]
    A = sum(areas)
    S = _S([lp for f in faces for lp in f])
    given = []
    for f, fl, st in zip(faces, case['flips'], case['starts']):
        b = reorder(f[0], fl, st % len(f[0]))
        given.append([b] + f[1:])
    given = [given[i] for i in case['perm']]

    def mk():
        if mode == 'from_faces':
            fs = [Face3D([_p3(p) for p in f[0]], None,
                         [[_p3(p) for p in hh] for hh in f[1:]] or None) for f in given]
            return Polyface3D.from_faces(fs, case.get('tol', 0.01))
        verts, index, fi = [], {}, []
        for f in given:
            loops = []
            for lp in f:
                idx = []
                for p in lp:
                    if p not in index:
                        index[p] = len(verts)
                        verts.append(p)
                    idx.append(index[p])
                loops.append(tuple(idx))
            fi.append(tuple(loops))
        return Polyface3D([_p3(p) for p in verts], fi)
    ok, pf = _get(out, 'Polyface3D.' + mode, mk)
    if not ok:
        return out
    ok, v = _get(out, 'Polyface3D.is_solid', lambda: pf.is_solid)
    if ok:
        out.disc('Polyface3D.is_solid', v, True)
    ok, v = _get(out, 'Polyface3D.area', lambda: pf.area)
    if ok:
        out.num('Polyface3D.area', v, A, TOL * max(A, S * math.sqrt(A)))
    ok, v = _get(out, 'Polyface3D.volume', lambda: pf.volume)
    if ok:
        nf = len(out.fails)
        out.num('Polyface3D.volume', v, V, TOL * max(V, S * A))
        if len(out.fails) > nf and _ray_through_edge(given, S):
            # the known open finding (shared with C07): classify by the degenerate
            # configuration itself, so that it cannot mask another volume defect
            out.fails[-1]['signature'] = KNOWN_RAY_SIG
            out.fails[-1]['repro'] = KNOWN_RAY_REPRO
    return out


KNOWN_RAY_SIG = 'Polyface3D.volume|get_outward_faces test ray through a shared edge'
KNOWN_RAY_REPRO = (
    "from ladybug_geometry.geometry3d.polyface import Polyface3D; "
    "from ladybug_geometry.geometry3d.pointvector import Point3D as P; "
    "v=[P(0,0,5),P(2,0,5),P(2,2,5),P(0,2,5),P(1,1,8)]; "
    "sides=[[(0,1,4)],[(1,2,4)],[(2,3,4)],[(3,0,4)]]; "
    "Polyface3D(v,[[(0,1,2,3)]]+sides).volume  # 17.33, exact 4.0 (base kept inward: the "
    "test ray of get_outward_faces from Face3D._point_on_face passes through the slanted "
    "edge shared by two side faces and is counted twice)")


def _ray_through_edge(given, S):
    """does the test ray Polyface3D.get_outward_faces uses for some face (origin
    face._point_on_face(0.01), direction face.normal) pass through an edge or vertex of
    another face of the solid (within 1e-6 * scale)?"""
    try:
        from ladybug_geometry.geometry3d.ray import Ray3D
        fs = [Face3D([_p3(p) for p in f[0]], None,
                     [[_p3(p) for p in hh] for hh in f[1:]] or None) for f in given]
        tol = 1e-6 * S
        for i, f in enumerate(fs):
            for nrm in (f.normal, f.normal.reverse()):
                ray = Ray3D(f._point_on_face(0.01), nrm)
                for j, g in enumerate(fs):
                    if i == j:
                        continue
                    ip = g.plane.intersect_line_ray(ray)
                    if ip is None:
                        continue
                    p2 = g.plane.xyz_to_xy(ip)
                    polys = [g.boundary_polygon2d] + list(g.hole_polygon2d or [])
                    for pg in polys:
                        for seg in pg.segments:
                            if seg.distance_to_point(p2) <= tol:
                                return True
        return False
    except Exception:
        return False


def _check_polyface_factory(case, out):
    mode = case['mode']
    if mode == 'from_box':
        w, d, h = case['w'], case['d'], case['h']

        def mk():
            return Polyface3D.from_box(w, d, h, _mk_plane(case['plane']) if case['plane'] else None)
        V = w * d * h
        A = 2 * (w * d + d * h + w * h)
        S = None
    else:
        b = [tuple(p) for p in case['boundary']]
        holes = [[tuple(p) for p in hh] for hh in case.get('holes', [])]
        off = case['offset']

        def mk():
            face = Face3D([_p3(p) for p in b], _mk_plane(case['plane']) if case.get('plane') else None,
                          [[_p3(p) for p in hh] for hh in holes] or None)
            return Polyface3D.from_offset_face(face, off)
        A0 = exact_area3([b] + holes)
        V = A0 * off
        A = 2 * A0 + exact_perimeter([b] + holes) * off
    ok, pf = _get(out, 'Polyface3D.' + mode, mk)
    if not ok:
        return out
    S = _S([[tuple(p) for p in pf.vertices]])
    for tag, obj in (('', pf), ('.rebuilt', None)):
        if obj is None:
            # the same solid without the pre-seeded values: forces the general formulas
            ok, obj = _get(out, 'Polyface3D.%s.rebuilt' % mode,
                           lambda: Polyface3D(pf.vertices, pf.face_indices))
            if not ok:
                continue
        site = 'Polyface3D.%s%s' % (mode, tag)
        ok, v = _get(out, site + '.area', lambda: obj.area)
        if ok:
            out.num(site + '.area', v, A, TOL * max(A, S * math.sqrt(A)))
        ok, v = _get(out, site + '.volume', lambda: obj.volume)
        if ok:
            out.num(site + '.volume', v, V, TOL * max(V, S * A))
    return out


# ---------------------------------------------------------------- closed forms
def check_closed_form(case):
    k = case['kind']
    out = Out(case, 'closed-form')
    pi = math.pi
    if k == 'sphere':
        r = case['r']
        ok, s = _get(out, 'Sphere', lambda: Sphere(_p3(case['c']), r))
        if ok:
            for rd, e in (('area', 4 * pi * r * r), ('volume', 4 * pi * r * r * r / 3),
                          ('circumference', 2 * pi * r), ('diameter', 2 * r)):
                ok, v = _get(out, 'Sphere.' + rd, lambda: getattr(s, rd))
                if ok:
                    out.num('Sphere.' + rd, v, e, TOL * abs(e))
    elif k == 'cone':
        ax, ang = case['axis'], case['angle']
        h = fsqrt(sum(Fraction(c) ** 2 for c in ax))
        r = h * math.sin(ang) / math.cos(ang)
        sl = h / math.cos(ang)
        ok, s = _get(out, 'Cone', lambda: Cone(_p3(case['v']), Vector3D(*ax), ang))
        if ok:
            for rd, e in (('height', h), ('radius', r), ('slant_height', sl),
                          ('area', pi * r * (r + sl)), ('volume', pi * r * r * h / 3)):
                ok, v = _get(out, 'Cone.' + rd, lambda: getattr(s, rd))
                if ok:
                    out.num('Cone.' + rd, v, e, TOL * abs(e))
    elif k == 'cylinder':
        ax, r = case['axis'], case['r']
        h = fsqrt(sum(Fraction(c) ** 2 for c in ax))
        ok, s = _get(out, 'Cylinder', lambda: Cylinder(_p3(case['c']), Vector3D(*ax), r))
        if ok:
            for rd, e in (('height', h), ('diameter', 2 * r),
                          ('area', 2 * pi * r * (r + h)), ('volume', pi * r * r * h)):
                ok, v = _get(out, 'Cylinder.' + rd, lambda: getattr(s, rd))
                if ok:
                    out.num('Cylinder.' + rd, v, e, TOL * abs(e))
    elif k in ('arc2d', 'arc3d'):
        r, a1, a2 = case['r'], case['a1'], case['a2']
        circle = case.get('circle', False)
        name = 'Arc2D' if k == 'arc2d' else 'Arc3D'

        def mk():
            if k == 'arc2d':
                return Arc2D(_p2(case['c']), r) if circle else Arc2D(_p2(case['c']), r, a1, a2)
            pl = _mk_plane(case['plane'])
            return Arc3D(pl, r) if circle else Arc3D(pl, r, a1, a2)
        ok, s = _get(out, name, mk)
        if ok:
            if circle:
                ang = 2 * pi
            else:
                ang = float(Fraction(a2) - Fraction(a1))
                if a2 < a1:
                    ang += 2 * pi
            ok, v = _get(out, name + '.angle', lambda: s.angle)
            if ok:
                out.num(name + '.angle', v, ang, TOL * 2 * pi)
            ok, v = _get(out, name + '.length', lambda: s.length)
            if ok:
                out.num(name + '.length', v, ang * r, TOL * max(ang * r, r))
            if circle:
                ok, v = _get(out, name + '.area', lambda: s.area)
                if ok:
                    out.num(name + '.area', v, pi * r * r, TOL * pi * r * r)
    return out


CHECKERS = {'polygon2d': check_polygon2d, 'face3d': check_face3d,
            'face3d_factory': check_face3d_factory, 'mesh2d': check_mesh, 'mesh3d': check_mesh,
            'polyface': check_polyface, 'sphere': check_closed_form, 'cone': check_closed_form,
            'cylinder': check_closed_form, 'arc2d': check_closed_form, 'arc3d': check_closed_form}


def check_case(case):
    try:
        return CHECKERS[case['kind']](case)
    except Exception as e:          # a defect of the harness must never crash the check
        out = Out(case, 'harness')
        out.fails.append({'signature': 'harness|%s|%s' % (case.get('kind'), type(e).__name__),
                          'site': 'harness', 'observed': repr(e)[:300], 'expected': '-',
                          'tol': '-'})
        return out


# ====================================================================== case streams
def _plane_of(fr):
    o, x, y, n = fr
    return {'n': list(n), 'o': list(o), 'x': list(x)}


def _is_rect(loop):
    if len(loop) != 4:
        return False
    return all(loop[i - 1][0] == loop[i][0] or loop[i - 1][1] == loop[i][1] for i in range(4))


def stream_polygons(seed, i):
    """one certified loop -> Polygon2D in 3 placements and Face3D in 4 frames, both orders,
    cyclic starts."""
    rng = random.Random('%s/c01/poly/%d' % (seed, i))
    fam, loop = gen_loop(rng)
    if loop is None:
        return
    n = len(loop)
    rect = _is_rect(loop)
    for pk in ('none', 'near', 'far'):
        f = place2(rng, pk)
        placed = [f(p) for p in loop]
        for rev, st in orders(rng, n):
            yield {'kind': 'polygon2d', 'verts': reorder(placed, rev, st), 'fam': fam,
                   'placement': pk, '_nt': not (rect and pk == 'none')}
    for fk in ('xy', 'axis', 'tilt', 'far'):
        fr = frame3(rng, fk)
        placed = [embed(fr, p) for p in loop]
        use_plane = rng.random() < 0.5
        for rev, st in orders(rng, n, 12, 2):
            c = {'kind': 'face3d', 'boundary': reorder(placed, rev, st), 'holes': [],
                 'fam': fam, 'placement': fk, '_nt': not (rect and fk == 'xy')}
            if use_plane:
                c['plane'] = _plane_of(fr)
            yield c


def stream_holes(seed, i):
    rng = random.Random('%s/c01/holes/%d' % (seed, i))
    fam, loop = gen_loop(rng, rng.choice(['star', 'convex', 'rectilinear', 'quad', 'lattice']),
                         rng.choice([4, 5, 6, 8, 12, 20, 40]),
                         rng.choice([5.0, 20.0, 100.0, 1000.0]))
    if loop is None:
        return
    holes = gen_holes(rng, loop, rng.choice([1, 1, 2, 3, 4, 6]))
    if not holes:
        return
    n = len(loop)
    for pk in ('none', 'far'):
        f = place2(rng, pk)
        pb = [f(p) for p in loop]
        ph = [[f(p) for p in h] for h in holes]
        for rev, st in orders(rng, n, 6, 2):
            yield {'kind': 'polygon2d', 'verts': reorder(pb, rev, st), 'holes': ph,
                   'fam': fam, 'placement': pk, 'nholes': len(holes), '_nt': True}
    for fk in ('xy', 'axis', 'tilt', 'far'):
        fr = frame3(rng, fk)
        pb = [embed(fr, p) for p in loop]
        ph = [[embed(fr, p) for p in h] for h in holes]
        use_plane = rng.random() < 0.5
        for rev, st in orders(rng, n, 8, 2):
            hh = [reorder(h, rng.random() < 0.5, rng.randrange(len(h))) for h in ph]
            rng.shuffle(hh)
            c = {'kind': 'face3d', 'boundary': reorder(pb, rev, st), 'holes': hh, 'fam': fam,
                 'placement': fk, 'nholes': len(holes), '_nt': True}
            if use_plane:
                c['plane'] = _plane_of(fr)
            yield c


def stream_big_holes(seed, i):
    """the upper end of the quantifier: 60-vertex boundary, six holes of 55..60 vertices
    (above and below Face3D.HOLE_VERTEX_THRESHOLD), every cyclic start of the boundary."""
    rng = random.Random('%s/c01/big/%d' % (seed, i))
    fam, loop = gen_loop(rng, rng.choice(['star', 'convex']), 60, 100.0)
    if loop is None or len(loop) < 55:
        return
    holes = []
    nh = rng.choice([55, 57, 58, 60])
    for k in range(6):
        _, h = gen_loop(rng, rng.choice(['star', 'convex']), nh, 64.0)
        if h is None:
            return
        r = rng.uniform(2.0, 4.0) / 64.0
        a = k * math.pi / 3 + rng.uniform(-0.1, 0.1)
        d = rng.uniform(10, 16)
        holes.append([(_lat(d * math.cos(a) + r * p[0], 4096.0),
                       _lat(d * math.sin(a) + r * p[1], 4096.0)) for p in h])
    if not shape_valid(loop, holes):
        return
    fr = frame3(rng, rng.choice(['xy', 'tilt', 'far']))
    pb = [embed(fr, p) for p in loop]
    ph = [[embed(fr, p) for p in h] for h in holes]
    nv = len(loop) + sum(len(h) for h in holes)
    for rev in (False, True):
        for st in range(len(pb)):
            yield {'kind': 'face3d', 'boundary': reorder(pb, rev, st), 'holes': ph,
                   'fam': 'big-' + fam, 'placement': 'big', 'nholes': 6, 'nverts': nv,
                   'no_centroid': not (st % 20 == 0), '_nt': True}


def stream_factories(seed, i):
    rng = random.Random('%s/c01/fact/%d' % (seed, i))
    for fk in ('xy', 'tilt', 'far'):
        fr = frame3(rng, fk)
        yield {'kind': 'face3d_factory', 'factory': 'from_rectangle',
               'base': rng.uniform(0.1, 50), 'height': rng.uniform(0.1, 50),
               'plane': _plane_of(fr), '_nt': fk != 'xy'}
        yield {'kind': 'face3d_factory', 'factory': 'from_regular_polygon',
               'sides': rng.randint(3, 60), 'radius': rng.uniform(0.1, 50),
               'plane': _plane_of(fr), '_nt': True}
        o, x, y, n = fr
        L = rng.uniform(0.5, 20)
        ang = rng.uniform(0.2, math.pi - 0.2)
        M = rng.uniform(0.5, 20)
        v = tuple(c * L for c in x)
        e = tuple(M * (math.cos(ang) * x[c] + math.sin(ang) * n[c]) for c in range(3))
        yield {'kind': 'face3d_factory', 'factory': 'from_extrusion', 'p': list(o),
               'v': list(v), 'e': list(e), '_nt': True}


def _grid_mesh(rng):
    nx, ny = rng.randint(1, 4), rng.randint(1, 4)
    cell = rng.choice([0.5, 1.0, 3.0, 40.0])
    jit = rng.choice([0.0, 0.15, 0.22])
    pts = []
    for a in range(nx + 1):
        for b in range(ny + 1):
            pts.append((_lat(cell * (a + rng.uniform(-jit, jit)), 1024.0),
                        _lat(cell * (b + rng.uniform(-jit, jit)), 1024.0)))
    faces = []
    ip, D = ints(pts)
    for a in range(nx):
        for b in range(ny):
            c = a * (ny + 1) + b
            q = (c, c + ny + 1, c + ny + 2, c + 1)
            convex = strictly_convex([ip[k] for k in q])
            r = rng.random()
            if convex and r < 0.7:
                faces.append(q)
            elif convex or orient(ip[q[0]], ip[q[1]], ip[q[2]]) * orient(ip[q[2]], ip[q[3]], ip[q[0]]) > 0:
                faces.extend([(q[0], q[1], q[2]), (q[2], q[3], q[0])])
            else:
                faces.extend([(q[1], q[2], q[3]), (q[3], q[0], q[1])])
    return pts, faces


def _fan_mesh(rng):
    _, loop = gen_loop(rng, 'convex', rng.randint(3, 10), rng.choice([1.0, 10.0, 300.0]))
    if loop is None:
        return None
    cx, cy = [float(c) for c in exact_centroid2([loop])]
    pts = list(loop) + [(_lat(cx, 1024.0), _lat(cy, 1024.0))]
    n = len(loop)
    return pts, [(i, (i + 1) % n, n) for i in range(n)]


def _quad_mesh(rng):
    _, q = gen_loop(rng, 'quad', 4, rng.choice([1.0, 1.0, 7.0, 250.0]))
    if q is None:
        return None
    pts = list(q)
    faces = [(0, 1, 2, 3)]
    if rng.random() < 0.4:      # a triangle glued on one side
        pts.append((_lat(2 * q[1][0] - q[0][0] + 0.5), _lat(2 * q[1][1] - q[0][1] - 0.25)))
        ip, D = ints([q[1], pts[4], q[2]])
        if orient(*ip) != 0:
            faces.append((1, 4, 2))
    return pts, faces


def stream_meshes(seed, i):
    rng = random.Random('%s/c01/mesh/%d' % (seed, i))
    kind = rng.choice(['grid', 'grid', 'fan', 'quad', 'quad', 'height', 'boxsurf'])
    if kind in ('grid', 'fan', 'quad'):
        m = {'grid': _grid_mesh, 'fan': _fan_mesh, 'quad': _quad_mesh}[kind](rng)
        if m is None:
            return
        pts, faces = m
        ip, D = ints(pts)
        for f in faces:
            lp = [ip[k] for k in f]
            if len(f) == 4 and not strictly_convex(lp):
                return
            if shoelace2(lp) == 0:
                return
        para = all(len(f) == 4 and _is_rect([pts[k] for k in f]) for f in faces)
        # both orientations and every cyclic start of each face tuple
        variants = []
        for v in range(4):
            fs = []
            for f in faces:
                g = tuple(reversed(f)) if rng.random() < 0.5 else f
                s = rng.randrange(len(g))
                fs.append(g[s:] + g[:s])
            variants.append(fs)
        for pk in ('none', 'near', 'far'):
            fpl = place2(rng, pk)
            placed = [fpl(p) for p in pts]
            for fs in variants[:2]:
                yield {'kind': 'mesh2d', 'verts': placed, 'faces': fs, 'fam': kind,
                       'placement': pk, '_nt': not (para and pk == 'none')}
        for fk in ('xy', 'axis', 'tilt', 'far'):
            fr = frame3(rng, fk)
            placed = [embed(fr, p) for p in pts]
            for fs in variants[2:] if fk != 'xy' else variants[:1]:
                yield {'kind': 'mesh3d', 'verts': placed, 'faces': fs, 'fam': kind,
                       'placement': fk, '_nt': not (para and fk == 'xy')}
    elif kind == 'height':
        # genuinely 3D triangle mesh (height field)
        nx, ny = rng.randint(1, 3), rng.randint(1, 3)
        m = rng.choice([1.0, 10.0, 1000.0])
        off = [rng.uniform(-m, m) for _ in range(3)]
        pts = [(off[0] + a, off[1] + b, off[2] + rng.uniform(-1, 1))
               for a in range(nx + 1) for b in range(ny + 1)]
        faces = []
        for a in range(nx):
            for b in range(ny):
                c = a * (ny + 1) + b
                q = (c, c + ny + 1, c + ny + 2, c + 1)
                if rng.random() < 0.5:
                    faces.extend([(q[0], q[1], q[2]), (q[2], q[3], q[0])])
                else:
                    faces.extend([(q[1], q[2], q[3]), (q[3], q[0], q[1])])
        yield {'kind': 'mesh3d', 'verts': pts, 'faces': faces, 'fam': kind,
               'placement': 'space', '_nt': True}
    else:
        # closed surface of a sheared box: six planar parallelogram quads in 3 directions
        fr = frame3(rng, rng.choice(['tilt', 'far', 'axis']))
        w, d, h = rng.uniform(0.5, 9), rng.uniform(0.5, 9), rng.uniform(0.5, 9)
        sx, sy = rng.uniform(-2, 2), rng.uniform(-2, 2)
        loc = [(0, 0, 0), (w, 0, 0), (w, d, 0), (0, d, 0),
               (sx, sy, h), (w + sx, sy, h), (w + sx, d + sy, h), (sx, d + sy, h)]
        pts = [embed(fr, (p[0], p[1]), p[2]) for p in loc]
        faces = [(3, 2, 1, 0), (4, 5, 6, 7), (0, 1, 5, 4), (1, 2, 6, 5), (2, 3, 7, 6),
                 (3, 0, 4, 7)]
        faces = [f[s:] + f[:s] for f, s in zip(faces, [rng.randrange(4) for _ in faces])]
        yield {'kind': 'mesh3d', 'verts': pts, 'faces': faces, 'fam': kind,
               'placement': 'space', '_nt': True}


def stream_solids(seed, i):
    rng = random.Random('%s/c01/solid/%d' % (seed, i))
    kind = rng.choice(['prism', 'prism', 'sheared', 'pyramid', 'frustum', 'bipyramid',
                       'box', 'offset_face'])
    fk = rng.choice(['xy', 'axis', 'tilt', 'tilt', 'far'])
    fr = frame3(rng, fk)
    if kind == 'box':
        yield {'kind': 'polyface', 'mode': 'from_box', 'w': rng.uniform(0.3, 60),
               'd': rng.uniform(0.3, 60), 'h': rng.uniform(0.3, 60),
               'plane': _plane_of(fr) if fk != 'xy' else None, 'solid': kind,
               'placement': fk, '_nt': fk != 'xy'}
        return
    fam = rng.choice(['star', 'convex', 'rectilinear', 'quad', 'lattice']) \
        if kind != 'bipyramid' else 'convex'
    fam, base = gen_loop(rng, fam, rng.choice([3, 4, 5, 6, 8, 12]), rng.choice([4.0, 20.0, 100.0]))
    if base is None:
        return
    holes = []
    if kind in ('prism', 'sheared', 'offset_face') and rng.random() < 0.5:
        holes = gen_holes(rng, base, rng.choice([1, 2, 3]))
    if not shape_valid(base, holes, Fraction(1, 4)):
        return                      # features must be well above the 0.01 used inside the library
    if kind == 'offset_face':
        c = {'kind': 'polyface', 'mode': 'from_offset_face',
             'boundary': [embed(fr, p) for p in base],
             'holes': [[embed(fr, p) for p in h] for h in holes],
             'offset': rng.uniform(0.3, 30), 'solid': kind, 'placement': fk,
             'has_holes': bool(holes), '_nt': True}
        if rng.random() < 0.5:
            c['plane'] = _plane_of(fr)
        yield c
        return
    faces, vol = build_solid(rng, kind, base, holes, fr)
    V = exact_volume(faces)
    selfcheck = abs(V - vol) <= abs(vol) * Fraction(1, 10 ** 11) and V > 0
    for mode in ('from_faces', 'indices'):
        for rep in range(2):
            flips = [rng.random() < 0.5 for _ in faces] if rep else [False] * len(faces)
            yield {'kind': 'polyface', 'mode': mode, 'faces': faces, 'flips': flips,
                   'starts': [rng.randrange(12) for _ in faces],
                   'perm': rng.sample(range(len(faces)), len(faces)) if rep else
                   list(range(len(faces))),
                   'tol': rng.choice([0.01, 0.001]), 'has_holes': bool(holes), 'solid': kind,
                   'placement': fk, '_selfcheck': selfcheck, '_nt': True}


def stream_closed(seed, i):
    rng = random.Random('%s/c01/closed/%d' % (seed, i))
    m = rng.choice([1.0, 10.0, 1e3])
    pt = lambda: [rng.uniform(-m, m) for _ in range(3)]       # noqa: E731
    r = rng.choice([rng.uniform(0.01, 1), rng.uniform(1, 100), rng.uniform(100, 1e4)])
    yield {'kind': 'sphere', 'c': pt(), 'r': r, '_nt': False}
    ax = [rng.gauss(0, 1) * m for _ in range(3)]
    yield {'kind': 'cone', 'v': pt(), 'axis': ax, 'angle': rng.uniform(0.05, 1.4), '_nt': False}
    yield {'kind': 'cylinder', 'c': pt(), 'axis': ax, 'r': r, '_nt': False}
    two_pi = 2 * math.pi
    a1, a2 = rng.uniform(0, two_pi), rng.uniform(0, two_pi)
    if rng.random() < 0.2:
        a1, a2 = rng.choice([(0.0, math.pi), (math.pi, 0.0), (0.0, two_pi - 1e-9),
                             (two_pi, 1.0), (1.0, two_pi), (0.0, 1e-6)])
    circle = rng.random() < 0.25
    yield {'kind': 'arc2d', 'c': pt()[:2], 'r': r, 'a1': a1, 'a2': a2, 'circle': circle,
           '_nt': False}
    yield {'kind': 'arc3d', 'plane': _plane_of(frame3(rng, rng.choice(['xy', 'tilt', 'far']))),
           'r': r, 'a1': a1, 'a2': a2, 'circle': circle, '_nt': False}


STREAMS = [('polygons', stream_polygons), ('holes', stream_holes), ('meshes', stream_meshes),
           ('solids', stream_solids), ('factories', stream_factories),
           ('closed', stream_closed), ('big_holes', stream_big_holes)]


# ====================================================================== shrinking
def _case_size(c):
    k = c['kind']
    if k == 'polygon2d':
        return len(c['verts']) + sum(len(h) for h in c.get('holes', []))
    if k == 'face3d':
        return len(c['boundary']) + sum(len(h) for h in c.get('holes', []))
    if k in ('mesh2d', 'mesh3d'):
        return sum(len(f) for f in c['faces'])
    if k == 'polyface' and 'faces' in c:
        return sum(len(lp) for f in c['faces'] for lp in f)
    return 1


def _project(loops3):
    """drop the coordinate along which the boundary's area vector is largest: an affine
    bijection of the plane that never increases distances."""
    ips, D = ints_multi(loops3)
    o = ips[0][0]
    N = newell2([sub3(p, o) for p in ips[0]])
    k = max(range(3), key=lambda c: abs(N[c]))
    keep = [c for c in range(3) if c != k]
    return [[(p[keep[0]], p[keep[1]]) for p in lp] for lp in loops3]


def _valid_case(c):
    try:
        if c['kind'] == 'polygon2d':
            return shape_valid([tuple(p) for p in c['verts']],
                               [[tuple(p) for p in h] for h in c.get('holes', [])])
        if c['kind'] == 'face3d':
            loops = _project([[tuple(p) for p in c['boundary']]] +
                             [[tuple(p) for p in h] for h in c.get('holes', [])])
            return shape_valid(loops[0], loops[1:])
    except Exception:
        return False
    return True


def _candidates(c):
    k = c['kind']
    if k in ('polygon2d', 'face3d'):
        bk = 'verts' if k == 'polygon2d' else 'boundary'
        hs = c.get('holes', [])
        for i in range(len(hs)):
            d = dict(c)
            d['holes'] = hs[:i] + hs[i + 1:]
            if d['holes'] or k == 'face3d':
                yield d
        b = c[bk]
        if len(b) > 3:
            for i in range(len(b)):
                d = dict(c)
                d[bk] = b[:i] + b[i + 1:]
                yield d
        for j, h in enumerate(hs):
            if len(h) > 3:
                for i in range(len(h)):
                    d = dict(c)
                    d['holes'] = hs[:j] + [h[:i] + h[i + 1:]] + hs[j + 1:]
                    yield d
    elif k in ('mesh2d', 'mesh3d'):
        if len(c['faces']) > 1:
            for f in c['faces']:
                d = dict(c)
                d['verts'] = [c['verts'][i] for i in f]
                d['faces'] = [tuple(range(len(f)))]
                yield d


def shrink(case, sig, budget=400, seconds=6.0):
    cur = case
    calls = 0
    progress = True
    t_stop = time.time() + seconds
    while progress and calls < budget and time.time() < t_stop:
        progress = False
        for cand in _candidates(cur):
            if calls >= budget or time.time() > t_stop:
                break
            if not _valid_case(cand):
                continue
            calls += 1
            o = check_case(cand)
            if any(f['signature'] == sig for f in o.fails):
                cur = cand
                progress = True
                break
    return cur


def _public(case):
    return dict((k, v) for k, v in case.items() if not k.startswith('_'))


def _failure(case, f):
    c = _public(case)
    brief = dict((k, c[k]) for k in c if k not in ('verts', 'boundary', 'holes', 'faces'))
    size = _case_size(c)
    extra = {'repro': f['repro']} if 'repro' in f else {}
    return dict(extra, **{'signature': f['signature'], 'site': f['site'], 'observed': f['observed'],
            'expected': f['expected'], 'tol': f['tol'], 'case': c,
            'what': '%s on %s (%d vertices, %s): observed %s, exact %s (tol %s)' % (
                f['site'], c['kind'], size, _brief(brief), f['observed'], f['expected'],
                f['tol'])})


def _brief(d):
    s = ', '.join('%s=%s' % (k, d[k]) for k in sorted(d) if k != 'kind')
    return s[:160]


# ====================================================================== run / replay
BUDGET = {   # datasets per stream: (quick, thorough)
    'polygons': (180, 4300), 'holes': (85, 2000), 'meshes': (260, 6000), 'solids': (110, 2300),
    'factories': (40, 900), 'closed': (240, 5000), 'big_holes': (4, 60)}


def run(ctx):
    seed = ctx.seed
    thorough = ctx.tier == 'thorough' or bool(getattr(ctx, 'broken', None))
    t_end = min(ctx.deadline, time.time() + (690 if thorough else 40))
    evaluations = 0
    comparisons = 0
    nontrivial = set()
    by_sig = {}
    hist = {'kind': {}, 'family': {}, 'placement': {}, 'vertices': {}, 'holes': {},
            'solid': {}, 'datasets': {}, 'worst_err_over_tol': {}}
    selfcheck_bad = 0
    samples = []
    timed_out = False

    def bump(h, k):
        hist[h][k] = hist[h].get(k, 0) + 1

    # interleave the streams so that a deadline cuts all of them proportionally
    plan = []
    for name, fn in STREAMS:
        cnt = BUDGET[name][1 if thorough else 0]
        plan.extend((j / float(cnt), name, fn, j) for j in range(cnt))
    plan.sort(key=lambda t: (t[0], t[1]))
    for _, name, fn, j in plan:
        if time.time() > t_end:
            timed_out = True
            break
        produced = False
        try:
            cases = list(fn(seed, j))
        except Exception as e:           # generator defects must not crash the check
            cases = []
            by_sig.setdefault('harness|generator|%s' % name, (0, {
                'signature': 'harness|generator|%s' % name, 'what': 'generator %s/%d raised %r'
                % (name, j, e), 'case': {'kind': 'generator', 'stream': name, 'index': j}}))
        for case in cases:
            produced = True
            out = check_case(case)
            evaluations += 1
            comparisons += out.n
            bump('kind', case['kind'])
            bump('family', case.get('fam', case.get('solid', case.get('factory', case['kind']))))
            bump('placement', case.get('placement', '-'))
            sz = _case_size(case)
            bump('vertices', '3' if sz <= 3 else '4' if sz == 4 else '5-8' if sz <= 8 else
                 '9-16' if sz <= 16 else '17-60' if sz <= 60 else '61-400' if sz <= 400
                 else '>400')
            if case['kind'] in ('polygon2d', 'face3d'):
                bump('holes', str(len(case.get('holes', []))))
            if case['kind'] == 'polyface':
                bump('solid', '%s/%s' % (case.get('solid'), case['mode']))
                if case.get('_selfcheck') is False:
                    selfcheck_bad += 1
            w = hist['worst_err_over_tol']
            w[case['kind']] = max(w.get(case['kind'], 0.0), out.worst)
            if case.get('_nt'):
                nontrivial.add(hash(repr(sorted(_public(case).items(), key=lambda kv: kv[0]))))
            if len(samples) < 6 and sz <= 8 and case['kind'] not in [s['kind'] for s in samples]:
                samples.append(_public(case))
            for f in out.fails:
                sig = f['signature']
                if sig not in by_sig or sz < by_sig[sig][0]:
                    by_sig[sig] = (sz, _failure(case, f))
        if produced:
            bump('datasets', name)
    failures = []
    t_shrink = time.time() + (120 if thorough else 25)
    for sig in sorted(by_sig):
        sz, fl = by_sig[sig]
        case = fl['case']
        if case.get('kind') in CHECKERS and time.time() < min(ctx.deadline, t_shrink):
            small = shrink(case, sig, seconds=min(6.0, t_shrink - time.time()))
            if small is not case:
                o = check_case(small)
                ff = [f for f in o.fails if f['signature'] == sig]
                if ff:
                    fl = _failure(small, ff[0])
        fl['seed'] = seed
        failures.append(fl)
    hist['worst_err_over_tol'] = dict((k, float('%.3g' % v))
                                      for k, v in hist['worst_err_over_tol'].items())
    return {
        'evaluations': evaluations,
        'distinct_nontrivial': len(nontrivial),
        'rule': 'cases = real objects built from certified float data: Polygon2D / Face3D '
                '(0..6 holes) x 2D and 3D placements x both orders x cyclic starts (all up to '
                '12 vertices, sampled above), Mesh2D/Mesh3D of triangles and convex quads with '
                'mixed face orientation/start, Polyface3D solids handed over shuffled/flipped '
                '(from_faces, index constructor) and through from_box/from_offset_face (also '
                'rebuilt without the pre-seeded values), closed forms; every reported '
                'area/perimeter/volume/centroid compared with the exact rational measure. '
                'non-trivial = anything but an axis-parallel rectangle (or rectangle grid, or '
                'box) in the world XY frame; closed-form cases are not counted',
        'samples': samples,
        'failures': failures,
        'extra': {'histograms': hist, 'comparisons': comparisons,
                  'oracle_selfcheck_failures': selfcheck_bad, 'timed_out': timed_out},
    }


def replay(ctx, failure):
    case = failure.get('case')
    if not case or case.get('kind') not in CHECKERS:
        return None
    out = check_case(case)
    for f in out.fails:
        if f['signature'] == failure['signature']:
            fl = _failure(case, f)
            fl['seed'] = failure.get('seed')
            return fl
    return None
