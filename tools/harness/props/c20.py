"""C20 — grid meshes and OBJ/STL interchange are faithful to the geometry.

Property oracle on the REAL code (exact rational arithmetic on the returned floats):
  A  grids       Mesh2D.from_grid, Mesh2D.from_polygon_grid, Face3D.mesh_grid: every face is a
                 cell of the lattice  min + (i*dx', j*dy')  with the ADJUSTED cell size
                 dx' = W / max(1, floor(W / x_dim)), corners inside the source shape, reported
                 face areas / centroids / normals / total area = recomputed from the vertices,
                 normals and winding along the face normal (reversed with flip), offset plane.
  B  removal     remove_vertices / remove_faces / remove_faces_only / triangulated keep faces,
                 colours (distinct per face or per vertex), cached areas and centroids aligned
                 through the returned patterns.
  C  OBJ         Mesh3D.to_obj / OBJ.from_mesh3d(...).to_file -> Mesh3D.from_obj / OBJ.from_file
                 reproduce vertices and faces exactly (face-coloured meshes are written
                 unrolled, by design: then the face geometry must be reproduced exactly).
  D  STL         Mesh3D.to_stl / STL -> Mesh3D.from_stl / STL.from_file reproduce the
                 triangulated faces to 1e-6 relative, quads included.
Files go through tempfile.TemporaryDirectory().
"""
import math
import os
import random
import tempfile
import time
from fractions import Fraction as F

from ladybug_geometry.geometry2d.pointvector import Point2D, Vector2D
from ladybug_geometry.geometry3d.pointvector import Point3D, Vector3D
from ladybug_geometry.geometry2d.polygon import Polygon2D
from ladybug_geometry.geometry2d.mesh import Mesh2D
from ladybug_geometry.geometry3d.mesh import Mesh3D
from ladybug_geometry.geometry3d.face import Face3D
from ladybug_geometry.geometry3d.plane import Plane
from ladybug_geometry.interop.obj import OBJ
from ladybug_geometry.interop.stl import STL

from . import c05 as G      # generators and exact integer predicates (polygons with holes)
from .c05 import time_limit, CallTimeout      # noqa: F401

CALL_LIMIT = 60.0     # seconds allowed for one case (a bad change may loop)

TOL = 1e-9            # relative to the coordinate magnitude
STL_TOL = 1e-6        # the property's tolerance for the ASCII STL round trip
INSIDE_TOL = 2e-6     # grid corners may be this far (relative to the extent, + 2e-7 absolute)
#                       outside: from_polygon_grid deliberately tests against the polygon scaled
#                       by 1.000001 and shifted by 1e-7

ASSUMPTIONS = [
    'source polygons/faces are valid (certified like C05: simple loops, holes strictly inside, '
    'gaps >= 1e-3, corners >= 1 degree from 0/180), 3..40 vertices, 0..3 holes, random planes',
    'cell sizes x_dim, y_dim in [extent/40, 2*extent]; when W/x_dim is within 1e-9 relative of '
    'an integer both neighbouring cell counts are accepted',
    'a grid corner counts as inside the source shape when it is inside or at most '
    '2e-6*extent + 2e-7 away from it (the library tests against the polygon scaled by 1.000001 '
    'and shifted by 1e-7 "for tolerance reasons")',
    'an empty grid (no cell with four corners inside: AssertionError "Mesh must have at least '
    'one face") is a legitimate outcome and not judged; completeness of the cell set is not '
    'part of the property',
    'numbers agree within 1e-9 relative to the coordinate magnitude (areas: magnitude squared); '
    'STL within 1e-6 relative to the largest coordinate magnitude of the mesh',
    'a quad may be split along either diagonal when it is convex; the two triangles must keep '
    'the orientation and cover the quad',
    'OBJ: a face-coloured mesh written with include_colors=True is written with one vertex per '
    'face corner (documented); then each face must come back with exactly its corner points',
]
TRUSTED = [
    'C20: Python Fraction oracle (no Lean specification: the property is about float file '
    'round trips and per-cell arithmetic identities; the index lemmas are in Props/C20.lean)',
    'C20: polygon generators and exact point-in-polygon / validity predicates are shared '
    'with props/c05.py',
]


# =============================================================== small exact helpers
def fr(x):
    return F(x)


def close(a, b, scale, tol=TOL):
    return abs(F(a) - F(b)) <= F(tol) * F(scale)


def mag2(pts):
    m = 1.0
    for p in pts:
        for c in p:
            if abs(c) > m:
                m = abs(c)
    return m


def shoelace(pts):
    """exact signed area of a list of (x, y) Fractions"""
    s = F(0)
    n = len(pts)
    for i in range(n):
        a, b = pts[i], pts[(i + 1) % n]
        s += a[0] * b[1] - b[0] * a[1]
    return s / 2


def cross3(u, v):
    return (u[1] * v[2] - u[2] * v[1], u[2] * v[0] - u[0] * v[2], u[0] * v[1] - u[1] * v[0])


def sub3(a, b):
    return (a[0] - b[0], a[1] - b[1], a[2] - b[2])


def dot3(a, b):
    return a[0] * b[0] + a[1] * b[1] + a[2] * b[2]


def fsqrt(q):
    """float square root of a non-negative Fraction (error ~1e-16 relative)"""
    if q <= 0:
        return 0.0
    n, d = q.numerator, q.denominator
    try:
        return math.sqrt(n / d)
    except OverflowError:
        return math.sqrt(n) / math.sqrt(d)


def tri_area3(a, b, c):
    n = cross3(sub3(b, a), sub3(c, a))
    return fsqrt(dot3(n, n)) / 2, n


def P3(p):
    return (F(p.x), F(p.y), F(p.z))


def P2(p):
    return (F(p.x), F(p.y))


class Bad(Exception):
    """A violated clause: Bad(clause, message)."""

    def __init__(self, clause, msg):
        Exception.__init__(self, msg)
        self.clause = clause
        self.msg = msg


def need(cond, clause, msg):
    if not cond:
        raise Bad(clause, msg() if callable(msg) else msg)


# =============================================================== A. grids
def adjusted(w, dim):
    """Candidate (count, adjusted size) pairs for an extent w (Fraction) and requested dim."""
    r = w / F(dim)
    # (the library measures the extent in plane coordinates: rounding of order 1e-16 x the
    # coordinate magnitude over the extent; both neighbouring counts are accepted within 1e-9)
    eps = F(1, 10 ** 9)
    out = []
    for rr in (r * (1 - eps), r, r * (1 + eps)):
        n = max(1, int(rr))          # int() floors a positive Fraction
        if n not in [o[0] for o in out]:
            out.append((n, w / n))
    return out


def check_lattice_2d(verts, faces, minpt, w, h, x_dim, y_dim, scale, fixed_counts=None,
                     flipped=False):
    """verts: list of (x, y) Fractions, faces: index tuples.  Every face must be a cell of the
    lattice minpt + (i*dx, j*dy).  Returns (nx, ny, dx, dy, cells)."""
    need(len(faces) > 0, 'cells', 'no faces')
    tol = F(TOL) * F(scale)
    if fixed_counts is not None:
        cands_x = [(fixed_counts[0], F(x_dim))]
        cands_y = [(fixed_counts[1], F(y_dim))]
    else:
        cands_x, cands_y = adjusted(w, x_dim), adjusted(h, y_dim)
    f0 = [verts[i] for i in faces[0]]
    wx = max(p[0] for p in f0) - min(p[0] for p in f0)
    wy = max(p[1] for p in f0) - min(p[1] for p in f0)
    cx = [c for c in cands_x if abs(c[1] - wx) <= 4 * tol]
    cy = [c for c in cands_y if abs(c[1] - wy) <= 4 * tol]
    need(cx, 'cell-size', lambda: 'cell width %.12g, adjusted x size should be %s (requested %r over '
         'extent %.12g)' % (float(wx), ' or '.join('%.12g' % float(c[1]) for c in cands_x), x_dim, float(w)))
    need(cy, 'cell-size', lambda: 'cell height %.12g, adjusted y size should be %s (requested %r over '
         'extent %.12g)' % (float(wy), ' or '.join('%.12g' % float(c[1]) for c in cands_y), y_dim, float(h)))
    nx, dx = min(cx, key=lambda c: abs(c[1] - wx))
    ny, dy = min(cy, key=lambda c: abs(c[1] - wy))
    # slack grows with the index: the library accumulates x += dx
    cells = set()
    for fi, f in enumerate(faces):
        need(len(f) == 4, 'cells', 'face %d has %d vertices' % (fi, len(f)))
        ij = []
        for vi in f:
            need(0 <= vi < len(verts), 'cells', 'face %d: index %d out of range' % (fi, vi))
            x, y = verts[vi]
            i = round((x - minpt[0]) / dx)
            j = round((y - minpt[1]) / dy)
            slack = tol * (4 + max(i, j, 0))
            need(abs(minpt[0] + i * dx - x) <= slack and abs(minpt[1] + j * dy - y) <= slack, 'cells',
                 lambda: 'face %d vertex (%.12g, %.12g) is not on the lattice min + (i*%.12g, j*%.12g)'
                 % (fi, float(x), float(y), float(dx), float(dy)))
            need(0 <= i <= nx and 0 <= j <= ny, 'cells',
                 'face %d vertex outside the %dx%d grid' % (fi, nx, ny))
            ij.append((i, j))
        i0 = min(p[0] for p in ij)
        j0 = min(p[1] for p in ij)
        want = [(i0, j0), (i0 + 1, j0), (i0 + 1, j0 + 1), (i0, j0 + 1)]
        if flipped:
            want = want[::-1]
        k = ij.index(want[0]) if want[0] in ij else -1
        need(k >= 0 and ij[k:] + ij[:k] == want, 'cells',
             lambda: 'face %d %s has lattice corners %s, not the cell (%d,%d) in %s order' % (
                 fi, f, ij, i0, j0, 'reversed' if flipped else 'counter-clockwise'))
        need((i0, j0) not in cells, 'cells', 'cell (%d,%d) occurs twice' % (i0, j0))
        cells.add((i0, j0))
    return nx, ny, dx, dy, cells


def check_inside(points, loops, extent, what):
    """points: list of (x, y) floats, loops: [boundary, holes...] floats."""
    k, il, ex = G.to_ints(loops, [points])
    ip = ex[0]
    tol = INSIDE_TOL * max(extent, 0.0) + 2e-7
    tol2 = F(tol) * F(tol) * k * k
    for idx, p in enumerate(ip):
        ok = G.pip(il[0], p) >= 0 and all(G.pip(h, p) <= 0 for h in il[1:])
        if ok:
            continue
        # outside: exact distance to the nearest edge of any loop
        best = None
        for lp in il:
            n = len(lp)
            for i in range(n):
                a, b = lp[i], lp[(i + 1) % n]
                dx, dy = b[0] - a[0], b[1] - a[1]
                px, py = p[0] - a[0], p[1] - a[1]
                t = px * dx + py * dy
                l2 = dx * dx + dy * dy
                if t <= 0:
                    d2 = F(px * px + py * py)
                elif t >= l2:
                    d2 = F((p[0] - b[0]) ** 2 + (p[1] - b[1]) ** 2)
                else:
                    d2 = F((px * dy - py * dx) ** 2, l2)
                if best is None or d2 < best:
                    best = d2
        need(best <= tol2, 'inside',
             lambda: '%s corner (%.12g, %.12g) lies %.3g outside the source shape' % (
                 what, points[idx][0], points[idx][1], fsqrt(best) / k))


def check_reported_2d(mesh, scale, ext):
    """face_areas, face_centroids, face_area_centroids, area vs recomputation (Mesh2D)."""
    vs = [P2(v) for v in mesh.vertices]
    fa = mesh.face_areas
    fc = mesh.face_centroids
    fac = mesh.face_area_centroids
    need(len(fa) == len(mesh.faces), 'face_areas', 'face_areas has %d entries for %d faces'
         % (len(fa), len(mesh.faces)))
    need(len(fc) == len(mesh.faces), 'face_centroids', 'face_centroids has %d entries for %d faces'
         % (len(fc), len(mesh.faces)))
    tot = F(0)
    ascale = scale * max(1.0, ext)        # area error ~ extent * coordinate magnitude * 1e-9
    for i, f in enumerate(mesh.faces):
        pts = [vs[j] for j in f]
        a = abs(shoelace(pts))
        tot += a
        need(close(fa[i], a, ascale), 'face_areas',
             lambda: 'face %d: reported area %.12g, recomputed %.12g' % (i, fa[i], float(a)))
        c = (sum(p[0] for p in pts) / len(pts), sum(p[1] for p in pts) / len(pts))
        need(close(fc[i].x, c[0], scale) and close(fc[i].y, c[1], scale), 'face_centroids',
             lambda: 'face %d: reported centroid (%.12g, %.12g), recomputed (%.12g, %.12g)' % (
                 i, fc[i].x, fc[i].y, float(c[0]), float(c[1])))
        if len(f) == 4 and fac is not None:
            # rectangle cells: area centroid = vertex centroid
            need(close(fac[i].x, c[0], scale) and close(fac[i].y, c[1], scale), 'face_area_centroids',
                 lambda: 'face %d: reported area centroid (%.12g, %.12g), recomputed (%.12g, %.12g)'
                 % (i, fac[i].x, fac[i].y, float(c[0]), float(c[1])))
    need(close(mesh.area, tot, ascale * max(1, len(mesh.faces))), 'area',
         lambda: 'mesh.area %.12g, sum of recomputed face areas %.12g' % (mesh.area, float(tot)))


def grid_case_from_grid(rng):
    base = Point2D(rng.choice([0.0, rng.uniform(-50, 50), rng.uniform(-5000, 5000)]),
                   rng.choice([0.0, rng.uniform(-50, 50)]))
    nx, ny = rng.randint(1, 12), rng.randint(1, 12)
    xd = rng.choice([1.0, 0.5, rng.uniform(0.01, 30), 1 / 3.0])
    yd = rng.choice([1.0, xd, rng.uniform(0.01, 30), 0.1])
    gc = rng.random() < 0.5
    return {'kind': 'from_grid', 'base': (base.x, base.y), 'nx': nx, 'ny': ny, 'x_dim': xd,
            'y_dim': yd, 'centroids': gc}


def run_from_grid(c):
    base = Point2D(*c['base'])
    m = Mesh2D.from_grid(base, c['nx'], c['ny'], c['x_dim'], c['y_dim'], c['centroids'])
    vs = [P2(v) for v in m.vertices]
    scale = mag2([(v.x, v.y) for v in m.vertices])
    need(len(m.faces) == c['nx'] * c['ny'], 'cells', '%d faces for a %dx%d grid'
         % (len(m.faces), c['nx'], c['ny']))
    need(len(m.vertices) == (c['nx'] + 1) * (c['ny'] + 1), 'cells', '%d vertices for a %dx%d grid'
         % (len(m.vertices), c['nx'], c['ny']))
    check_lattice_2d(vs, m.faces, P2(base), F(c['x_dim']) * c['nx'], F(c['y_dim']) * c['ny'],
                     c['x_dim'], c['y_dim'], scale, fixed_counts=(c['nx'], c['ny']))
    check_reported_2d(m, scale, max(c['nx'] * c['x_dim'], c['ny'] * c['y_dim']))
    return {'cells': len(m.faces)}


def gen_source_shape(rng, seed_tag):
    """A valid polygon with holes (float loops), certified."""
    for _ in range(40):
        kind = rng.choice(['convex', 'star', 'comb', 'rectilinear', 'rect', 'rect', 'spiral'])
        n = rng.choice([3, 4, 5, 6, 8, rng.randint(9, 20), rng.randint(21, 40)])
        if kind == 'rect':
            w, h = rng.choice([10.0, rng.uniform(1, 30)]), rng.choice([10.0, rng.uniform(1, 30)])
            bnd = [(0.0, 0.0), (w, 0.0), (w, h), (0.0, h)]
        else:
            bnd = G.gen_boundary(rng, kind, n, False)
        if bnd is None or not 3 <= len(bnd) <= 40:
            continue
        loops = [bnd]
        want = rng.choice([0, 0, 0, 1, 1, 2, 3])
        lattice = kind in ('rectilinear', 'rect') and rng.random() < 0.7
        if want:
            loops = G.add_holes(rng, loops, want, near=False, lattice=lattice)
        if not (kind in ('rectilinear', 'rect') and rng.random() < 0.6):
            loops = G.place(rng, loops, lattice)
        loops = G.reorder(rng, loops)
        if G.validate(loops, False) is None:
            return loops, kind
    return None, None


def pick_dims(rng, w, h):
    def one(ext):
        u = rng.random()
        if u < 0.35:                       # exact divisor
            return ext / rng.choice([1, 2, 3, 4, 5, 7, 10, 16, 25, 40])
        if u < 0.5:
            return ext * rng.choice([1.5, 2.0, 1.0000001, 0.9999999, 1.2])
        return ext * math.exp(rng.uniform(math.log(1 / 40.0), math.log(2.0)))
    xd = one(w)
    yd = xd if rng.random() < 0.3 else one(h)
    # keep the grid below ~45 x 45 cells
    xd = max(xd, w / 45.0)
    yd = max(yd, h / 45.0)
    return xd, yd


def grid_case_polygon(rng, tag):
    loops, kind = gen_source_shape(rng, tag)
    if loops is None:
        return None
    if len(loops) > 1 and rng.random() < 0.5:
        loops = loops[:1]
    xs = [p[0] for p in loops[0]]
    ys = [p[1] for p in loops[0]]
    xd, yd = pick_dims(rng, max(xs) - min(xs), max(ys) - min(ys))
    return {'kind': 'from_polygon_grid', 'loops': loops, 'x_dim': xd, 'y_dim': yd,
            'centroids': rng.random() < 0.5, 'shape': kind}


def run_polygon_grid(c):
    loops = c['loops']
    if len(loops) == 1:
        poly = Polygon2D(tuple(Point2D(x, y) for (x, y) in loops[0]))
    else:
        poly = Polygon2D.from_shape_with_holes([Point2D(x, y) for (x, y) in loops[0]],
                                               [[Point2D(x, y) for (x, y) in h] for h in loops[1:]])
    try:
        m = Mesh2D.from_polygon_grid(poly, c['x_dim'], c['y_dim'], c['centroids'])
    except AssertionError as e:
        if 'at least one face' in str(e):
            return {'cells': 0}
        raise
    xs = [F(p[0]) for p in loops[0]]
    ys = [F(p[1]) for p in loops[0]]
    w, h = max(xs) - min(xs), max(ys) - min(ys)
    scale = mag2(loops[0])
    vs = [P2(v) for v in m.vertices]
    check_lattice_2d(vs, m.faces, (min(xs), min(ys)), w, h, c['x_dim'], c['y_dim'], scale)
    used = sorted(set(i for f in m.faces for i in f))
    check_inside([(m.vertices[i].x, m.vertices[i].y) for i in used], loops,
                 float(max(w, h)), 'grid')
    check_reported_2d(m, scale, float(max(w, h)))
    return {'cells': len(m.faces)}


def grid_case_face(rng, tag):
    loops, kind = gen_source_shape(rng, tag)
    if loops is None:
        return None
    xs = [p[0] for p in loops[0]]
    ys = [p[1] for p in loops[0]]
    xd, yd = pick_dims(rng, max(xs) - min(xs), max(ys) - min(ys))
    off = rng.choice([None, None, 0, 0.0, 0.5, rng.uniform(0.01, 3), -0.25])
    y_none = rng.random() < 0.3
    if y_none:
        xd = max(xd, (max(ys) - min(ys)) / 45.0)
    return {'kind': 'mesh_grid', 'loops': loops, 'x_dim': xd,
            'y_dim': None if y_none else yd, 'offset': off, 'flip': rng.random() < 0.5,
            'centroids': rng.random() < 0.5, 'plane_seed': tag + '/plane',
            'give_plane': rng.random() < 0.6, 'shape': kind}


def make_face(c):
    rng = random.Random(c['plane_seed'])
    pl = G.rand_plane(rng)
    loops = c['loops']
    b3 = [pl.xy_to_xyz(Point2D(x, y)) for (x, y) in loops[0]]
    h3 = [[pl.xy_to_xyz(Point2D(x, y)) for (x, y) in h] for h in loops[1:]] or None
    return Face3D(b3, pl if c['give_plane'] else None, h3)


def run_mesh_grid(c):
    face = make_face(c)
    try:
        m = face.mesh_grid(c['x_dim'], c['y_dim'], c['offset'], c['flip'], c['centroids'])
    except AssertionError as e:
        if 'at least one face' in str(e):
            return {'cells': 0}
        raise
    pl = face.plane
    o, ax, ay, an = P3(pl.o), P3(pl.x), P3(pl.y), P3(pl.n)

    def uvw(p):
        d = sub3(P3(p), o)
        return (dot3(d, ax), dot3(d, ay), dot3(d, an))
    # the source shape in plane coordinates (own exact projection of the face's loops)
    b2 = [uvw(p)[:2] for p in face.boundary]
    h2 = [[uvw(p)[:2] for p in h] for h in (face.holes or ())]
    xs = [p[0] for p in b2]
    ys = [p[1] for p in b2]
    w, h = max(xs) - min(xs), max(ys) - min(ys)
    scale = mag2([(v.x, v.y, v.z) for v in m.vertices] + [(p.x, p.y, p.z) for p in face.boundary])
    tol = F(TOL) * F(scale)
    y_dim = c['x_dim'] if c['y_dim'] is None else c['y_dim']
    off = c['offset'] or 0
    want_w = F(off) * (-1 if c['flip'] else 1)
    pv = [uvw(v) for v in m.vertices]
    for i, q in enumerate(pv):
        need(abs(q[2] - want_w) <= 4 * tol, 'offset',
             lambda: 'vertex %d is %.12g above the face plane, expected %.12g (offset %r, flip %r)'
             % (i, float(q[2]), float(want_w), c['offset'], c['flip']))
    # the plane axes are unit vectors only up to rounding: lattice check with a wider slack
    check_lattice_2d([q[:2] for q in pv], m.faces, (min(xs), min(ys)), w, h, c['x_dim'], y_dim,
                     scale * 8, flipped=c['flip'])
    used = sorted(set(i for f in m.faces for i in f))
    check_inside([(float(pv[i][0]), float(pv[i][1])) for i in used],
                 [[(float(x), float(y)) for (x, y) in b2]] +
                 [[(float(x), float(y)) for (x, y) in hh] for hh in h2], float(max(w, h)), 'grid')
    # reported areas, centroids, normals vs recomputation from the vertices
    fa, fc, fn = m.face_areas, m.face_centroids, m.face_normals
    nf = len(m.faces)
    need(len(fa) == nf and len(fc) == nf and len(fn) == nf, 'aligned',
         'face_areas/centroids/normals have %d/%d/%d entries for %d faces' % (len(fa), len(fc), len(fn), nf))
    sgn = -1 if c['flip'] else 1
    tot = 0.0
    ascale = scale * max(1.0, float(max(w, h)))
    for i, f in enumerate(m.faces):
        p = [P3(m.vertices[j]) for j in f]
        a1, n1 = tri_area3(p[0], p[1], p[2])
        a2, n2 = tri_area3(p[0], p[2], p[3])
        a = a1 + a2
        tot += a
        need(abs(fa[i] - a) <= TOL * ascale, 'face_areas',
             lambda: 'face %d: reported area %.12g, recomputed %.12g' % (i, fa[i], a))
        cen = tuple(sum(q[k] for q in p) / 4 for k in range(3))
        need(all(close(getattr(fc[i], 'xyz'[k]), cen[k], scale) for k in range(3)), 'face_centroids',
             lambda: 'face %d: reported centroid %s, recomputed (%.12g, %.12g, %.12g)' % (
                 i, fc[i], float(cen[0]), float(cen[1]), float(cen[2])))
        nn = (n1[0] + n2[0], n1[1] + n2[1], n1[2] + n2[2])
        ln = fsqrt(dot3(nn, nn))
        need(ln > 0, 'face_normals', 'face %d is degenerate' % i)
        rn = tuple(float(x) / ln for x in nn)          # right-hand-rule normal of the winding
        need(max(abs(rn[0] - fn[i].x), abs(rn[1] - fn[i].y), abs(rn[2] - fn[i].z)) <= 1e-9, 'face_normals',
             lambda: 'face %d: reported normal %s, winding of its vertices gives (%.9g, %.9g, %.9g)'
             % (i, fn[i], rn[0], rn[1], rn[2]))
        d = fn[i].x * pl.n.x + fn[i].y * pl.n.y + fn[i].z * pl.n.z
        need(abs(d - sgn) <= 1e-9, 'face_normals',
             lambda: 'face %d: normal . face normal = %.12g, expected %d (flip=%r)' % (i, d, sgn, c['flip']))
    for i, vn in enumerate(m.vertex_normals):
        d = vn.x * pl.n.x + vn.y * pl.n.y + vn.z * pl.n.z
        need(abs(d - sgn) <= 1e-9, 'vertex_normals',
             lambda: 'vertex %d: normal . face normal = %.12g, expected %d' % (i, d, sgn))
    need(abs(m.area - tot) <= TOL * ascale * max(1, nf), 'area',
         lambda: 'mesh.area %.12g, sum of recomputed face areas %.12g' % (m.area, tot))
    return {'cells': nf}


# =============================================================== B. removal / triangulated
def build_mesh(rng, dim, tag):
    """A mesh with triangles, quads or both; returns a case dict (literal data)."""
    style = rng.choice(['quads', 'tris', 'mixed', 'mixed', 'concave-quads'])
    if dim == 3 and style == 'concave-quads':
        style = 'mixed'
    nx, ny = rng.randint(1, 5), rng.randint(1, 5)
    sx, sy = rng.uniform(0.3, 4), rng.uniform(0.3, 4)
    ox, oy = rng.choice([0.0, rng.uniform(-100, 100), rng.uniform(-5000, 5000)]), rng.uniform(-20, 20)
    sh = rng.uniform(-0.3, 0.3)
    verts = []
    for i in range(nx + 1):
        for j in range(ny + 1):
            jx = rng.uniform(-0.15, 0.15) if rng.random() < 0.5 else 0.0
            jy = rng.uniform(-0.15, 0.15) if rng.random() < 0.5 else 0.0
            verts.append((ox + sx * (i + jx) + sh * j, oy + sy * (j + jy)))
    faces = []
    for i in range(nx):
        for j in range(ny):
            a = i * (ny + 1) + j
            q = (a, a + ny + 1, a + ny + 2, a + 1)
            if style == 'quads' or (style == 'mixed' and rng.random() < 0.5):
                faces.append(q)
            elif style == 'concave-quads' and dim == 2 and rng.random() < 0.5:
                # push one corner towards the opposite one: a concave (dart) quad, own vertices
                k = rng.randrange(4)
                p, opp = verts[q[k]], verts[q[(k + 2) % 4]]
                verts.append((p[0] + 0.7 * (opp[0] - p[0]), p[1] + 0.7 * (opp[1] - p[1])))
                qq = list(q)
                qq[k] = len(verts) - 1
                faces.append(tuple(qq))
            else:
                if rng.random() < 0.5:
                    faces.extend([(q[0], q[1], q[2]), (q[2], q[3], q[0])])
                else:
                    faces.extend([(q[1], q[2], q[3]), (q[3], q[0], q[1])])
    if rng.random() < 0.3:        # a lone vertex
        verts.append((ox - 1.0, oy - 1.0))
    order = list(range(len(faces)))
    rng.shuffle(order)
    faces = [faces[i] for i in order]
    if rng.random() < 0.3:
        faces = [f[1:] + f[:1] for f in faces]
    col = rng.choice(['none', 'face', 'vertex', 'face', 'vertex'])
    if len(faces) == len(verts) and col != 'none':
        col = 'none'               # ambiguous for the library (same count): not a valid colouring
    z = None
    plane_seed = None
    if dim == 3:
        plane_seed = tag + '/plane'
        z = [rng.uniform(-0.05, 0.05) if rng.random() < 0.3 else 0.0 for _ in verts]
    return {'dim': dim, 'verts': verts, 'faces': faces, 'colors': col, 'z': z,
            'plane_seed': plane_seed, 'warm': rng.random() < 0.5, 'style': style}


def colours_for(c):
    if c['colors'] == 'face':
        return [(i, 255 - (i % 256), (7 * i) % 256, 255) for i in range(len(c['faces']))]
    if c['colors'] == 'vertex':
        return [(1000 + i, (3 * i) % 256, (11 * i) % 256, 255) for i in range(len(c['verts']))]
    return None


def make_mesh(c):
    cols = colours_for(c)
    if c['dim'] == 2:
        m = Mesh2D(tuple(Point2D(x, y) for (x, y) in c['verts']), tuple(c['faces']), cols)
    else:
        pl = G.rand_plane(random.Random(c['plane_seed']))
        if c.get('unit'):
            # a small part (millimetres and below): plane through the world origin, every
            # coordinate far below 1
            pl = Plane(pl.n, Point3D(0, 0, 0))
        pts = []
        for (x, y), zz in zip(c['verts'], c['z']):
            p = pl.xy_to_xyz(Point2D(x, y))
            pts.append(Point3D(p.x + pl.n.x * zz, p.y + pl.n.y * zz, p.z + pl.n.z * zz))
        m = Mesh3D(tuple(pts), tuple(c['faces']), cols)
    if c.get('warm'):
        m.face_areas
        m.face_centroids
        m.face_area_centroids
        if c['dim'] == 3:
            m.face_normals
    return m


def coords(p):
    return (p.x, p.y) if isinstance(p, Point2D) else (p.x, p.y, p.z)


def face_data(m):
    """Freshly recomputed per-face data of a mesh from its vertices and faces only."""
    cls = Mesh2D if isinstance(m.vertices[0], Point2D) else Mesh3D
    fresh = cls(tuple(m.vertices), tuple(m.faces))
    d = {'areas': fresh.face_areas, 'centroids': fresh.face_centroids,
         'area_centroids': fresh.face_area_centroids}
    if cls is Mesh3D:
        d['normals'] = fresh.face_normals
    return d


def check_aligned(new, old, fmap, vmap, scale, op, colors_by):
    """new: resulting mesh, old: original; fmap[j] = old face index of new face j,
    vmap[k] = old vertex index of new vertex k."""
    need(len(new.faces) == len(fmap), op + '|faces', '%d faces, expected %d' % (len(new.faces), len(fmap)))
    need(len(new.vertices) == len(vmap), op + '|vertices', '%d vertices, expected %d'
         % (len(new.vertices), len(vmap)))
    for k, ov in enumerate(vmap):
        need(coords(new.vertices[k]) == coords(old.vertices[ov]), op + '|vertices',
             'new vertex %d is not old vertex %d' % (k, ov))
    ofv = old.face_vertices
    nfv = new.face_vertices
    for j, of in enumerate(fmap):
        need([coords(p) for p in nfv[j]] == [coords(p) for p in ofv[of]], op + '|faces',
             lambda: 'new face %d %s does not have the corner points of old face %d %s' % (
                 j, new.faces[j], of, old.faces[of]))
    if colors_by == 'none':
        need(new.colors is None, op + '|colors', 'colours appeared: %r' % (new.colors,))
    else:
        need(new.colors is not None, op + '|colors', 'colours were dropped')
        exp = [old.colors[of] for of in fmap] if colors_by == 'face' else [old.colors[ov] for ov in vmap]
        need(list(new.colors) == exp, op + '|colors(%s)' % colors_by,
             lambda: 'colours not aligned: first difference at %d: %r vs expected %r' % next(
                 ((i, a, b) for i, (a, b) in enumerate(zip(list(new.colors) + [None] * len(exp),
                                                         exp + [None] * len(new.colors))) if a != b)))
        need(new.is_color_by_face == (colors_by == 'face') or len(new.faces) == len(new.vertices),
             op + '|colors', 'is_color_by_face flipped')
    od = face_data(old)
    cs = [coords(v) for v in old.vertices]
    ext = max(max(p[k] for p in cs) - min(p[k] for p in cs) for k in range(len(cs[0])))
    ascale = scale * max(1.0, ext)
    na, nc, nac = new.face_areas, new.face_centroids, new.face_area_centroids
    need(len(na) == len(fmap) and len(nc) == len(fmap) and len(nac) == len(fmap), op + '|face-data',
         'face_areas/centroids/area_centroids have %d/%d/%d entries for %d faces'
         % (len(na), len(nc), len(nac), len(fmap)))
    for j, of in enumerate(fmap):
        need(abs(na[j] - od['areas'][of]) <= TOL * ascale, op + '|face_areas',
             lambda: 'face %d (old %d): area %.12g, recomputed %.12g' % (j, of, na[j], od['areas'][of]))
        for nm, got, ref in (('face_centroids', nc[j], od['centroids'][of]),
                             ('face_area_centroids', nac[j], od['area_centroids'][of])):
            need(max(abs(a - b) for a, b in zip(coords(got), coords(ref))) <= TOL * scale, op + '|' + nm,
                 lambda: 'face %d (old %d): %s %s, recomputed %s' % (j, of, nm, got, ref))
    if 'normals' in od:
        nn = new.face_normals
        need(len(nn) == len(fmap), op + '|face_normals', 'wrong count')
        for j, of in enumerate(fmap):
            need(max(abs(a - b) for a, b in zip(coords(nn[j]), coords(od['normals'][of]))) <= 1e-9,
                 op + '|face_normals', 'face %d (old %d): normal %s, recomputed %s'
                 % (j, of, nn[j], od['normals'][of]))
    need(abs(new.area - sum(od['areas'][of] for of in fmap)) <= TOL * ascale * max(1, len(fmap)),
         op + '|area', lambda: 'area %.12g, expected %.12g' % (new.area, sum(od['areas'][of] for of in fmap)))


def rand_pattern(rng, n, p_keep):
    return [rng.random() < p_keep for _ in range(n)]


def removal_case(rng, tag):
    c = build_mesh(rng, rng.choice([2, 3]), tag)
    nv, nf = len(c['verts']), len(c['faces'])
    c['kind'] = 'removal'
    c['vpat'] = rand_pattern(rng, nv, rng.choice([0.6, 0.8, 0.9]))
    c['fpat'] = rand_pattern(rng, nf, rng.choice([0.4, 0.7, 0.9]))
    # make sure something survives
    f0 = c['faces'][rng.randrange(nf)]
    for i in f0:
        c['vpat'][i] = True
    c['fpat'][rng.randrange(nf)] = True
    return c


def run_removal(c):
    m = make_mesh(c)
    scale = mag2([coords(v) for v in m.vertices])
    cb = c['colors']
    faces = c['faces']
    out = {}
    # ---- remove_vertices
    vp = list(c['vpat'])
    exp_fp = [all(vp[i] for i in f) for f in faces]
    fp = list(c['fpat'])
    if not any(exp_fp) or not any(fp):
        return {'skipped': 'pattern removes every face (a mesh needs at least one face)'}
    new, fpat = m.remove_vertices(vp)
    need(list(fpat) == exp_fp, 'remove_vertices|pattern',
         lambda: 'face pattern %s, expected %s' % (list(fpat), exp_fp))
    check_aligned(new, m, [i for i, k in enumerate(exp_fp) if k], [i for i, k in enumerate(vp) if k],
                  scale, 'remove_vertices', cb)
    # ---- remove_faces
    m = make_mesh(c)
    new, vpat = m.remove_faces(fp)
    used = set(i for f, k in zip(faces, fp) if k for i in f)
    exp_vp = [i in used for i in range(len(c['verts']))]
    need(list(vpat) == exp_vp, 'remove_faces|pattern',
         lambda: 'vertex pattern %s, expected %s' % (list(vpat), exp_vp))
    check_aligned(new, m, [i for i, k in enumerate(fp) if k], [i for i, k in enumerate(exp_vp) if k],
                  scale, 'remove_faces', cb)
    # ---- remove_faces_only
    m = make_mesh(c)
    new = m.remove_faces_only(fp)
    check_aligned(new, m, [i for i, k in enumerate(fp) if k], list(range(len(c['verts']))),
                  scale, 'remove_faces_only', cb)
    # ---- chained: remove_faces after remove_vertices (caches carried twice)
    m = make_mesh(c)
    mid, fpat = m.remove_vertices(vp)
    keep_f = [i for i, k in enumerate(exp_fp) if k]
    if len(keep_f) >= 2 and (cb == 'none' or len(mid.faces) != len(mid.vertices)):
        # (with as many faces as vertices the library cannot tell face from vertex colours)
        fp2 = [(i % 2 == 0) for i in range(len(keep_f))]
        new = mid.remove_faces_only(fp2)
        vm = [i for i, k in enumerate(vp) if k]
        check_aligned(new, m, [f for f, k in zip(keep_f, fp2) if k], vm, scale,
                      'remove_vertices+remove_faces_only', cb)
    # ---- triangulated (Mesh2D only)
    if c['dim'] == 2:
        m = make_mesh(c)
        t = m.triangulated()
        check_triangulated(t, m, cb, scale)
        out['triangulated'] = True
    return out


def check_triangulated(t, m, cb, scale):
    need(len(t.vertices) == len(m.vertices) and
         all(coords(a) == coords(b) for a, b in zip(t.vertices, m.vertices)), 'triangulated|vertices',
         'vertices changed')
    k = 0
    exp_cols = []
    vs = [P2(v) for v in m.vertices]
    for fi, f in enumerate(m.faces):
        if len(f) == 3:
            need(k < len(t.faces) and tuple(t.faces[k]) == tuple(f), 'triangulated|faces',
                 lambda: 'triangle %d %s became %s' % (fi, f, t.faces[k] if k < len(t.faces) else None))
            k += 1
            exp_cols.append(fi)
        else:
            need(k + 1 < len(t.faces), 'triangulated|faces', 'too few faces')
            t1, t2 = tuple(t.faces[k]), tuple(t.faces[k + 1])
            need(valid_quad_split(f, t1, t2, vs), 'triangulated|faces',
                 lambda: 'quad %d %s was split into %s, %s which do not tile it' % (fi, f, t1, t2))
            k += 2
            exp_cols.extend([fi, fi])
    need(k == len(t.faces), 'triangulated|faces', '%d faces, expected %d' % (len(t.faces), k))
    if cb == 'none':
        need(t.colors is None, 'triangulated|colors', 'colours appeared')
    elif cb == 'face':
        need(t.colors is not None and list(t.colors) == [m.colors[i] for i in exp_cols],
             'triangulated|colors(face)', lambda: 'face colours not aligned: %r' % (t.colors,))
    else:
        need(t.colors is not None and list(t.colors) == list(m.colors), 'triangulated|colors(vertex)',
             'vertex colours changed')
    # areas
    tot = sum(abs(shoelace([vs[i] for i in f])) for f in t.faces)
    tot_m = sum(quad_area(f, vs) for f in m.faces)
    need(tot == tot_m, 'triangulated|area', lambda: 'triangles cover %.12g, faces %.12g'
         % (float(tot), float(tot_m)))
    need(close(t.area, tot, scale * scale * max(1, len(t.faces))), 'triangulated|area',
         lambda: 'area %.12g, recomputed %.12g' % (t.area, float(tot)))


def quad_area(f, vs):
    return abs(shoelace([vs[i] for i in f]))


def valid_quad_split(q, t1, t2, vs):
    """t1, t2 (index triples) tile the simple quad q = (a, b, c, d), keeping its orientation."""
    a, b, c, d = q
    opts = [((a, b, c), (c, d, a)), ((b, c, d), (d, a, b))]

    def rot(t):
        return {t, (t[1], t[2], t[0]), (t[2], t[0], t[1])}
    for (u, v) in opts:
        if (t1 in rot(u) and t2 in rot(v)) or (t1 in rot(v) and t2 in rot(u)):
            if vs is None:
                return True
            s = shoelace([vs[i] for i in q])
            s1 = shoelace([vs[i] for i in u])
            s2 = shoelace([vs[i] for i in v])
            # both triangles non-degenerate with the quad's orientation => they tile it
            return s != 0 and s1 * s > 0 and s2 * s > 0
    return False


# =============================================================== C/D. OBJ and STL
def interop_case(rng, tag):
    c = build_mesh(rng, 3, tag)
    if c['style'] == 'concave-quads':
        c['style'] = 'mixed'
    c['kind'] = 'interop'
    c['warm'] = rng.random() < 0.3
    c['include_colors'] = rng.random() < 0.7
    c['include_normals'] = rng.random() < 0.3
    c['triangulate_quads'] = rng.random() < 0.3
    c['via'] = rng.choice(['mesh', 'mesh', 'class'])
    c['name'] = rng.choice(['m', 'mesh_1', 'Test.obj', 'x.OBJ', 'poly'])
    if rng.random() < 0.3:
        # the same mesh as a small part: all coordinates scaled far below one length unit
        u = rng.choice([1e-2, 1e-3, 1e-5])
        x0, y0 = c['verts'][0]
        c['verts'] = [((x - x0) * u, (y - y0) * u) for (x, y) in c['verts']]
        c['z'] = [zz * u for zz in c['z']]
        c['unit'] = u
    # odd magnitudes: tiny, huge, negative zero, many digits
    if rng.random() < 0.3:
        k = rng.randrange(len(c['verts']))
        c['verts'][k] = (c['verts'][k][0] + rng.choice([1e-9, 1e7, -1e-13, 123456.789012345]),
                         c['verts'][k][1])
    return c


def split_quads(faces):
    out = []
    src = []
    for i, f in enumerate(faces):
        if len(f) == 4:
            out.append([(f[0], f[1], f[2]), (f[2], f[3], f[0])])
        else:
            out.append([tuple(f)])
        src.append(i)
    return out


def same_tri(t, u):
    return u in (t, (t[1], t[2], t[0]), (t[2], t[0], t[1]))


def run_obj(c, folder):
    m = make_mesh(c)
    name = c['name']
    ic, inn, tq = c['include_colors'], c['include_normals'], c['triangulate_quads']
    if c['via'] == 'mesh':
        path = m.to_obj(folder, name, ic, inn, tq)
    else:
        path = OBJ.from_mesh3d(m, ic, inn).to_file(folder, name, tq)
    need(os.path.isfile(path), 'file', 'no file written at %r' % (path,))
    back = Mesh3D.from_obj(path)
    raw = OBJ.from_file(path)
    unrolled = ic and c['colors'] == 'face'
    # expected faces as point tuples
    exp_faces = []
    for f in m.faces:
        if tq and len(f) == 4:
            exp_faces.append(('quad', f))
        else:
            exp_faces.append(('face', f))
    got_fv = back.face_vertices
    k = 0
    for kind, f in exp_faces:
        pts = [coords(m.vertices[i]) for i in f]
        if kind == 'face':
            need(k < len(got_fv), 'faces', 'only %d faces read back, expected more' % len(got_fv))
            g = [coords(p) for p in got_fv[k]]
            need(g == pts, 'faces', lambda: 'face %d: read back %s, written %s' % (k, g, pts))
            if not unrolled:
                need(tuple(back.faces[k]) == tuple(f), 'faces',
                     lambda: 'face %d: indices %s, written %s' % (k, back.faces[k], f))
            k += 1
        else:
            need(k + 1 < len(got_fv), 'faces', 'only %d faces read back, expected more' % len(got_fv))
            g1 = tuple(coords(p) for p in got_fv[k])
            g2 = tuple(coords(p) for p in got_fv[k + 1])
            a, b, cc, d = pts
            ok = any((same_tri(u, g1) and same_tri(v, g2)) or (same_tri(v, g1) and same_tri(u, g2))
                     for (u, v) in (((a, b, cc), (cc, d, a)), ((b, cc, d), (d, a, b))))
            need(ok, 'faces(triangulated)', lambda: 'quad %s came back as %s, %s' % (pts, g1, g2))
            k += 2
    need(k == len(got_fv), 'faces', '%d faces read back, %d expected' % (len(got_fv), k))
    if not unrolled:
        need(len(back.vertices) == len(m.vertices) and
             all(coords(a) == coords(b) for a, b in zip(back.vertices, m.vertices)), 'vertices',
             lambda: 'vertices differ: %d read, %d written; first difference %s' % (
                 len(back.vertices), len(m.vertices),
                 next(((coords(a), coords(b)) for a, b in zip(back.vertices, m.vertices)
                       if coords(a) != coords(b)), None)))
    need(len(raw.vertices) == len(back.vertices) and len(raw.faces) == len(back.faces), 'class',
         'OBJ.from_file and Mesh3D.from_obj disagree')
    # colours written next to the vertices stay aligned
    if ic and c['colors'] != 'none':
        need(back.colors is not None and len(back.colors) == len(back.vertices), 'colors',
             'colours were not read back per vertex')
        if c['colors'] == 'vertex':
            exp = [tuple(str(x) for x in col[:3]) for col in m.colors]
        else:
            exp = [tuple(str(x) for x in m.colors[i][:3]) for i, f in enumerate(m.faces) for _ in f]
        need([tuple(x) for x in back.colors] == exp, 'colors(%s)' % c['colors'],
             lambda: 'colours read back %s..., expected %s...' % (list(back.colors)[:3], exp[:3]))
    else:
        need(back.colors is None, 'colors', 'colours appeared: %r' % (back.colors,))
    return {}


def run_stl(c, folder):
    m = make_mesh(c)
    name = c['name'].replace('.obj', '').replace('.OBJ', '')
    if c['via'] == 'mesh':
        path = m.to_stl(folder, name)
    else:
        path = STL.from_mesh3d(m, name).to_file(folder, name)
    need(os.path.isfile(path), 'file', 'no file written at %r' % (path,))
    back = Mesh3D.from_stl(path)
    raw = STL.from_file(path)
    scale = max(abs(x) for v in m.vertices for x in coords(v))
    tol = STL_TOL * scale
    for label, fv in (('Mesh3D.from_stl', back.face_vertices), ('STL.from_file', raw.face_vertices)):
        k = 0
        for f in m.faces:
            pts = [coords(m.vertices[i]) for i in f]
            if len(f) == 3:
                need(k < len(fv), 'faces', '%s: only %d triangles' % (label, len(fv)))
                need(tri_close(pts, fv[k], tol), 'faces',
                     lambda: '%s: triangle %d read back %s, written %s' % (label, k, [coords(p) for p in fv[k]], pts))
                k += 1
            else:
                need(k + 1 < len(fv), 'faces', '%s: only %d triangles' % (label, len(fv)))
                a, b, cc, d = pts
                ok = any((tri_close(u, fv[k], tol) and tri_close(v, fv[k + 1], tol)) or
                         (tri_close(v, fv[k], tol) and tri_close(u, fv[k + 1], tol))
                         for (u, v) in (((a, b, cc), (cc, d, a)), ((b, cc, d), (d, a, b))))
                need(ok, 'faces(quad)', lambda: '%s: quad %s came back as %s, %s' % (
                    label, pts, [coords(p) for p in fv[k]], [coords(p) for p in fv[k + 1]]))
                k += 2
        need(k == len(fv), 'faces', '%s: %d triangles read back, %d expected' % (label, len(fv), k))
    return {}


def tri_close(pts, got, tol):
    g = [coords(p) for p in got]
    if len(g) != 3:
        return False
    for r in range(3):
        rr = g[r:] + g[:r]
        if all(abs(a - b) <= tol for p, q in zip(pts, rr) for a, b in zip(p, q)):
            return True
    return False


# =============================================================== driver of one case
RUNNERS = {
    'from_grid': lambda c, d: run_from_grid(c),
    'from_polygon_grid': lambda c, d: run_polygon_grid(c),
    'mesh_grid': lambda c, d: run_mesh_grid(c),
    'removal': lambda c, d: run_removal(c),
    'obj': run_obj,
    'stl': run_stl,
}


def raise_sig(kind, case, e):
    cfg = ''
    if kind == 'obj' and case.get('colors') == 'face' and case.get('include_colors') and \
            case.get('include_normals'):
        cfg = '(face colours + include_normals)'
    elif kind == 'stl' and any(len(f) == 4 for f in case.get('faces', ())):
        cfg = '(quad faces)'
    return '%s|raises %s%s' % (kind, type(e).__name__, cfg)


def execute(kind, case, folder):
    """-> None | (signature, what)"""
    try:
        with time_limit(CALL_LIMIT):
            RUNNERS[kind](case, folder)
        return None
    except Bad as b:
        return ('%s|%s' % (kind, b.clause), b.msg)
    except Exception as e:       # anything may be raised after a bad change
        return (raise_sig(kind, case, e), '%s: %s' % (type(e).__name__, str(e)[:200]))


def describe_case(kind, c):
    if kind == 'from_grid':
        return 'Mesh2D.from_grid(%r, %d, %d, %r, %r, %r)' % (c['base'], c['nx'], c['ny'], c['x_dim'],
                                                              c['y_dim'], c['centroids'])
    if kind == 'from_polygon_grid':
        return 'Mesh2D.from_polygon_grid(%d-gon%s %s, %r, %r, %r)' % (
            len(c['loops'][0]), ' + %d holes' % (len(c['loops']) - 1) if len(c['loops']) > 1 else '',
            [(round(x, 6), round(y, 6)) for (x, y) in c['loops'][0]][:8], c['x_dim'], c['y_dim'],
            c['centroids'])
    if kind == 'mesh_grid':
        return 'Face3D(%d-gon + %d holes on plane seed %r).mesh_grid(%r, %r, %r, %r, %r)' % (
            len(c['loops'][0]), len(c['loops']) - 1, c['plane_seed'], c['x_dim'], c['y_dim'],
            c['offset'], c['flip'], c['centroids'])
    return 'Mesh%dD(%d vertices, faces %s, colours by %s%s)' % (
        c['dim'], len(c['verts']), c['faces'][:6], c['colors'],
        ', to_obj(include_colors=%r, include_normals=%r, triangulate_quads=%r) via %s' % (
            c.get('include_colors'), c.get('include_normals'), c.get('triangulate_quads'), c.get('via'))
        if kind == 'obj' else ', to_stl via %s' % c.get('via') if kind == 'stl' else '')


def shrink_case(kind, c, sig, folder, deadline):
    """Greedy shrinking that keeps the signature."""
    cur = dict(c)

    def still(x):
        r = execute(kind, x, folder)
        return r is not None and r[0] == sig
    if kind in ('removal', 'obj', 'stl'):
        changed = True
        while changed and time.time() < deadline and len(cur['faces']) > 1:
            changed = False
            for i in range(len(cur['faces'])):
                x = dict(cur)
                x['faces'] = cur['faces'][:i] + cur['faces'][i + 1:]
                if 'fpat' in x:
                    x['fpat'] = cur['fpat'][:i] + cur['fpat'][i + 1:]
                    if not any(x['fpat']):
                        continue
                if x['colors'] != 'none' and len(x['faces']) == len(x['verts']):
                    continue
                if still(x):
                    cur = x
                    changed = True
                    break
        for key, val in (('warm', False), ('include_normals', False), ('triangulate_quads', False),
                         ('include_colors', False), ('via', 'mesh')):
            if key in cur and cur[key] != val:
                x = dict(cur)
                x[key] = val
                if still(x):
                    cur = x
        if cur.get('z'):
            x = dict(cur)
            x['z'] = [0.0] * len(cur['z'])
            if still(x):
                cur = x
    elif kind in ('from_polygon_grid', 'mesh_grid'):
        if len(cur['loops']) > 1:
            x = dict(cur)
            x['loops'] = cur['loops'][:1]
            if still(x):
                cur = x
        for key, val in (('centroids', False), ('flip', False), ('offset', None), ('give_plane', True)):
            if key in cur and cur[key] != val:
                x = dict(cur)
                x[key] = val
                if still(x):
                    cur = x
        xs = [p[0] for p in cur['loops'][0]]
        ys = [p[1] for p in cur['loops'][0]]
        bb = [(min(xs), min(ys)), (max(xs), min(ys)), (max(xs), max(ys)), (min(xs), max(ys))]
        x = dict(cur)
        x['loops'] = [bb]
        if G.validate(x['loops'], False) is None and still(x):
            cur = x
            for w_, h_, xd_, yd_ in ((10.0, 10.0, 3.0, 3.0), (10.0, 10.0, 3.0, 2.5), (10.0, 8.0, 3.0, 3.0)):
                x = dict(cur)
                x['loops'] = [[(0.0, 0.0), (w_, 0.0), (w_, h_), (0.0, h_)]]
                x['x_dim'], x['y_dim'] = xd_, yd_
                if still(x):
                    cur = x
                    break
    elif kind == 'from_grid':
        for key, val in (('nx', 1), ('ny', 1), ('nx', 2), ('ny', 2), ('base', (0.0, 0.0)),
                         ('x_dim', 1.0), ('y_dim', 1.0), ('centroids', False)):
            x = dict(cur)
            x[key] = val
            if still(x):
                cur = x
    return cur


def plain(c):
    """JSON-safe literal copy of a case (python floats survive JSON exactly: repr round trip)."""
    out = {}
    for k, v in c.items():
        if k == 'loops':
            out[k] = [[[float(x), float(y)] for (x, y) in lp] for lp in v]
        elif k == 'verts':
            out[k] = [[float(x), float(y)] for (x, y) in v]
        elif k == 'faces':
            out[k] = [[int(i) for i in f] for f in v]
        elif k == 'base':
            out[k] = [float(v[0]), float(v[1])]
        elif k in ('vpat', 'fpat'):
            out[k] = [bool(b) for b in v]
        elif k == 'z':
            out[k] = None if v is None else [float(x) for x in v]
        else:
            out[k] = v
    return out


def unplain(c):
    out = dict(c)
    if 'loops' in out:
        out['loops'] = [[(float(p[0]), float(p[1])) for p in lp] for lp in out['loops']]
    if 'verts' in out:
        out['verts'] = [(float(p[0]), float(p[1])) for p in out['verts']]
    if 'faces' in out:
        out['faces'] = [tuple(int(i) for i in f) for f in out['faces']]
    if 'base' in out:
        out['base'] = (float(out['base'][0]), float(out['base'][1]))
    return out


# =============================================================== run
def run(ctx):
    seed = ctx.seed
    thorough = ctx.tier == 'thorough' or bool(ctx.broken)
    t_start = time.time()
    budget = 600.0 if thorough else 36.0
    stop_at = min(ctx.deadline, t_start + budget)
    hist = {'kind': {}, 'grid_cells': {}, 'divisor': {}, 'flip': {}, 'offset': {}, 'centroids': {},
            'mesh_style': {}, 'colors': {}, 'source_shape': {}, 'obj_options': {}, 'outcome': {},
            'holes': {}}
    failures = {}
    order = []
    samples = []
    evaluations = 0
    nontrivial = set()

    def bump(h, k):
        hist[h][k] = hist[h].get(k, 0) + 1

    sched = ['from_polygon_grid', 'mesh_grid', 'removal', 'obj', 'stl', 'from_polygon_grid',
             'mesh_grid', 'removal', 'from_grid', 'obj', 'stl', 'removal']
    idx = 0
    with tempfile.TemporaryDirectory() as folder:
        while time.time() < stop_at:
            kind = sched[idx % len(sched)]
            tag = '%s/c20/%s/%d' % (seed, kind, idx)
            idx += 1
            rng = random.Random(tag)
            try:
                if kind == 'from_grid':
                    c = grid_case_from_grid(rng)
                elif kind == 'from_polygon_grid':
                    c = grid_case_polygon(rng, tag)
                elif kind == 'mesh_grid':
                    c = grid_case_face(rng, tag)
                elif kind == 'removal':
                    c = removal_case(rng, tag)
                else:
                    c = interop_case(rng, tag)
            except Exception:
                c = None
            if c is None:
                bump('outcome', 'generator-rejected')
                continue
            bump('kind', kind)
            if kind in ('from_polygon_grid', 'mesh_grid'):
                xs = [p[0] for p in c['loops'][0]]
                w = max(xs) - min(xs)
                r = w / c['x_dim']
                bump('divisor', 'x_dim divides extent' if abs(r - round(r)) < 1e-9 else
                     'x_dim > extent' if r < 1 else 'non-divisor')
                bump('centroids', str(c['centroids']))
                bump('source_shape', c['shape'])
                bump('holes', str(len(c['loops']) - 1))
                if kind == 'mesh_grid':
                    bump('flip', str(c['flip']))
                    bump('offset', 'none/0' if not c['offset'] else 'negative' if c['offset'] < 0 else 'positive')
            if kind in ('removal', 'obj', 'stl'):
                bump('mesh_style', '%dD %s' % (c['dim'], c['style']))
                bump('colors', c['colors'])
            if kind == 'obj':
                bump('obj_options', 'colors=%s normals=%s triangulate=%s via=%s' % (
                    c['include_colors'], c['include_normals'], c['triangulate_quads'], c['via']))
            evaluations += 1
            res = None
            info = {}
            try:
                with time_limit(CALL_LIMIT):
                    info = RUNNERS[kind](c, folder) or {}
            except Bad as b:
                res = ('%s|%s' % (kind, b.clause), b.msg)
            except Exception as e:
                res = (raise_sig(kind, c, e), '%s: %s' % (type(e).__name__, str(e)[:200]))
            if 'cells' in info:
                n = info['cells']
                bump('grid_cells', '0 (empty)' if n == 0 else '1' if n == 1 else '2-9' if n < 10 else
                     '10-99' if n < 100 else '100-999' if n < 1000 else '>=1000')
                if n > 1:
                    nontrivial.add(tag)
            elif kind in ('removal', 'obj', 'stl') and len(c['faces']) > 1:
                nontrivial.add(tag)
            if res is None:
                bump('outcome', 'ok')
                if len(samples) < 5 and idx % 7 == 0:
                    samples.append({'kind': kind, 'case': describe_case(kind, c)[:400]})
                continue
            sig, what = res
            bump('outcome', sig)
            if sig in failures:
                failures[sig]['count'] += 1
                continue
            small = shrink_case(kind, c, sig, folder, min(stop_at, time.time() + (40 if thorough else 6)))
            r2 = execute(kind, small, folder)
            if r2 is None or r2[0] != sig:
                small, r2 = c, res
            failures[sig] = {'signature': sig, 'kind': kind, 'case': plain(small), 'tag': tag,
                             'count': 1, 'what': '%s -> %s' % (describe_case(kind, small)[:600], r2[1])}
            order.append(sig)
    hist['seconds'] = round(time.time() - t_start, 1)
    return {
        'evaluations': evaluations,
        'distinct_nontrivial': len(nontrivial),
        'rule': 'round-robin over from_polygon_grid / mesh_grid (valid polygons and faces with 0..3 '
                'holes, random planes, cell sizes extent/40..2*extent incl. exact divisors and '
                'non-divisors, offset, flip, centroids on/off), from_grid, removal (2D/3D meshes of '
                'quads / triangles / mixed / concave quads, colours per face or vertex, random '
                'patterns, caches warm or cold; remove_vertices, remove_faces, remove_faces_only, '
                'chained, triangulated), OBJ and STL round trips through a temporary directory; '
                'non-trivial = grid with more than one cell / mesh with more than one face',
        'samples': samples,
        'failures': [failures[s] for s in order],
        'extra': {'histograms': hist},
    }


def replay(ctx, failure):
    kind = failure['kind']
    c = unplain(failure['case'])
    with tempfile.TemporaryDirectory() as folder:
        r = execute(kind, c, folder)
    if r is None:
        return None
    out = dict(failure)
    out['signature'] = r[0]
    out['what'] = '%s -> %s' % (describe_case(kind, c)[:600], r[1])
    return out
