"""C17 -- curve parametrisation, subdivision and splitting are exact.

Property oracle on the REAL code.  A curve is described by a JSON-able spec; `Curve` builds the
real object and, independently, its parametrisation by arc-length fraction (segment: p + t*v;
arc: o + r(cos th * ex + sin th * ey) with th = a1 + t * ccw-span(a1, a2), the frame read off
the defining plane).  Checked on the outputs of the implementation:

* point_at(t), point_at_length(d), p1/p2/midpoint/length agree with the parametrisation
  (segments: exact rational arithmetic; arcs: double precision, 1e-9 margin);
* subdivide_evenly(n) has exactly n+1 points and point j is the point at fraction j/n -- for
  every n in 1..500 on at least one object of every class that has the method (the number of
  points depends on n only, so the enumeration is exhaustive in n);
* subdivide(d) (a number or a list of 1..5 distances, the last one repeated) returns the start,
  the points at the exact cumulative distances that are below the length, and the end;
* to_polyline(n) has n segments and every vertex lies on the arc (radius, plane, span);
* LineSegment3D.split_with_plane, Polyline3D.split_with_plane, Arc2D.split_line_infinite,
  Arc3D.split_with_plane: the pieces start at the start of the curve, end at its end (circles:
  close up cyclically), consecutive pieces meet, every junction lies on the cutter and on the
  curve, pieces lie on the curve, lengths add up to the original, and for cutters that cross
  the curve cleanly (away from end points / vertices / tangency) the number of pieces is the
  number of crossings + 1.

Members a class does not have (point_at on polylines, split on 2D segments...) are skipped."""
import json
import math
import random
import time
from fractions import Fraction

from ladybug_geometry.geometry2d.pointvector import Point2D, Vector2D
from ladybug_geometry.geometry3d.pointvector import Point3D, Vector3D
from ladybug_geometry.geometry2d.line import LineSegment2D
from ladybug_geometry.geometry2d.ray import Ray2D
from ladybug_geometry.geometry3d.line import LineSegment3D
from ladybug_geometry.geometry2d.arc import Arc2D
from ladybug_geometry.geometry3d.arc import Arc3D
from ladybug_geometry.geometry2d.polyline import Polyline2D
from ladybug_geometry.geometry3d.polyline import Polyline3D
from ladybug_geometry.geometry3d.plane import Plane

TOL = 1e-9
TWO_PI = 2 * math.pi
GRID = 64
N_MAX = 500

ASSUMPTIONS = [
    'tolerance 1e-9 relative to max(1, largest coordinate magnitude, radius, length) of the '
    'curve (and of the cutter origin for splits)',
    'segments and polyline edges have non-zero length; zero-length arcs (a1 == a2) are only '
    'asked for point_at / subdivide_evenly / to_polyline (length-based members divide by the '
    'length)',
    'subdivide: distances > 0 and >= length/400; a cumulative distance within 1e-9*scale of the '
    'length may or may not be emitted',
    'split: the number of pieces is judged only when every crossing is clean (cutter >= 1e-6 '
    'relative away from end points, vertices and tangency, cutting plane not within 1e-3 rad '
    'of the plane of an Arc3D); "junction lies on the cutter" is not judged within 1e-6 of '
    'tangency, for nearly parallel planes, and when a crossing lies within 1e-6 rad (but not '
    'exactly) on the local x axis of the arc where acos() loses digits; all other clauses are '
    'always judged',
    'a cutter exactly tangent to an arc may leave it unsplit or split it at the tangent point',
    'to_polyline(n) is asked for n >= 2 (a Polyline needs at least 3 vertices, n = 1 raises '
    'its documented AssertionError)',
    'Arc3D.split_with_plane with a cutting plane within 1e-3 rad of the plane of the arc but '
    'whose stored unit normal is not bitwise +-equal to it (a degenerate configuration: the '
    'intersection line is undetermined; the library raises ZeroDivisionError for some) is '
    'not judged',
]
TRUSTED = [
    'C17 oracle is a Python oracle (no Lean specification): segment clauses are decided in '
    'exact rational arithmetic (fractions.Fraction) up to the final comparison with the '
    'tolerance; arc clauses use math.cos/sin/atan2 in double precision (error ~1e-15 relative, '
    'tolerance 1e-9)',
    'the point set of an Arc3D is read off its plane as o + r(cos t * plane.x + sin t * '
    'plane.y), t from a1 counter-clockwise to a2',
]


# ------------------------------------------------------------------ vector helpers
def dot(a, b):
    return sum(x * y for x, y in zip(a, b))


def add(a, b):
    return tuple(x + y for x, y in zip(a, b))


def sub(a, b):
    return tuple(x - y for x, y in zip(a, b))


def mul(a, k):
    return tuple(x * k for x in a)


def norm(a):
    return math.sqrt(dot(a, a))


def cross(a, b):
    return (a[1] * b[2] - a[2] * b[1], a[2] * b[0] - a[0] * b[2], a[0] * b[1] - a[1] * b[0])


def unit(a):
    n = norm(a)
    return tuple(x / n for x in a)


def dist(a, b):
    return norm(sub(a, b))


def span(a1, a2):
    return a2 - a1 if a2 >= a1 else a2 - a1 + TWO_PI


def ortho_basis(n):
    n = unit(n)
    ax = [abs(x) for x in n]
    i = ax.index(min(ax))
    h = [(1.0, 0.0, 0.0), (0.0, 1.0, 0.0), (0.0, 0.0, 1.0)][i]
    ex = unit(cross(n, h))
    return ex, cross(n, ex)


def tup(p):
    return tuple(float(x) for x in p)


def short(x):
    s = json.dumps(x, sort_keys=True)
    return s if len(s) <= 420 else s[:420] + '...'


# ------------------------------------------------------------------ curves
class Curve(object):
    """Real object + independent parametrisation by arc-length fraction."""

    def __init__(self, spec):
        self.spec = spec
        c = self.cls = spec['cls']
        self.dim = 2 if c.endswith('2D') else 3
        self.kind = 'seg' if c.startswith('LineSegment') else 'arc' if c.startswith('Arc') \
            else 'pl'
        if c == 'LineSegment2D':
            self.obj = LineSegment2D(Point2D(*spec['p']), Vector2D(*spec['v']))
        elif c == 'LineSegment3D':
            self.obj = LineSegment3D(Point3D(*spec['p']), Vector3D(*spec['v']))
        elif c == 'Arc2D':
            self.obj = Arc2D(Point2D(*spec['c']), spec['r'], spec['a1'], spec['a2'])
            self.o, self.ex, self.ey = tup(spec['c']), (1.0, 0.0), (0.0, 1.0)
        elif c == 'Arc3D':
            x = None if spec.get('x') is None else Vector3D(*spec['x'])
            pl = Plane(Vector3D(*spec['n']), Point3D(*spec['o']), x)
            self.obj = Arc3D(pl, spec['r'], spec['a1'], spec['a2'])
            self.o, self.ex, self.ey, self.ez = tup(pl.o), tup(pl.x), tup(pl.y), tup(pl.n)
        elif c in ('Polyline3D', 'Polyline2D'):
            P, PL = (Point3D, Polyline3D) if c == 'Polyline3D' else (Point2D, Polyline2D)
            k = spec.get('warm_scale')
            if k:
                # the same polyline reached through a history: built 1/k times the size (k is a
                # power of two, so the division is exact), its length read, then scaled by k --
                # measures the object reports must be those of the object it now is
                base = PL([P(*[x / k for x in p]) for p in spec['pts']])
                base.length
                if spec.get('warm_moves'):
                    base = base.reverse().reverse()
                self.obj = base.scale(k)
            else:
                self.obj = PL([P(*p) for p in spec['pts']])
        else:
            raise ValueError(c)
        if self.kind == 'seg':
            self.p, self.v = tup(spec['p']), tup(spec['v'])
            self.length = math.sqrt(float(sum(Fraction(x) ** 2 for x in self.v)))
            self.scale = max([1.0, self.length] + [abs(x) for x in self.p] +
                             [abs(x + y) for x, y in zip(self.p, self.v)])
            self.cfg = ''
        elif self.kind == 'arc':
            self.r, self.a1, self.a2 = spec['r'], spec['a1'], spec['a2']
            self.ang = span(self.a1, self.a2)
            self.length = self.r * self.ang
            self.circle = self.a1 == 0 and self.a2 == TWO_PI
            self.scale = max([1.0, self.r] + [abs(x) + self.r for x in self.o])
            self.cfg = 'circle' if self.circle else 'inverted' if self.a2 < self.a1 else 'direct'
        else:
            self.V = [tup(p) for p in spec['pts']]
            self.length = sum(dist(a, b) for a, b in zip(self.V, self.V[1:]))
            self.scale = max([1.0, self.length] + [abs(x) for p in self.V for x in p])
            self.cfg = ''
        self.tol = TOL * self.scale

    def point(self, t):
        if self.kind == 'seg':
            return tuple(p + t * v for p, v in zip(self.p, self.v))
        return self.at_angle(self.a1 + t * self.ang)

    def at_angle(self, th):
        c, s = math.cos(th) * self.r, math.sin(th) * self.r
        return tuple(o + c * x + s * y for o, x, y in zip(self.o, self.ex, self.ey))

    def exact_point(self, t):
        """Segment only: exact rational point at fraction t."""
        t = Fraction(t)
        return tuple(Fraction(p) + t * Fraction(v) for p, v in zip(self.p, self.v))

    def on_arc(self, q, slack=1.0):
        """None if q lies on the arc (within tol), else a reason."""
        d = sub(q, self.o)
        x, y = dot(d, self.ex), dot(d, self.ey)
        tol = self.tol * slack
        if self.dim == 3 and abs(dot(d, self.ez)) > tol:
            return 'off the plane by %.3g' % abs(dot(d, self.ez))
        if abs(math.hypot(x, y) - self.r) > tol:
            return 'radius %.17g instead of %.17g' % (math.hypot(x, y), self.r)
        dl = (math.atan2(y, x) - self.a1) % TWO_PI
        ta = tol / self.r
        if dl <= self.ang + ta or dl >= TWO_PI - ta:
            return None
        return 'angle %.12g beyond the span %.12g (from a1)' % (dl, self.ang)


def sigcfg(cv):
    return ('|' + cv.cfg) if cv.cfg else ''


def _fail(sig, what, case, **kw):
    d = {'signature': sig, 'what': what, 'case': case}
    d.update(kw)
    return d


def _raises(cv, member, e, case):
    return _fail('%s.%s|raises %s' % (cv.cls, member, type(e).__name__),
                 '%s: %s raises %s: %s' % (short(case), member, type(e).__name__, e), case)


def near(q, exp, tol):
    return len(q) == len(exp) and all(abs(a - b) <= tol for a, b in zip(q, exp))


# ------------------------------------------------------------------ clause: parametrisation
def check_param(case):
    """case = {'op': 'param', 'curve': spec, 'ts': [...], 'ds': [...]}"""
    cv = Curve(case['curve'])
    o = cv.obj
    out = []
    ftol = Fraction(cv.tol)
    if hasattr(o, 'point_at'):
        for t in case['ts']:
            try:
                q = tup(o.point_at(t))
            except Exception as e:
                return [_raises(cv, 'point_at', e, case)]
            if cv.kind == 'seg':
                ex = cv.exact_point(t)
                bad = any(abs(Fraction(a) - b) > ftol for a, b in zip(q, ex))
                ex = tuple(float(x) for x in ex)
            else:
                ex = cv.point(t)
                bad = not near(q, ex, cv.tol)
            if bad:
                out.append(_fail('%s.point_at|off-curve%s' % (cv.cls, sigcfg(cv)),
                                 '%s: point_at(%r) = %r, the point at that arc-length fraction '
                                 'is %r' % (short(case['curve']), t, q, ex),
                                 dict(case, ts=[t], ds=[])))
                break
    for name, t in (('p1', 0.0), ('p2', 1.0), ('midpoint', 0.5)):
        if hasattr(o, name):
            try:
                q = tup(getattr(o, name))
            except Exception as e:
                return out + [_raises(cv, name, e, case)]
            if not near(q, cv.point(t), cv.tol):
                out.append(_fail('%s.%s|off-curve%s' % (cv.cls, name, sigcfg(cv)),
                                 '%s: %s = %r, the point at fraction %r is %r' % (
                                     short(case['curve']), name, q, t, cv.point(t)),
                                 dict(case, ts=[], ds=[])))
    if hasattr(o, 'length'):
        try:
            ln = float(o.length)
        except Exception as e:
            return out + [_raises(cv, 'length', e, case)]
        if abs(ln - cv.length) > cv.tol:
            out.append(_fail('%s.length|wrong%s' % (cv.cls, sigcfg(cv)),
                             '%s: length = %r, exact %r' % (short(case['curve']), ln, cv.length),
                             dict(case, ts=[], ds=[])))
    if hasattr(o, 'point_at_length') and cv.length > 0:
        for d in case['ds']:
            try:
                q = tup(o.point_at_length(d))
            except Exception as e:
                return out + [_raises(cv, 'point_at_length', e, case)]
            ex = cv.point(d / cv.length)
            if not near(q, ex, cv.tol):
                out.append(_fail('%s.point_at_length|off-curve%s' % (cv.cls, sigcfg(cv)),
                                 '%s: point_at_length(%r) = %r, the point at that distance from '
                                 'the start is %r' % (short(case['curve']), d, q, ex),
                                 dict(case, ts=[], ds=[d])))
                break
    return out


# ------------------------------------------------------------------ clause: subdivide_evenly
def check_evenly(case):
    """case = {'op': 'evenly', 'curve': spec, 'ns': [...]} -> failures (first failing n per
    kind)."""
    cv = Curve(case['curve'])
    o = cv.obj
    if not hasattr(o, 'subdivide_evenly'):
        return []
    out = []
    seen = set()
    for n in case['ns']:
        try:
            pts = o.subdivide_evenly(n)
        except Exception as e:
            return out + [_raises(cv, 'subdivide_evenly', e, dict(case, ns=[n]))]
        if len(pts) != n + 1:
            if 'count' not in seen:
                seen.add('count')
                out.append(_fail('%s.subdivide_evenly|count' % cv.cls,
                                 '%s: subdivide_evenly(%d) returns %d points instead of %d' % (
                                     short(case['curve']), n, len(pts), n + 1),
                                 dict(case, ns=[n])))
            m = min(len(pts), n + 1)
        else:
            m = n + 1
        if 'position' in seen:
            continue
        tol = cv.tol
        for j in range(m):
            q = pts[j]
            ex = cv.point(j / n)
            bad = abs(q[0] - ex[0]) > tol or abs(q[1] - ex[1]) > tol or \
                (cv.dim == 3 and abs(q[2] - ex[2]) > tol)
            if bad:
                seen.add('position')
                out.append(_fail('%s.subdivide_evenly|position%s' % (cv.cls, sigcfg(cv)),
                                 '%s: subdivide_evenly(%d)[%d] = %r, the point at fraction '
                                 '%d/%d is %r' % (short(case['curve']), n, j, tup(q), j, n, ex),
                                 dict(case, ns=[n])))
                break
        if len(pts) == n + 1 and 'position' not in seen and n > 0:
            if not near(tup(pts[-1]), cv.point(1.0), tol):
                seen.add('position')
    return out


# ------------------------------------------------------------------ clause: subdivide
def expected_cumulative(distances, length, band):
    """Exact cumulative distances; -> (sure, maybe): those certainly below the length and those
    within the band of it."""
    ds = [Fraction(d) for d in (distances if isinstance(distances, list) else [distances])]
    L, B = Fraction(length), Fraction(band)
    sure, maybe = [], []
    acc = ds[0]
    i = 0
    while acc < L + B and len(sure) + len(maybe) < 5000:
        (sure if acc < L - B else maybe).append(acc)
        if i < len(ds) - 1:
            i += 1
        acc += ds[i]
    return sure, maybe


def check_subdivide(case):
    """case = {'op': 'subdivide', 'curve': spec, 'd': number or list}"""
    cv = Curve(case['curve'])
    o = cv.obj
    if not hasattr(o, 'subdivide') or cv.length <= 0:
        return []
    d = case['d']
    try:
        pts = [tup(p) for p in o.subdivide(d)]
    except Exception as e:
        return [_raises(cv, 'subdivide', e, case)]
    sure, maybe = expected_cumulative(d, cv.length, cv.tol)
    lo, hi = len(sure) + 2, len(sure) + len(maybe) + 2
    if not lo <= len(pts) <= hi:
        return [_fail('%s.subdivide|count%s' % (cv.cls, sigcfg(cv)),
                      '%s: subdivide(%r) returns %d points; start + %d cumulative distances '
                      'below the length %r + end = %d' % (short(case['curve']), d, len(pts),
                                                          len(sure), cv.length, lo), case)]
    exp = [cv.point(0.0)] + [cv.point(float(c) / cv.length) for c in (sure + maybe)]
    exp = exp[:len(pts) - 1] + [cv.point(1.0)]
    for j, (q, ex) in enumerate(zip(pts, exp)):
        if not near(q, ex, cv.tol):
            which = 'start' if j == 0 else 'end' if j == len(pts) - 1 else \
                'cumulative distance %r' % float((sure + maybe)[j - 1])
            return [_fail('%s.subdivide|position%s' % (cv.cls, sigcfg(cv)),
                          '%s: subdivide(%r)[%d] = %r, expected the point at %s: %r' % (
                              short(case['curve']), d, j, q, which, ex), case)]
    return []


# ------------------------------------------------------------------ clause: to_polyline
def check_polyline(case):
    """case = {'op': 'to_polyline', 'curve': arc spec, 'n': n}"""
    cv = Curve(case['curve'])
    o = cv.obj
    if not hasattr(o, 'to_polyline'):
        return []
    n = case['n']
    try:
        pl = o.to_polyline(n)
        vs = [tup(p) for p in pl.vertices]
    except Exception as e:
        return [_raises(cv, 'to_polyline', e, case)]
    if len(vs) != n + 1:
        return [_fail('%s.to_polyline|count' % cv.cls,
                      '%s: to_polyline(%d) has %d segments' % (short(case['curve']), n,
                                                               len(vs) - 1), case)]
    for j, q in enumerate(vs):
        why = cv.on_arc(q)
        if why:
            return [_fail('%s.to_polyline|vertex-off-arc%s' % (cv.cls, sigcfg(cv)),
                          '%s: to_polyline(%d) vertex %d = %r is not on the arc: %s' % (
                              short(case['curve']), n, j, q, why), case)]
    return []


# ------------------------------------------------------------------ clause: splitting
def make_cutter(cut):
    if cut['cls'] == 'Plane':
        return Plane(Vector3D(*cut['n']), Point3D(*cut['o']))
    k = Ray2D if cut['cls'] == 'Ray2D' else LineSegment2D
    return k(Point2D(*cut['p']), Vector2D(*cut['v']))


def cutter_fn(cut):
    """Signed distance to the cutter and the magnitude of its origin."""
    if cut['cls'] == 'Plane':
        n, o = unit(tup(cut['n'])), tup(cut['o'])
    else:
        v = tup(cut['v'])
        n, o = unit((-v[1], v[0])), tup(cut['p'])
    return (lambda q: dot(n, sub(q, o))), n, o


def split_member(cv):
    return {'LineSegment3D': 'split_with_plane', 'Polyline3D': 'split_with_plane',
            'Arc2D': 'split_line_infinite', 'Arc3D': 'split_with_plane',
            'LineSegment2D': 'split_with_plane', 'Polyline2D': 'split_with_plane'}[cv.cls]


def check_split(case):
    """case = {'op': 'split', 'curve': spec, 'cut': cutter spec} -> (failures, label)"""
    cv = Curve(case['curve'])
    member = split_member(cv)
    if not hasattr(cv.obj, member):
        return [], 'no-member'
    site = '%s.%s' % (cv.cls, member)
    cut = case['cut']
    sd, cn, co = cutter_fn(cut)
    scale = max([cv.scale] + [abs(x) for x in co])
    tol = TOL * scale
    try:
        cutter = make_cutter(cut)
        if cv.cls == 'Arc3D':
            nx = cross(tup(cutter.n), cv.ez)
            bitwise = tup(cutter.n) == cv.ez or tup(cutter.n) == mul(cv.ez, -1.0)
            if not bitwise and norm(nx) < 1e-3:
                return [], 'near-parallel plane (not judged)'
        pieces = getattr(cv.obj, member)(cutter)
        pieces = list(pieces)
    except Exception as e:
        return [_fail('%s|raises %s' % (site, type(e).__name__),
                      '%s cut by %s: raises %s: %s' % (short(case['curve']), short(cut),
                                                       type(e).__name__, e), case)], 'raises'

    def bad(clause, what):
        return [_fail('%s|%s%s' % (site, clause, sigcfg(cv)),
                      '%s cut by %s: %s' % (short(case['curve']), short(cut), what), case,
                      clause=clause)]
    if len(pieces) == 0:
        return bad('no-pieces', 'returns an empty list'), 'empty'
    margin = 1e-6 * scale

    if cv.kind in ('seg', 'pl'):
        V = [cv.p, add(cv.p, cv.v)] if cv.kind == 'seg' else cv.V
        s = [sd(q) for q in V]
        clean = all(abs(x) > margin for x in s)
        crossings = sum(1 for a, b in zip(s, s[1:]) if a * b < 0)
        label = ('clean-%d' % min(crossings, 3)) if clean else 'through-vertex/end'
        # pieces as vertex lists
        try:
            pv = [[tup(p) for p in pc.vertices] for pc in pieces]
            pl = [float(pc.length) for pc in pieces]
        except Exception as e:
            return [_raises(cv, member, e, case)], label
        if not near(pv[0][0], V[0], tol) or not near(pv[-1][-1], V[-1], tol):
            return bad('ends', 'pieces run from %r to %r, the curve from %r to %r' % (
                pv[0][0], pv[-1][-1], V[0], V[-1])), label
        for k in range(len(pv) - 1):
            if not near(pv[k][-1], pv[k + 1][0], tol):
                return bad('pieces-not-consecutive', 'piece %d ends at %r, piece %d starts at '
                           '%r' % (k, pv[k][-1], k + 1, pv[k + 1][0])), label
            if abs(sd(pv[k][-1])) > tol:
                return bad('junction-off-cutter', 'junction %r between pieces %d and %d is %.3g '
                           'away from the cutter' % (pv[k][-1], k, k + 1,
                                                     abs(sd(pv[k][-1])))), label
        if abs(sum(pl) - cv.length) > tol:
            return bad('length-sum', 'piece lengths %r sum to %r, the curve has length %r' % (
                pl, sum(pl), cv.length)), label
        # ... and to the length the split object itself reports (it may have been reached
        # through a history of reads and transforms)
        try:
            own = float(cv.obj.length)
        except Exception as e:
            return bad('raises ' + type(e).__name__, 'length of the split curve: %s' % e), label
        if abs(sum(pl) - own) > tol:
            return bad('length-sum-vs-own-length', 'piece lengths sum to %r, the split curve '
                       'reports length %r' % (sum(pl), own)), label
        # the pieces run along the curve: original vertices in order, junctions on the edges
        chain = list(pv[0])
        for k in range(1, len(pv)):
            chain += pv[k][1:]
        i = 0
        for q in chain:
            if i < len(V) and near(q, V[i], tol):
                i += 1
                continue
            a, b = V[max(i - 1, 0)], V[min(i, len(V) - 1)]
            ab = sub(b, a)
            t = dot(sub(q, a), ab) / dot(ab, ab) if dot(ab, ab) > 0 else 0.0
            foot = add(a, mul(ab, min(1.0, max(0.0, t))))
            if dist(q, foot) > tol:
                return bad('piece-off-curve', 'vertex %r of the pieces is not on the edge %r '
                           '-> %r of the curve' % (q, a, b)), label
        if i != len(V):
            return bad('piece-off-curve', 'the pieces visit only %d of the %d vertices of the '
                       'curve in order' % (i, len(V))), label
        if clean and len(pieces) != crossings + 1:
            return bad('count', '%d pieces, but the cutter crosses the curve %d times (signed '
                       'distances of the vertices: %r)' % (len(pieces), crossings, s)), label
        return [], label

    # ---- arcs
    # local description of the cutter in the frame of the arc: f(th) = D + A cos th + B sin th
    D = sd(cv.o)
    nn = cn if cv.dim == 3 else cn
    A, B = cv.r * dot(nn, cv.ex), cv.r * dot(nn, cv.ey)
    amp = math.hypot(A, B)
    on_cutter_judged = True
    if cv.dim == 3:
        sin_pl = norm(cross(cn, cv.ez))
        if sin_pl < 1e-3:
            on_cutter_judged = False
    if amp == 0 or (cv.dim == 3 and not on_cutter_judged):
        label = 'parallel-plane'
        clean = amp == 0 and abs(D) > margin
        crossings = 0
        cr_angles = []
    elif abs(abs(D) - amp) <= 1e-6 * max(amp, abs(D)):
        label, clean, crossings, cr_angles = 'near-tangent', False, None, []
        on_cutter_judged = False
    elif abs(D) > amp:
        label, clean, crossings, cr_angles = 'missing', True, 0, []
    else:
        phi = math.atan2(B, A)
        w = math.acos(max(-1.0, min(1.0, -D / amp)))
        cr_angles = [(phi + w) % TWO_PI, (phi - w) % TWO_PI]
        clean, crossings = True, 0
        ma = max(1e-6, margin / cv.r)
        for th in cr_angles:
            dl = (th - cv.a1) % TWO_PI
            pole = min(th % math.pi, math.pi - th % math.pi)
            if 0 < pole < 1e-6:
                on_cutter_judged = False
            if cv.circle:
                crossings += 1
            elif ma < dl < cv.ang - ma:
                crossings += 1
            elif dl <= ma or abs(dl - cv.ang) <= ma or dl >= TWO_PI - ma:
                clean = False
        label = ('clean-%d' % crossings) if clean else 'through-end'
    try:
        pa = [(float(pc.a1), float(pc.a2)) for pc in pieces]
        plen = [float(pc.length) for pc in pieces]
        for pc in pieces:
            same = (pc.r == cv.obj.r and pc.c == cv.obj.c) if cv.dim == 2 else \
                (pc.radius == cv.obj.radius and tup(pc.plane.o) == cv.o and
                 tup(pc.plane.n) == cv.ez and tup(pc.plane.x) == cv.ex)
            if not same:
                return bad('piece-off-curve', 'a piece lies on a different circle: %r' % (
                    pc,)), label
    except Exception as e:
        return [_raises(cv, member, e, case)], label
    ta = tol / cv.r
    if len(pieces) == 1:
        if pa[0] != (cv.a1, cv.a2):
            return bad('ends', 'single piece has angles %r, the arc %r' % (
                pa[0], (cv.a1, cv.a2))), label
    else:
        if cv.circle:
            if abs(pa[0][0] - pa[-1][1]) > ta and abs(abs(pa[0][0] - pa[-1][1]) - TWO_PI) > ta:
                return bad('ends', 'pieces of a circle do not close up: first starts at angle '
                           '%r, last ends at %r' % (pa[0][0], pa[-1][1])), label
        elif abs(pa[0][0] - cv.a1) > ta or abs(pa[-1][1] - cv.a2) > ta:
            return bad('ends', 'pieces run from angle %r to %r, the arc from %r to %r' % (
                pa[0][0], pa[-1][1], cv.a1, cv.a2)), label
        for k in range(len(pa) - 1):
            if abs(pa[k][1] - pa[k + 1][0]) > ta:
                return bad('pieces-not-consecutive', 'piece %d ends at angle %r, piece %d '
                           'starts at %r' % (k, pa[k][1], k + 1, pa[k + 1][0])), label
    total = sum(cv.r * span(a, b) for a, b in pa)
    if len(pieces) > 1 and not clean:
        # two crossings that coincide within rounding (tangency) or a crossing within rounding
        # of an end: a piece between angles that agree within the tolerance has length 0, the
        # order of the two (which decides between 0 and a full turn) is below the tolerance
        tiny = [k for k, (a, b) in enumerate(pa) if abs(a - b) <= ta or
                abs(abs(a - b) - TWO_PI) <= ta]
        if tiny:
            total = sum(cv.r * span(a, b) for k, (a, b) in enumerate(pa) if k not in tiny)
            plen = [x for k, x in enumerate(plen) if k not in tiny]
            if abs(total - cv.length) > tol * 4 and abs(total + TWO_PI * cv.r - cv.length) \
                    <= tol * 4:
                total = plen = None     # the tiny piece is the (nearly) full circle itself
    if total is not None and (abs(total - cv.length) > tol * 4 or
                              abs(sum(plen) - cv.length) > tol * 4):
        return bad('length-sum', 'pieces with angles %r have lengths summing to %r (reported '
                   '%r), the arc has length %r' % (pa, total, sum(plen or []), cv.length)), label
    juncs = [pa[k][1] for k in range(len(pa) - 1)]
    if cv.circle and len(pa) > 1:
        juncs.append(pa[-1][1])
    for th in juncs:
        q = cv.at_angle(th)
        if not cv.circle:
            dl = (th - cv.a1) % TWO_PI
            if not (dl <= cv.ang + ta or dl >= TWO_PI - ta):
                return bad('piece-off-curve', 'junction angle %r is outside the span of the '
                           'arc' % th), label
        if on_cutter_judged and abs(sd(q)) > tol * 4:
            return bad('junction-off-cutter', 'junction at angle %r (point %r) is %.3g away '
                       'from the cutter' % (th, q, abs(sd(q)))), label
    if clean and crossings is not None and len(pieces) != crossings + (0 if cv.circle and
                                                                       crossings else 1):
        return bad('count', '%d pieces, but the cutter crosses the arc %d times (at angles %r)'
                   % (len(pieces), crossings, cr_angles)), label
    return [], label


CHECKS = {'param': check_param, 'evenly': check_evenly, 'subdivide': check_subdivide,
          'to_polyline': check_polyline,
          'split': lambda case: check_split(case)[0]}


# ------------------------------------------------------------------ generators
class G(object):
    def __init__(self, rng):
        self.r = rng

    def lat(self, lo=-16, hi=16):
        return self.r.randint(lo * 4, hi * 4) / 4.0

    def coord(self, stream):
        if stream == 'lattice':
            return self.lat()
        m = self.r.choice([1.0, 10.0, 10.0, 1e3])
        return self.r.uniform(-m, m)

    def pt(self, dim, stream):
        return [self.coord(stream) for _ in range(dim)]

    def vec(self, dim, stream):
        r = self.r
        while True:
            if stream == 'lattice':
                v = [self.lat(-8, 8) for _ in range(dim)]
            elif stream == 'neardeg':
                v = [r.choice([0.0, 0.0, r.uniform(-5, 5), 1e-4, -1e3]) for _ in range(dim)]
            else:
                m = r.choice([0.5, 5.0, 50.0])
                v = [r.uniform(-m, m) for _ in range(dim)]
            if math.sqrt(sum(x * x for x in v)) > 1e-3:
                return v

    def normal(self, stream):
        r = self.r
        ax = [[1.0, 0.0, 0.0], [0.0, 1.0, 0.0], [0.0, 0.0, 1.0], [-1.0, 0.0, 0.0],
              [0.0, -1.0, 0.0], [0.0, 0.0, -1.0]]
        if stream == 'lattice':
            return r.choice(ax + [[0.6, 0.8, 0.0], [0.0, 0.6, -0.8], [1.0, 1.0, 0.0],
                                  [1.0, 1.0, 1.0], [2.0, -1.0, 2.0]])
        while True:
            v = [r.gauss(0, 1), r.gauss(0, 1), r.gauss(0, 1)]
            if norm(v) > 0.1:
                k = r.choice([1.0, 1.0, 2.5]) / norm(v)
                return [x * k for x in v]

    def radius(self, stream):
        r = self.r
        if stream == 'lattice':
            return r.randint(1, 32) / 4.0
        return r.choice([r.uniform(0.05, 2), r.uniform(1, 20), r.uniform(20, 500)])

    def angle_pair(self, stream):
        r = self.r
        if stream == 'lattice':
            return r.randint(0, GRID) * TWO_PI / GRID, r.randint(0, GRID) * TWO_PI / GRID
        if stream == 'neardeg':
            def nearq():
                a = r.randint(0, 4) * (math.pi / 2) + \
                    r.choice([-1, 1]) * r.choice([0.0, 1e-12, 1e-9, 1e-6, 1e-3])
                return min(TWO_PI, max(0.0, a))
            return nearq(), nearq()
        return r.uniform(0, TWO_PI), r.uniform(0, TWO_PI)

    def curve(self, cls, stream):
        r = self.r
        if cls in ('LineSegment2D', 'LineSegment3D'):
            d = 2 if cls.endswith('2D') else 3
            return {'cls': cls, 'p': self.pt(d, stream), 'v': self.vec(d, stream)}
        if cls == 'Arc2D':
            a1, a2 = self.angle_pair(stream)
            if r.random() < 0.12:
                a1, a2 = 0, TWO_PI
            return {'cls': cls, 'c': self.pt(2, stream), 'r': self.radius(stream),
                    'a1': a1, 'a2': a2}
        if cls == 'Arc3D':
            a1, a2 = self.angle_pair(stream)
            if r.random() < 0.12:
                a1, a2 = 0, TWO_PI
            n = self.normal(stream)
            x = None
            if r.random() < 0.4 and stream != 'lattice':
                ex, ey = ortho_basis(tup(n))
                th = r.uniform(0, TWO_PI)
                x = list(add(mul(ex, math.cos(th)), mul(ey, math.sin(th))))
            return {'cls': cls, 'n': n, 'o': self.pt(3, stream), 'x': x,
                    'r': self.radius(stream), 'a1': a1, 'a2': a2}
        if cls in ('Polyline3D', 'Polyline2D'):
            d = 2 if cls.endswith('2D') else 3
            n = r.randint(3, 9)
            pts = [self.pt(d, stream)]
            for _ in range(n - 1):
                v = self.vec(d, stream)
                pts.append([pts[-1][i] + v[i] for i in range(d)])
            sp = {'cls': cls, 'pts': pts}
            if r.random() < 0.3:
                sp['warm_scale'] = r.choice([2.0, 0.5, 4.0, 0.25])
                sp['warm_moves'] = r.random() < 0.5
            return sp
        raise ValueError(cls)

    def cutter(self, cv, stream):
        """-> (cutter spec, intended kind)."""
        r = self.r
        kind = r.choice(['interior', 'interior', 'interior', 'end', 'missing', 'special',
                         'two-points'])
        if cv.dim == 3:
            if kind == 'special' and cv.kind == 'arc':
                how = r.choice(['parallel', 'same-plane', 'tangent'])
                if how == 'parallel':
                    return {'cls': 'Plane', 'n': list(cv.ez),
                            'o': list(add(cv.o, mul(cv.ez, r.choice([1.0, -0.25]))))}, how
                if how == 'same-plane':
                    return {'cls': 'Plane', 'n': list(cv.ez), 'o': list(cv.o)}, how
                th = r.uniform(0, TWO_PI)
                u = add(mul(cv.ex, math.cos(th)), mul(cv.ey, math.sin(th)))
                k = r.choice([1.0, 1.0 + 1e-9, 1.0 - 1e-9, 1.0 - 1e-4, 1.0 + 1e-4])
                return {'cls': 'Plane', 'n': list(u), 'o': list(add(cv.o, mul(u, cv.r * k)))}, \
                    'tangent'
            if kind == 'special' and cv.kind == 'seg':
                # plane containing the segment / parallel to it
                ex, ey = ortho_basis(cv.v)
                return {'cls': 'Plane', 'n': list(ex),
                        'o': list(add(cv.p, mul(ex, r.choice([0.0, 1.0]))))}, 'parallel'
            if kind == 'special':
                kind = 'vertex'
            if stream == 'lattice':
                n = r.choice([[1.0, 0.0, 0.0], [0.0, 1.0, 0.0], [0.0, 0.0, 1.0], [1.0, 1.0, 0.0],
                              [1.0, -2.0, 2.0]])
            else:
                n = self.normal('real')
            if kind == 'missing':
                o = [x + 50 * cv.scale for x in self._ref(cv, 0.5)]
            elif kind == 'end':
                o = list(self._ref(cv, r.choice([0.0, 1.0])))
            elif kind == 'vertex' and cv.kind == 'pl':
                o = list(r.choice(cv.V[1:-1]))
            else:
                o = list(self._ref(cv, r.uniform(0.02, 0.98)))
                if stream == 'lattice':
                    o = [round(x * 4) / 4.0 for x in o]
            if kind == 'two-points' and cv.kind != 'seg':
                # a plane through two (three) points of the curve: several crossings
                a, b = self._ref(cv, r.uniform(0.05, 0.45)), self._ref(cv, r.uniform(0.55, 0.95))
                w = tup(self.normal('real'))
                nn = cross(sub(b, a), w)
                if norm(nn) > 1e-6:
                    return {'cls': 'Plane', 'n': list(nn), 'o': list(a)}, kind
            return {'cls': 'Plane', 'n': n, 'o': o}, kind
        # 2D: a line for an Arc2D
        cls = r.choice(['Ray2D', 'LineSegment2D'])
        if kind == 'special':
            th = r.uniform(0, TWO_PI) if stream != 'lattice' else r.randint(0, 3) * math.pi / 2
            if stream == 'lattice':
                u = [(1.0, 0.0), (0.0, 1.0), (-1.0, 0.0), (0.0, -1.0)][r.randint(0, 3)]
            else:
                u = (math.cos(th), math.sin(th))
            k = 1.0 if stream == 'lattice' else \
                r.choice([1.0, 1.0 + 1e-9, 1.0 - 1e-9, 1.0 - 1e-4, 1.0 + 1e-4])
            p = add(cv.o, mul(u, cv.r * k))
            s = r.choice([0.5, 1.0, 3.0])
            return {'cls': cls, 'p': list(add(p, mul((-u[1], u[0]), -s))),
                    'v': list(mul((-u[1], u[0]), 2 * s))}, 'tangent'
        if kind == 'missing':
            p = [x + 5 * cv.scale for x in cv.o]
            return {'cls': cls, 'p': p, 'v': [1.0, 0.0]}, kind
        if kind == 'two-points':
            a, b = self._ref(cv, r.uniform(0.02, 0.48)), self._ref(cv, r.uniform(0.52, 0.98))
            if dist(a, b) > 1e-6:
                k = r.uniform(0.1, 3)
                return {'cls': cls, 'p': list(add(a, mul(sub(b, a), -k))),
                        'v': list(mul(sub(b, a), r.uniform(0.2, 4)))}, kind
        if kind == 'end':
            p = self._ref(cv, r.choice([0.0, 1.0]))
        else:
            p = self._ref(cv, r.uniform(0.02, 0.98))
        if stream == 'lattice':
            # axis-parallel line through a lattice point: through the centre, tangent, missing
            p = (cv.o[0] + r.choice([0.0, 0.25, -0.5, cv.r, -cv.r, 2 * cv.r]) * r.choice([0, 1]),
                 cv.o[1] + r.choice([0.0, 0.25, -0.5, cv.r, -cv.r, 2 * cv.r]))
            v = r.choice([(1.0, 0.0), (0.0, 1.0), (-2.0, 0.0), (1.0, 1.0)])
            return {'cls': cls, 'p': list(p), 'v': list(v)}, 'lattice'
        th = r.uniform(0, TWO_PI)
        v = (math.cos(th), math.sin(th))
        k = r.uniform(-3, 3)
        return {'cls': cls, 'p': list(add(p, mul(v, k))),
                'v': list(mul(v, r.uniform(0.2, 4)))}, kind

    def _ref(self, cv, t):
        if cv.kind != 'pl':
            return cv.point(t)
        i = min(len(cv.V) - 2, int(t * (len(cv.V) - 1)))
        f = t * (len(cv.V) - 1) - i
        return add(cv.V[i], mul(sub(cv.V[i + 1], cv.V[i]), f))

    def distances(self, cv):
        r = self.r
        L = cv.length
        k = r.randint(1, 5)
        how = r.choice(['single', 'list', 'list', 'divisor', 'long'])
        if how == 'single':
            return r.uniform(L / 300, L * 0.6)
        if how == 'divisor':        # a distance that divides the length: last point ~ end
            return L / r.randint(2, 40)
        if how == 'long':
            return [r.uniform(L * 0.8, L * 2.5) for _ in range(k)] if r.random() < 0.5 else \
                r.uniform(L, 3 * L)
        return [r.uniform(L / 300, L * 0.5) for _ in range(k)]


EVENLY_CLASSES = ['LineSegment2D', 'LineSegment3D', 'Arc2D', 'Arc3D']
CURVE_CLASSES = ['LineSegment2D', 'LineSegment3D', 'Arc2D', 'Arc3D', 'Polyline2D', 'Polyline3D']
SPLIT_CLASSES = ['LineSegment3D', 'Polyline3D', 'Arc2D', 'Arc3D', 'LineSegment2D', 'Polyline2D']


# ------------------------------------------------------------------ shrinking
def shrink(f):
    """Try simpler curves / cutters that fail with the same signature."""
    sig = f['signature']
    case = f['case']
    op = case['op']

    def fails(c):
        try:
            for g in CHECKS[op](c):
                if g['signature'] == sig:
                    return g
        except Exception:
            pass
        return None
    cur = case
    cs = cur['curve']
    cands = []
    if cs['cls'] == 'Arc2D':
        cands = [dict(cs, c=[0.0, 0.0]), dict(cs, r=1.0)]
    elif cs['cls'] == 'Arc3D':
        cands = [dict(cs, o=[0.0, 0.0, 0.0]), dict(cs, r=1.0), dict(cs, x=None),
                 dict(cs, n=[0.0, 0.0, 1.0])]
    elif cs['cls'].startswith('LineSegment'):
        d = len(cs['p'])
        cands = [dict(cs, p=[0.0] * d), dict(cs, v=[round(x, 1) for x in cs['v']]),
                 dict(cs, v=[1.0] + [0.0] * (d - 1))]
    if op != 'split':       # a cutter is tied to the position of the curve
        for cand in cands:
            m = dict(cur['curve'])
            m.update(dict((k, cand[k]) for k in cand if cand[k] != cs.get(k)))
            c2 = dict(cur, curve=m)
            try:
                if fails(c2):
                    cur = c2
            except Exception:
                pass
        if cur['curve']['cls'].startswith('Arc') and \
                not (cur['curve']['a1'] == 0 and cur['curve']['a2'] == TWO_PI):
            c0 = cur['curve']
            for nd in (1, 2, 3):
                m = dict(c0, a1=min(TWO_PI, round(c0['a1'], nd)), a2=min(TWO_PI, round(c0['a2'], nd)))
                if (m['a2'] < m['a1']) != (c0['a2'] < c0['a1']) or \
                        span(m['a1'], m['a2']) < 0.01 <= span(c0['a1'], c0['a2']):
                    continue
                if fails(dict(cur, curve=m)):
                    cur = dict(cur, curve=m)
                    break
    else:
        cut = cur['cut']
        for nd in (0, 1, 2, 3):
            m = dict(cut)
            for k in ('n', 'o', 'p', 'v'):
                if k in m:
                    m[k] = [round(x, nd) for x in m[k]]
            if any(m.get('n', [1])) and any(m.get('v', [1])) and fails(dict(cur, cut=m)):
                cur = dict(cur, cut=m)
                break
        if cur['curve']['cls'] == 'Polyline3D':
            changed = True
            while changed and len(cur['curve']['pts']) > 3:
                changed = False
                pts = cur['curve']['pts']
                for i in (0, len(pts) - 1):
                    m = dict(cur['curve'], pts=pts[1:] if i == 0 else pts[:-1])
                    if fails(dict(cur, curve=m)):
                        cur = dict(cur, curve=m)
                        changed = True
                        break
    return fails(cur) or f


# ------------------------------------------------------------------ run
def run(ctx):
    seed = ctx.seed
    thorough = ctx.tier == 'thorough' or bool(ctx.broken)
    t_start = time.time()
    budget = 600.0 if thorough else 36.0
    deadline = min(getattr(ctx, 'deadline', t_start + budget), t_start + budget)
    K = 12 if thorough else 1
    evaluations = 0
    nontrivial = set()
    failures = {}
    hist = {'ops_per_class': {}, 'arc_config': {}, 'split_outcome': {}, 'cutter_kind': {},
            'evenly_n_swept': {}, 'subdivide_form': {}, 'streams': {}, 'skipped': {}}
    samples = []

    def bump(h, k, n=1):
        hist[h][k] = hist[h].get(k, 0) + n

    def record(f):
        sig = f['signature']
        if sig in failures:
            failures[sig]['hits'] += 1
            return
        try:
            g = dict(shrink(f))
        except Exception as e:
            g = dict(f, shrink_error=str(e))
        g['signature'] = sig
        g['seed'] = seed
        g['hits'] = 1
        failures[sig] = g

    def do(case, label=None):
        nonlocal evaluations
        evaluations += 1
        cls = case['curve']['cls']
        bump('ops_per_class', '%s:%s' % (cls, case['op']))
        try:
            if case['op'] == 'split':
                fs, lab = check_split(case)
                bump('split_outcome', '%s:%s' % (cls, lab))
                if lab.startswith('clean-') and lab != 'clean-0':
                    nontrivial.add(json.dumps(case, sort_keys=True))
            else:
                fs = CHECKS[case['op']](case)
                nontrivial.add(json.dumps(case, sort_keys=True))
        except Exception as e:      # never crash
            fs = [_fail('%s.%s|harness error %s' % (cls, case['op'], type(e).__name__),
                        '%s: %s' % (short(case), e), case)]
        for f in fs:
            record(f)

    def arc_battery(spec, g, light):
        """All clauses on one arc."""
        cv = Curve(spec)
        bump('arc_config', '%s:%s' % (spec['cls'], cv.cfg))
        ts = [0.0, 1.0, 0.5, g.r.random(), g.r.randint(1, 7) / 8.0]
        ds = [cv.length * g.r.random(), cv.length] if cv.length > 0 else []
        do({'op': 'param', 'curve': spec, 'ts': ts, 'ds': ds})
        ns = [1 + g.r.randrange(12), 13 + g.r.randrange(60)] if light else \
            [1, 2, 3, 1 + g.r.randrange(40), 41 + g.r.randrange(N_MAX - 40)]
        do({'op': 'evenly', 'curve': spec, 'ns': ns})
        do({'op': 'to_polyline', 'curve': spec, 'n': 2 + g.r.randrange(24)})
        if cv.length > 1e-6 * cv.scale:
            do({'op': 'subdivide', 'curve': spec, 'd': g.distances(cv)})
            for _ in range(1 if light else 3):
                cut, kind = g.cutter(cv, 'real')
                bump('cutter_kind', kind)
                do({'op': 'split', 'curve': spec, 'cut': cut})

    # ---- 1. subdivide_evenly for EVERY n in 1..N_MAX, every class that has it
    ge = G(random.Random('%s/c17/evenly' % seed))
    for cls in EVENLY_CLASSES:
        n_obj = 3 if not thorough else 12
        for k in range(n_obj):
            stream = ('real', 'lattice', 'real')[k % 3]
            spec = ge.curve(cls, stream)
            if cls.startswith('Arc') and k == 0:
                spec['a1'], spec['a2'] = 5.0, 1.25          # wrap-around
            if cls.startswith('Arc') and k == 1:
                spec['a1'], spec['a2'] = 0, TWO_PI
            top = N_MAX if k or not thorough else 2000
            do({'op': 'evenly', 'curve': spec, 'ns': list(range(1, top + 1))})
            bump('evenly_n_swept', cls, top)
            if k == 0:
                samples.append({'op': 'evenly', 'curve': spec, 'ns': '1..%d' % top})
            if time.time() > deadline:
                break

    # ---- 2. arcs on the 1/64-turn grid: every start/end pair
    gg = G(random.Random('%s/c17/grid' % seed))
    c2, r2 = gg.pt(2, 'real'), gg.radius('real')
    pl3 = {'n': gg.normal('real'), 'o': gg.pt(3, 'real'), 'r': gg.radius('real')}
    for i in range(GRID + 1):
        for j in range(GRID + 1):
            a1, a2 = i * TWO_PI / GRID, j * TWO_PI / GRID
            simple = (i + j) % 2 == 1
            arc_battery({'cls': 'Arc2D', 'c': [0.0, 0.0] if simple else c2,
                         'r': 1.0 if simple else r2, 'a1': a1, 'a2': a2}, gg, True)
            if thorough or (i + j) % 3 == seed % 3:
                arc_battery({'cls': 'Arc3D', 'n': [0.0, 0.0, 1.0] if simple else pl3['n'],
                             'o': [0.0, 0.0, 0.0] if simple else pl3['o'], 'x': None,
                             'r': 1.0 if simple else pl3['r'], 'a1': a1, 'a2': a2}, gg, True)
        if time.time() > deadline:
            break
    bump('streams', 'grid', (GRID + 1) ** 2)

    # ---- 3. random curves, all clauses
    for cls in CURVE_CLASSES:
        g = G(random.Random('%s/c17/rand/%s' % (seed, cls)))
        n = (500 if cls.startswith('Arc') else 300) * K
        for k in range(n):
            if (k & 31) == 0 and time.time() > deadline:
                break
            stream = ('real', 'lattice', 'real', 'neardeg')[k % 4]
            spec = g.curve(cls, stream)
            bump('streams', stream)
            if cls.startswith('Arc'):
                arc_battery(spec, g, False)
                # lattice arcs with lattice cutters: exact tangency / through the centre
                if stream == 'lattice':
                    cv = Curve(spec)
                    if cv.length > 0:
                        cut, kind = g.cutter(cv, 'lattice')
                        bump('cutter_kind', 'lattice:' + kind)
                        do({'op': 'split', 'curve': spec, 'cut': cut})
                continue
            cv = Curve(spec)
            if cv.kind == 'seg':
                ts = [0.0, 1.0, 0.5, g.r.random(), g.r.randint(1, 7) / 8.0, 1 / 3.0]
                do({'op': 'param', 'curve': spec, 'ts': ts,
                    'ds': [cv.length * g.r.random(), cv.length / 3]})
                do({'op': 'evenly', 'curve': spec,
                    'ns': [1, 2, 1 + g.r.randrange(N_MAX)]})
                d = g.distances(cv)
                bump('subdivide_form', 'list%d' % len(d) if isinstance(d, list) else 'number')
                do({'op': 'subdivide', 'curve': spec, 'd': d})
                do({'op': 'subdivide', 'curve': spec, 'd': g.distances(cv)})
            if cls in SPLIT_CLASSES and hasattr(cv.obj, split_member(cv)):
                for _ in range(3):
                    cut, kind = g.cutter(cv, stream if stream == 'lattice' else 'real')
                    bump('cutter_kind', kind)
                    do({'op': 'split', 'curve': spec, 'cut': cut})
            elif cls in SPLIT_CLASSES:
                bump('skipped', '%s has no %s (vacuous)' % (cls, split_member(cv)))
            if k == 0:
                samples.append({'curve': spec})

    fl = sorted(failures.values(), key=lambda f: f['signature'])
    return {
        'evaluations': evaluations,
        'distinct_nontrivial': len(nontrivial),
        'rule': 'subdivide_evenly for every n in 1..500 on several objects of every class that '
                'has it; every clause on Arc2D (all, Arc3D: a third / all in thorough) start/end '
                'pairs of the 1/64-turn grid incl. a1=a2, end<start, circles; random lattice / '
                'real / near-degenerate segments, arcs and polylines with parameters, 1..5 '
                'distances, and cutters through the interior, end points, vertices, two points '
                'of the curve, tangent (exactly on the lattice stream, and at 1 +- 1e-9, 1e-4), '
                'parallel and missing.  Non-trivial = every parametrisation / subdivision case, '
                'and every split whose cutter crosses the curve cleanly at least once; distinct '
                'by (operation, curve, arguments)',
        'samples': samples[:10],
        'failures': fl,
        'extra': {'histograms': hist, 'wall_s': round(time.time() - t_start, 1)},
    }


def replay(ctx, failure):
    case = failure.get('case')
    if not case:
        return None
    fs = CHECKS[case['op']](case)
    for f in fs:
        if f['signature'] == failure.get('signature'):
            return f
    return fs[0] if fs else None


# ---------------------------------------------------------------------------------------
# Lean IEEE-double model of the accumulating-parameter loop (Model/SubdivFloat.lean) versus
# the real subdivide_evenly, for EVERY n in 1..N (the count depends on n only).
_oracle_run = run


def _float_loop_model(ctx):
    from ladybug_geometry.geometry2d.pointvector import Point2D, Vector2D
    from ladybug_geometry.geometry3d.pointvector import Point3D, Vector3D
    from ladybug_geometry.geometry2d.line import LineSegment2D
    from ladybug_geometry.geometry3d.line import LineSegment3D
    n_max = 500 if ctx.tier == 'quick' and not ctx.broken else 5000
    ans = ctx.driver.run([('subdiv.count', [n]) for n in range(1, n_max + 1)] +
                         [('subdiv.loop_count', [n]) for n in range(1, n_max + 1)])
    s2 = LineSegment2D(Point2D(0.3, 0.1), Vector2D(3.7, -1.2))
    s3 = LineSegment3D(Point3D(0.3, 0.1, 1.0), Vector3D(3.7, -1.2, 2.0))
    fails = []
    short = 0
    for n in range(1, n_max + 1):
        ok, c = ans[n - 1]
        ok2, lc = ans[n_max + n - 1]
        if ok2 and lc != n + 1:
            short += 1
        for name, seg in (('LineSegment2D', s2), ('LineSegment3D', s3)):
            try:
                r = len(seg.subdivide_evenly(n))
            except Exception as e:
                r = 'raises %s' % type(e).__name__
            if not ok or r != c or r != n + 1:
                fails.append({'signature': '%s.subdivide_evenly|count' % name,
                              'what': '%s.subdivide_evenly(%d) returned %s points; IEEE-double '
                                      'loop model says %s; property says %d'
                                      % (name, n, r, c if ok else 'error', n + 1),
                              'kind': 'float-loop-model', 'n': n, 'cls': name})
                break
        if len(fails) >= 3:
            break
    return fails, {'n_max': n_max, 'raw_loop_one_point_short_for': short}


def run(ctx):
    r = _oracle_run(ctx)
    try:
        fails, info = _float_loop_model(ctx)
    except Exception as e:          # driver problems are reported by the caller
        fails, info = [], {'error': '%s: %s' % (type(e).__name__, e)}
        r.setdefault('broken', []).append({'kind': 'correspondence', 'name': 'Model.SubdivFloat',
                                           'detail': info['error'][:300]})
    seen = set(f.get('signature') for f in r['failures'])
    for f in fails:
        if f['signature'] not in seen:
            r['failures'].append(f)
            seen.add(f['signature'])
    r.setdefault('extra', {})['float_loop_model'] = info
    r['evaluations'] += 2 * info.get('n_max', 0)
    return r


_oracle_replay = replay


def replay(ctx, fl):
    if fl.get('kind') == 'float-loop-model':
        fails, _ = _float_loop_model(ctx)
        for f in fails:
            if f['signature'] == fl['signature']:
                return f
        return None
    return _oracle_replay(ctx, fl)
