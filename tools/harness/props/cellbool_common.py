"""Shared pieces of the C04 / C09 harness modules: lattice (rectilinear) shape generators,
general-position shape generators, pair placement and classification, exact (Fraction) margin
and even-odd area predicates, wire encoding for the Lean specification `Spec/CellBool`.

Nothing here looks at the implementation under test."""
import math
from fractions import Fraction

import lbg

F = Fraction


# ------------------------------------------------------------------ wire
def wloop(loop):
    """[(x, y), ...] of exact numbers -> wire."""
    return [[lbg.wnum(x), lbg.wnum(y)] for (x, y) in loop]


def wregion(loops):
    return [wloop(lp) for lp in loops]


# ------------------------------------------------------------------ lattice shapes
MASKS = {
    # cell masks (col, row) of the named shapes; stretched by random column widths / row heights
    'rect': {(0, 0)},
    'L': {(0, 0), (1, 0), (0, 1)},
    'T': {(0, 1), (1, 1), (2, 1), (1, 0)},
    'U': {(0, 0), (1, 0), (2, 0), (0, 1), (2, 1)},
    'plus': {(1, 0), (0, 1), (1, 1), (2, 1), (1, 2)},
    'Z': {(0, 0), (1, 0), (1, 1), (2, 1)},
    'stair': {(0, 0), (1, 0), (2, 0), (1, 1), (2, 1), (2, 2)},
    'C': {(0, 0), (1, 0), (0, 1), (0, 2), (1, 2)},
    'H': {(0, 0), (0, 1), (0, 2), (1, 1), (2, 0), (2, 1), (2, 2)},
}


def stretch(mask, widths, heights):
    """Expand each mask cell (c, r) into a block of widths[c] x heights[r] unit cells."""
    xs = [0]
    for w in widths:
        xs.append(xs[-1] + w)
    ys = [0]
    for h in heights:
        ys.append(ys[-1] + h)
    cells = set()
    for (c, r) in mask:
        for i in range(xs[c], xs[c + 1]):
            for j in range(ys[r], ys[r + 1]):
                cells.add((i, j))
    return cells


def random_polyomino(rng, n, w, h):
    """Random 4-connected cell set of about n cells inside a w x h box, simply connected and
    without diagonal pinches (so that its outline is one simple loop)."""
    for _ in range(200):
        cells = {(rng.randrange(w), rng.randrange(h))}
        tries = 0
        while len(cells) < n and tries < 200:
            tries += 1
            (i, j) = rng.choice(sorted(cells))
            (di, dj) = rng.choice([(1, 0), (-1, 0), (0, 1), (0, -1)])
            c = (i + di, j + dj)
            if 0 <= c[0] < w and 0 <= c[1] < h:
                cells.add(c)
        if is_simple_cellset(cells):
            return cells
    return {(0, 0)}


def is_simple_cellset(cells):
    if not cells:
        return False
    xs = [c[0] for c in cells]
    ys = [c[1] for c in cells]
    x0, x1, y0, y1 = min(xs) - 1, max(xs) + 1, min(ys) - 1, max(ys) + 1
    # no diagonal pinch
    for i in range(x0, x1):
        for j in range(y0, y1):
            a, b = (i, j) in cells, (i + 1, j + 1) in cells
            c, d = (i + 1, j) in cells, (i, j + 1) in cells
            if (a and b and not c and not d) or (c and d and not a and not b):
                return False
    # connected
    start = next(iter(cells))
    seen = {start}
    st = [start]
    while st:
        (i, j) = st.pop()
        for c in ((i + 1, j), (i - 1, j), (i, j + 1), (i, j - 1)):
            if c in cells and c not in seen:
                seen.add(c)
                st.append(c)
    if len(seen) != len(cells):
        return False
    # complement connected (no holes)
    comp = {(i, j) for i in range(x0, x1 + 1) for j in range(y0, y1 + 1)} - set(cells)
    start = (x0, y0)
    seen = {start}
    st = [start]
    while st:
        (i, j) = st.pop()
        for c in ((i + 1, j), (i - 1, j), (i, j + 1), (i, j - 1)):
            if c in comp and c not in seen:
                seen.add(c)
                st.append(c)
    return len(seen) == len(comp)


def outline(cells):
    """Counter-clockwise outline (integer vertices, collinear ones removed) of a simple cell set."""
    nxt = {}
    for (i, j) in cells:
        if (i, j - 1) not in cells:
            nxt[(i, j)] = (i + 1, j)
        if (i + 1, j) not in cells:
            nxt[(i + 1, j)] = (i + 1, j + 1)
        if (i, j + 1) not in cells:
            nxt[(i + 1, j + 1)] = (i, j + 1)
        if (i - 1, j) not in cells:
            nxt[(i, j + 1)] = (i, j)
    start = min(nxt)
    loop = [start]
    p = nxt[start]
    while p != start:
        loop.append(p)
        p = nxt[p]
    assert len(loop) == len(nxt)
    return drop_collinear(loop)


def outline_all(cells):
    """Corners of a cell set that may be disconnected / pinched / holed: lattice points where
    the boundary turns (used for classification only)."""
    ue = unit_edges(cells)
    deg = {}
    for (a, b) in ue:
        horiz = a[1] == b[1]
        for p in (a, b):
            deg.setdefault(p, set()).add(horiz)
    return [p for p, d in deg.items() if len(d) == 2]


def drop_collinear(loop):
    out = []
    n = len(loop)
    for k in range(n):
        a, b, c = loop[k - 1], loop[k], loop[(k + 1) % n]
        if (b[0] - a[0]) * (c[1] - b[1]) - (b[1] - a[1]) * (c[0] - b[0]) != 0:
            out.append(b)
    return out


def lattice_shape(rng, kind=None, big=False):
    """-> (kind, cells) with min corner at the origin."""
    if kind is None:
        kind = rng.choice(['rect', 'rect', 'L', 'L', 'T', 'U', 'plus', 'Z', 'stair', 'C', 'H',
                           'poly', 'poly', 'poly'])
    hi = 4 if big else 2
    if kind == 'poly':
        w, h = rng.randint(2, 5), rng.randint(2, 5)
        cells = random_polyomino(rng, rng.randint(3, max(3, w * h - 2)), w, h)
        if big:
            cells = stretch(cells, [2] * 6, [2] * 6)
    else:
        m = MASKS[kind]
        cells = stretch(m, [rng.randint(1, hi) for _ in range(3)],
                        [rng.randint(1, hi) for _ in range(3)])
    # random symmetry of the square
    k = rng.randrange(8)
    out = set()
    for (i, j) in cells:
        for _ in range(k % 4):
            i, j = -j - 1, i
        if k >= 4:
            i = -i - 1
        out.add((i, j))
    x0 = min(c[0] for c in out)
    y0 = min(c[1] for c in out)
    return kind, {(i - x0, j - y0) for (i, j) in out}


def double(cells, k=2):
    return {(k * i + a, k * j + b) for (i, j) in cells for a in range(k) for b in range(k)}


def shift_cells(cells, dx, dy):
    return {(i + dx, j + dy) for (i, j) in cells}


def cell_bbox(cells):
    xs = [c[0] for c in cells]
    ys = [c[1] for c in cells]
    return min(xs), min(ys), max(xs) + 1, max(ys) + 1


def unit_edges(cells):
    """Undirected unit boundary edges of a cell set."""
    out = set()
    for (i, j) in cells:
        if (i, j - 1) not in cells:
            out.add(((i, j), (i + 1, j)))
        if (i + 1, j) not in cells:
            out.add(((i + 1, j), (i + 1, j + 1)))
        if (i, j + 1) not in cells:
            out.add(((i, j + 1), (i + 1, j + 1)))
        if (i - 1, j) not in cells:
            out.add(((i, j), (i, j + 1)))
    return out


def relation(ca, cb):
    """Coarse relation class of two cell sets (used for histograms, signatures and the
    non-triviality rule; not part of the oracle)."""
    inter = ca & cb
    ea, eb = unit_edges(ca), unit_edges(cb)
    share_e = bool(ea & eb)
    pa = {p for e in ea for p in e}
    pb_ = {p for e in eb for p in e}
    # a corner of one polygon on the boundary of the other (boundaries that merely cross
    # transversally do not count)
    share_p = bool((set(outline_all(ca)) & pb_) | (set(outline_all(cb)) & pa))
    if ca == cb:
        return 'equal'
    if not inter:
        if share_e:
            return 'touch-edge'
        if share_p:
            return 'touch-vertex'
        return 'disjoint'
    if inter == cb or inter == ca:
        if share_e:
            return 'nested+edge'
        if share_p:
            return 'nested+vertex'
        return 'nested'
    if share_e:
        return 'overlap+edge'
    if share_p:
        return 'overlap+vertex'
    return 'overlap'


def place(rng, ca, cb, how):
    """Translate cb relative to ca according to a strategy; returns shifted cb (or None)."""
    ax0, ay0, ax1, ay1 = cell_bbox(ca)
    bx0, by0, bx1, by1 = cell_bbox(cb)
    bw, bh = bx1 - bx0, by1 - by0
    if how == 'random':
        dx = rng.randint(ax0 - bw, ax1) - bx0
        dy = rng.randint(ay0 - bh, ay1) - by0
        return shift_cells(cb, dx, dy)
    if how == 'vertex':
        va = rng.choice(outline(ca))
        vb = rng.choice(outline(cb))
        return shift_cells(cb, va[0] - vb[0], va[1] - vb[1])
    if how == 'edge':
        # align a horizontal (or vertical) boundary line of B with one of A, overlapping ranges
        ea = rng.choice(sorted(unit_edges(ca)))
        horiz = ea[0][1] == ea[1][1]
        cand = [e for e in sorted(unit_edges(cb)) if (e[0][1] == e[1][1]) == horiz]
        eb = rng.choice(cand)
        return shift_cells(cb, ea[0][0] - eb[0][0], ea[0][1] - eb[0][1])
    if how == 'nested':
        for _ in range(40):
            dx = rng.randint(ax0, max(ax0, ax1 - bw)) - bx0
            dy = rng.randint(ay0, max(ay0, ay1 - bh)) - by0
            s = shift_cells(cb, dx, dy)
            if s <= ca:
                return s
        return None
    if how == 'far':
        return shift_cells(cb, ax1 + rng.randint(1, 3) - bx0, rng.randint(-2, 2))
    if how == 'reflex':
        # a rectangle inside A whose corner touches a reflex corner of A
        refl = []
        for (x, y) in outline(ca):
            quad = [((x, y), (1, 1)), ((x - 1, y), (-1, 1)), ((x - 1, y - 1), (-1, -1)),
                    ((x, y - 1), (1, -1))]
            missing = [q for q in quad if q[0] not in ca]
            if len(missing) == 1:
                refl.append(((x, y), missing[0][1]))
        if not refl:
            return None
        for _ in range(20):
            (x, y), (sx, sy) = rng.choice(refl)
            w, h = rng.randint(1, 3), rng.randint(1, 3)
            # occupy the quadrant opposite to the missing cell
            xs = range(x - w, x) if sx > 0 else range(x, x + w)
            ys = range(y - h, y) if sy > 0 else range(y, y + h)
            s = {(i, j) for i in xs for j in ys}
            if s <= ca:
                return s
        return None
    if how == 'odd':
        # both shapes are on the even lattice (see double): an odd shift leaves no common
        # boundary point, the boundaries cross transversally or not at all
        dx = 2 * (rng.randint(ax0 - bw, ax1) // 2) + 1 - bx0
        dy = 2 * (rng.randint(ay0 - bh, ay1) // 2) + 1 - by0
        return shift_cells(cb, dx, dy)
    raise ValueError(how)


def loop_variant(rng, loop, allow_collinear=True):
    """Random presentation of the same loop: orientation, cyclic start, extra collinear
    lattice vertices on the edges."""
    lp = list(loop)
    flags = []
    if allow_collinear and rng.random() < 0.25:
        out = []
        n = len(lp)
        for k in range(n):
            a, b = lp[k], lp[(k + 1) % n]
            out.append(a)
            ln = abs(b[0] - a[0]) + abs(b[1] - a[1])
            if ln > 1 and rng.random() < 0.5:
                t = rng.randint(1, ln - 1)
                out.append((a[0] + (b[0] - a[0]) * t // ln, a[1] + (b[1] - a[1]) * t // ln))
        lp = out
        flags.append('collinear')
    if rng.random() < 0.5:
        lp.reverse()
        flags.append('cw')
    k = rng.randrange(len(lp))
    lp = lp[k:] + lp[:k]
    return lp, flags


def rect_hole_in(rng, cells):
    """A rectangular hole (as cell set) lying strictly inside the cell set: every hole cell and
    its 8 neighbours are cells of the shape.  None if there is no room."""
    interior = {c for c in cells
                if all((c[0] + di, c[1] + dj) in cells for di in (-1, 0, 1) for dj in (-1, 0, 1))}
    if not interior:
        return None
    for _ in range(20):
        (i, j) = rng.choice(sorted(interior))
        w, h = rng.randint(1, 3), rng.randint(1, 3)
        hole = {(i + a, j + b) for a in range(w) for b in range(h)}
        if hole <= interior:
            return hole
    return {rng.choice(sorted(interior))}


# ------------------------------------------------------------------ frames (lattice -> real)
SCALES = [1, 1, 1, 2, 3, 10, F(1, 2), F(1, 4), 100]


def random_frame(rng):
    """Scale s and offset (ox, oy): lattice point (i, j) -> (ox + s*i, oy + s*j), exactly
    representable in doubles, |coordinate| <= 1e4."""
    s = rng.choice(SCALES)
    if rng.random() < 0.5:
        return s, 0, 0
    lim = 40 if s >= 100 else 2000
    return s, s * rng.randint(-lim, lim), s * rng.randint(-lim, lim)


def to_real(loop, frame):
    s, ox, oy = frame
    out = []
    for (i, j) in loop:
        x, y = ox + s * i, oy + s * j
        fx, fy = float(x), float(y)
        assert F(fx) == x and F(fy) == y
        out.append((fx, fy))
    return out


def to_lattice(pts, frame):
    """Exact inverse of the frame on arbitrary float points -> Fractions."""
    s, ox, oy = frame
    return [((F(x) - ox) / s, (F(y) - oy) / s) for (x, y) in pts]


# ------------------------------------------------------------------ general-position shapes
def star_polygon(rng, n, cx, cy, r, concave):
    """Star-shaped (hence simple) polygon: strictly increasing angles, random radii."""
    slots = sorted(rng.sample(range(4 * n + 8), n))
    m = 4 * n + 8
    pts = []
    # guarantee that the centre is inside: no angular gap >= pi
    for k, a in enumerate(slots):
        ang = 2 * math.pi * (a + rng.uniform(-0.3, 0.3)) / m
        rad = r * (rng.uniform(0.35, 1.0) if concave else 1.0)
        pts.append((cx + rad * math.cos(ang), cy + rad * math.sin(ang)))
    gaps = [(slots[(k + 1) % n] - slots[k]) % m for k in range(n)]
    if max(gaps) >= m / 2 - 1:
        return star_polygon(rng, n, cx, cy, r, concave)
    return pts


def similarity(rng, mag):
    """Random similarity transform of the plane (rotation by a generic angle, scale,
    translation of magnitude <= mag) as a float function."""
    th = rng.uniform(0, 2 * math.pi)
    k = rng.choice([0.37, 1.0, 1.7, 5.3, 23.0])
    c, s = k * math.cos(th), k * math.sin(th)
    tx, ty = rng.uniform(-mag, mag), rng.uniform(-mag, mag)
    return (lambda p: (tx + c * p[0] - s * p[1], ty + s * p[0] + c * p[1])), k


# ------------------------------------------------------------------ exact predicates (Fraction)
def fpts(pts):
    return [(F(x), F(y)) for (x, y) in pts]


def seg_dist2(p, a, b):
    """Exact squared distance from p to the segment a b."""
    dx, dy = b[0] - a[0], b[1] - a[1]
    px, py = p[0] - a[0], p[1] - a[1]
    den = dx * dx + dy * dy
    if den == 0:
        return px * px + py * py
    t = px * dx + py * dy
    if t <= 0:
        return px * px + py * py
    if t >= den:
        qx, qy = p[0] - b[0], p[1] - b[1]
        return qx * qx + qy * qy
    cr = px * dy - py * dx
    return cr * cr / den


def far_from_edges(p, loops_float, loops_exact, margin):
    """Is p at distance >= margin from every edge?  Float filter, exact decision in the band."""
    px, py = p
    need_exact = False
    for lp in loops_float:
        n = len(lp)
        for k in range(n):
            ax, ay = lp[k]
            bx, by = lp[(k + 1) % n]
            dx, dy = bx - ax, by - ay
            qx, qy = px - ax, py - ay
            den = dx * dx + dy * dy
            t = 0.0 if den == 0 else max(0.0, min(1.0, (qx * dx + qy * dy) / den))
            ex, ey = qx - t * dx, qy - t * dy
            d = math.hypot(ex, ey)
            if d < 0.9 * margin:
                return False
            if d < 1.1 * margin:
                need_exact = True
    if not need_exact:
        return True
    P = (F(px), F(py))
    m2 = F(margin) ** 2
    for lp in loops_exact:
        n = len(lp)
        for k in range(n):
            if seg_dist2(P, lp[k], lp[(k + 1) % n]) < m2:
                return False
    return True


def inside_exact(p, loop):
    """Exact crossing-number test (half-open rule) of a Fraction point in a Fraction loop."""
    cnt = 0
    n = len(loop)
    for k in range(n):
        a, b = loop[k], loop[(k + 1) % n]
        if (a[1] <= p[1] < b[1]) or (b[1] <= p[1] < a[1]):
            o = (b[0] - a[0]) * (p[1] - a[1]) - (b[1] - a[1]) * (p[0] - a[0])
            if (a[1] < b[1] and o > 0) or (b[1] < a[1] and o < 0):
                cnt += 1
    return cnt % 2 == 1


def cross_gap_ok(loops_a, loops_b, hi=2e-3, lo=1e-9):
    """Quantifier 'smallest gap >= 1e-3': every vertex of one operand is either on the other's
    boundary up to rounding (distance <= lo * coordinate magnitude) or at least `hi` away from
    it (hi = twice the required 1e-3, so that the float evaluation is safe)."""
    def dist(p, a, b):
        dx, dy = b[0] - a[0], b[1] - a[1]
        den = dx * dx + dy * dy
        t = 0.0 if den == 0 else max(0.0, min(1.0, ((p[0] - a[0]) * dx + (p[1] - a[1]) * dy) / den))
        return math.hypot(p[0] - a[0] - t * dx, p[1] - a[1] - t * dy)
    for (P, Q) in ((loops_a, loops_b), (loops_b, loops_a)):
        for lp in P:
            for v in lp:
                mag = max(1.0, abs(v[0]), abs(v[1]))
                for lq in Q:
                    n = len(lq)
                    for k in range(n if n > 2 else n - 1):
                        d = dist(v, lq[k], lq[(k + 1) % n])
                        if lo * mag < d < hi:
                            return False
    return True


def shoelace(loop):
    n = len(loop)
    s = F(0)
    for k in range(n):
        a, b = loop[k], loop[(k + 1) % n]
        s += a[0] * b[1] - a[1] * b[0]
    return s / 2


def perimeter_float(loop):
    n = len(loop)
    return sum(math.hypot(float(loop[(k + 1) % n][0] - loop[k][0]),
                          float(loop[(k + 1) % n][1] - loop[k][1])) for k in range(n))


def _seg_isect_y(e, f):
    """y of the intersection point of two non-parallel segments if it lies on both, else None."""
    (ax, ay), (bx, by) = e
    (cx, cy), (dx, dy) = f
    r = (bx - ax, by - ay)
    s = (dx - cx, dy - cy)
    den = r[0] * s[1] - r[1] * s[0]
    if den == 0:
        return None
    t = ((cx - ax) * s[1] - (cy - ay) * s[0]) / den
    u = ((cx - ax) * r[1] - (cy - ay) * r[0]) / den
    if 0 < t < 1 and 0 < u < 1:
        return ay + t * r[1]
    return None


def even_odd_area(loops):
    """Exact area of the region the loops describe with even-odd nesting (trapezoid
    decomposition at all vertex and crossing levels).  loops: lists of Fraction pairs."""
    edges = []
    levels = set()
    for lp in loops:
        n = len(lp)
        for k in range(n):
            a, b = lp[k], lp[(k + 1) % n]
            levels.add(a[1])
            if a[1] != b[1]:
                edges.append((a, b) if a[1] < b[1] else (b, a))
    # crossing levels (float bounding-box filter, exact intersection)
    fe = [(float(min(a[0], b[0])), float(max(a[0], b[0])), float(a[1]), float(b[1]))
          for (a, b) in edges]
    m = len(edges)
    for i in range(m):
        x0, x1, y0, y1 = fe[i]
        for j in range(i + 1, m):
            u0, u1, v0, v1 = fe[j]
            if u0 > x1 or x0 > u1 or v0 > y1 or y0 > v1:
                continue
            y = _seg_isect_y(edges[i], edges[j])
            if y is not None:
                levels.add(y)
    lv = sorted(levels)
    area = F(0)
    for k in range(len(lv) - 1):
        y0, y1 = lv[k], lv[k + 1]
        ym = (y0 + y1) / 2
        xs = []
        for (a, b) in edges:
            if a[1] <= y0 and b[1] >= y1:
                xs.append(a[0] + (b[0] - a[0]) * (ym - a[1]) / (b[1] - a[1]))
        xs.sort()
        w = F(0)
        for q in range(0, len(xs) - 1, 2):
            w += xs[q + 1] - xs[q]
        area += w * (y1 - y0)
    return area


def face_area(loops):
    """boundary minus holes, holes assumed inside: |boundary| - sum |holes| is NOT assumed;
    the region 'inside boundary and in no hole' has the even-odd area when the holes are
    inside the boundary and disjoint — callers use even_odd_area on boundary+holes only after
    the membership checks established that reading."""
    return even_odd_area(loops)


# ------------------------------------------------------------------ misc
def small_first(cases, key):
    """Keep, per signature, the smallest failing case."""
    best = {}
    for c in cases:
        sg = c['signature']
        if sg not in best or key(c) < key(best[sg]):
            best[sg] = c
    return [best[k] for k in sorted(best)]


def bump(h, k, n=1):
    h[k] = h.get(k, 0) + n
