"""C14 - operations are pure: no mutation of inputs, deterministic results.

Property oracle on the REAL code.  Every public method / classmethod / staticmethod /
property of every class and every public module-level function of ``ladybug_geometry`` is
enumerated by introspection; arguments are produced by a registry of generators keyed by
parameter name (with per-callable overrides) and placed relative to the receiver so that the
interesting branches run.  For every call

  1. a deep VALUE snapshot (all slots, recursively; contents of lists / tuples / dicts) of the
     receiver and of every argument is taken, the callable is called, the snapshot is taken
     again and compared (memo slots may go from empty to filled - that is not an observable
     change - everything else must be identical);
  2. the call is repeated on the same objects and once more on an identically constructed,
     untouched twin: the three results must be identical (value digest);
  3. every public property of the used receiver must read the same as on the untouched twin.

A digest of the first results of the whole workload is recomputed in sub-processes under
PYTHONHASHSEED in {0, 1, 2, random} and under a decreasing and a constant ``time.time`` and
must be identical to the one of the parent process.
"""
import hashlib
import importlib
import inspect
import json
import math
import os
import pkgutil
import random
import shutil
import subprocess
import sys
import tempfile
import time as _time_mod

if __name__ == '__main__' and len(sys.argv) > 6 and sys.argv[1] == '--digest':
    sys.path.insert(0, sys.argv[5])        # the same source tree as the parent process

import ladybug_geometry
from ladybug_geometry.geometry2d.pointvector import Point2D, Vector2D
from ladybug_geometry.geometry2d.ray import Ray2D
from ladybug_geometry.geometry2d.line import LineSegment2D
from ladybug_geometry.geometry2d.arc import Arc2D
from ladybug_geometry.geometry2d.polyline import Polyline2D
from ladybug_geometry.geometry2d.polygon import Polygon2D
from ladybug_geometry.geometry2d.mesh import Mesh2D
from ladybug_geometry.geometry3d.pointvector import Point3D, Vector3D
from ladybug_geometry.geometry3d.ray import Ray3D
from ladybug_geometry.geometry3d.line import LineSegment3D
from ladybug_geometry.geometry3d.arc import Arc3D
from ladybug_geometry.geometry3d.polyline import Polyline3D
from ladybug_geometry.geometry3d.mesh import Mesh3D
from ladybug_geometry.geometry3d.plane import Plane
from ladybug_geometry.geometry3d.polyface import Polyface3D
from ladybug_geometry.geometry3d.face import Face3D
from ladybug_geometry.geometry3d.sphere import Sphere
from ladybug_geometry.geometry3d.cone import Cone
from ladybug_geometry.geometry3d.cylinder import Cylinder
from ladybug_geometry.network import DirectedGraphNetwork, Node
from ladybug_geometry.boolean import BooleanPoint, BooleanPolygon
from ladybug_geometry.interop.obj import OBJ
from ladybug_geometry.interop.stl import STL

_REAL_TIME = _time_mod.time          # the harness' own clock (time.time gets patched)
LIB = 'ladybug_geometry'

ASSUMPTIONS = [
    'arguments are generated valid (documented types, tolerance 0.01, simple loops, holes '
    'inside, non-zero vectors); a call that raises is accepted as a result as long as it '
    'raises the same exception type on every repetition and still leaves its inputs intact',
    'memo slots (every slot that is not part of the defining data listed in DEFINING) may '
    'change from None to a value or back to None: a cache is not an observable value; a '
    'memo that changes from one value to a different value is a failure',
    'documented in-place behaviour is excluded: Polygon2D.intersect_polygon_segments returns '
    'its input list updated; DirectedGraphNetwork.add_node / add_adj / remove_adj / '
    'insert_node are the documented mutators of the (mutable) graph builder; property '
    'setters (MeshBase.colors) are not called',
    'results are compared bit for bit (same process, same inputs); the public-read comparison '
    'against the untouched twin uses 1e-9 relative tolerance',
]
TRUSTED = [
    'C14 oracle is Python introspection + structural comparison (no arithmetic): there is no '
    'useful Lean executable specification of "nothing changed"',
    'the slot walker sees all state because every geometry class uses __slots__ (objects '
    'with a __dict__ are walked through it); DEFINING lists the non-memo slots per class',
    'the sub-process digests are trusted to execute the same workload: every item builds its '
    'receiver and arguments from random.Random("<seed>/c14/<callable>/<variant>")',
]


# ------------------------------------------------------------------ value snapshots
DEFINING = {
    'Vector2D': ('_x', '_y'), 'Vector3D': ('_x', '_y', '_z'),
    'Base1DIn2D': ('_p', '_v'), 'Base1DIn3D': ('_p', '_v'),
    'Arc2D': ('_c', '_r', '_a1', '_a2', '_cos_a1', '_sin_a1', '_cos_a2', '_sin_a2'),
    'Arc3D': ('_plane', '_arc2d'),
    'Base2DIn2D': ('_vertices',), 'Base2DIn3D': ('_vertices',),
    'Polyline2D': ('_interpolated',), 'Polyline3D': ('_interpolated',),
    'MeshBase': ('_vertices', '_faces', '_colors', '_is_color_by_face'),
    'Plane': ('_n', '_o', '_k', '_x', '_y'),
    'Face3D': ('_boundary', '_holes', '_plane'),
    'Polyface3D': ('_face_indices', '_edge_indices', '_edge_types', '_is_solid'),
    'Sphere': ('_center', '_radius'), 'Cone': ('_vertex', '_axis', '_angle'),
    'Cylinder': ('_center', '_axis', '_radius'),
}
_DEF_CACHE = {}
_SLOT_CACHE = {}


def is_lib(o):
    return getattr(type(o), '__module__', '').startswith(LIB)


def slot_names(cls):
    r = _SLOT_CACHE.get(cls)
    if r is None:
        r = []
        for k in reversed(cls.__mro__):
            s = k.__dict__.get('__slots__', ())
            if isinstance(s, str):
                s = (s,)
            for n in s:
                if n not in r and n not in ('__dict__', '__weakref__'):
                    r.append(n)
        _SLOT_CACHE[cls] = r = tuple(r)
    return r


def defining_names(cls):
    """None = every attribute is defining (classes without a memo convention)."""
    if cls in _DEF_CACHE:
        return _DEF_CACHE[cls]
    names, known = set(), False
    for k in cls.__mro__:
        if k.__name__ in DEFINING and getattr(k, '__module__', '').startswith(LIB):
            names.update(DEFINING[k.__name__])
            known = True
    r = frozenset(names) if known else None
    _DEF_CACHE[cls] = r
    return r


def snap(o, stack=None, depth=0):
    """Deep value of o as a nested tuple structure (floats as hex text)."""
    if o is None or isinstance(o, (bool, int, str, bytes)):
        return o
    if isinstance(o, float):
        return 'f' + o.hex()
    if depth > 40:
        return ('deep',)
    if stack is None:
        stack = set()
    i = id(o)
    if i in stack:
        return ('cycle', type(o).__name__)
    t = type(o)
    if isinstance(o, Node):
        return ('Node', snap(o.key), snap(o.pt, stack, depth + 1), snap(o._order),
                snap(o.exterior), tuple(getattr(n, 'key', None) for n in o.adj_lst))
    stack.add(i)
    try:
        if isinstance(o, (list, tuple)):
            return ('list' if isinstance(o, list) else 'tuple',
                    tuple(snap(v, stack, depth + 1) for v in o))
        if isinstance(o, dict):
            return ('dict', tuple((snap(k, stack, depth + 1), snap(v, stack, depth + 1))
                                  for k, v in o.items()))
        if isinstance(o, (set, frozenset)):
            return ('set', tuple(sorted((snap(v, stack, depth + 1) for v in o), key=repr)))
        if is_lib(o):
            items = []
            for n in slot_names(t):
                try:
                    v = getattr(o, n)
                except AttributeError:
                    items.append((n, ('unset',)))
                    continue
                items.append((n, snap(v, stack, depth + 1)))
            d = getattr(o, '__dict__', None)
            if d:
                for n in d:
                    items.append((n, snap(d[n], stack, depth + 1)))
            return ('obj', t.__name__, tuple(items), t)
        if isinstance(o, (range,)) or type(o).__name__ in (
                'dict_values', 'dict_keys', 'dict_items', 'generator', 'map', 'zip',
                'filter', 'list_iterator', 'tuple_iterator'):
            if type(o).__name__ in ('generator', 'map', 'zip', 'filter', 'list_iterator',
                                    'tuple_iterator'):
                return ('iterator', type(o).__name__)      # do not consume
            return ('view', tuple(snap(v, stack, depth + 1) for v in list(o)))
        return ('other', t.__name__)
    finally:
        stack.discard(i)


def diff(a, b, path=''):
    """First observable difference between two snapshots (None = same value).  Memo slots
    may go None <-> value."""
    if a == b:
        return None
    if isinstance(a, tuple) and isinstance(b, tuple) and a and b and a[0] == b[0]:
        tag = a[0]
        if tag == 'obj':
            if a[1] != b[1]:
                return '%s: class %s -> %s' % (path, a[1], b[1])
            dn = defining_names(a[3])
            da, db = dict(a[2]), dict(b[2])
            for n, va in a[2]:
                vb = db.get(n, ('unset',))
                if va == vb:
                    continue
                if dn is not None and n not in dn and (va is None or vb is None):
                    continue            # cache filled / cleared
                if dn is not None and n not in dn and isinstance(vb, tuple) and vb and \
                        vb[0] == 'tuple' and vb[1] and all(e == va for e in vb[1]):
                    continue            # compact memo (one shared value) written out per face
                r = diff(va, vb, '%s.%s' % (path, n))
                if r is not None:
                    return r
            for n, vb in b[2]:
                if n not in da:
                    return '%s.%s: new attribute' % (path, n)
            return None
        if tag in ('list', 'tuple', 'set', 'view'):
            if len(a[1]) != len(b[1]):
                return '%s: %s of %d elements -> %d elements' % (
                    path, tag, len(a[1]), len(b[1]))
            for k, (va, vb) in enumerate(zip(a[1], b[1])):
                r = diff(va, vb, '%s[%d]' % (path, k))
                if r is not None:
                    return r
            return None
        if tag == 'dict':
            if len(a[1]) != len(b[1]):
                return '%s: dict of %d items -> %d items' % (path, len(a[1]), len(b[1]))
            for k, ((ka, va), (kb, vb)) in enumerate(zip(a[1], b[1])):
                r = diff(ka, kb, '%s.key%d' % (path, k)) or \
                    diff(va, vb, '%s[%s]' % (path, str(ka)[:30]))
                if r is not None:
                    return r
            return None
        if tag == 'Node':
            names = ('key', 'pt', '_order', 'exterior', 'adj_lst')
            for k in range(1, 6):
                if a[k] != b[k]:
                    return '%s.%s: %s -> %s' % (path, names[k - 1], short(a[k]), short(b[k]))
    return '%s: %s -> %s' % (path, short(a), short(b))


def short(s, n=110):
    def clean(v):
        if isinstance(v, tuple):
            if v and v[0] == 'obj':
                return (v[1],) + tuple(clean(x[1]) for x in v[2]
                                       if x[1] is not None)
            return tuple(clean(x) for x in v if not isinstance(x, type))
        if isinstance(v, str) and v.startswith('f'):
            try:
                return float.fromhex(v[1:])
            except ValueError:
                return v
        return v
    r = repr(clean(s))
    return r if len(r) <= n else r[:n] + '...'


def value_of(o, stack=None, depth=0):
    """Value digest input for RESULTS: like snap() but only the defining slots of library
    objects (two equal results may have different caches filled)."""
    s = snap(o)
    return _strip(s)


def _strip(s):
    if isinstance(s, tuple) and s:
        if s[0] == 'obj':
            dn = defining_names(s[3])
            return ('obj', s[1], tuple((n, _strip(v)) for n, v in s[2]
                                       if dn is None or n in dn))
        if s[0] in ('list', 'tuple', 'set', 'view'):
            return (s[0], tuple(_strip(v) for v in s[1]))
        if s[0] == 'dict':
            return ('dict', tuple((_strip(k), _strip(v)) for k, v in s[1]))
        if s[0] == 'Node':
            return s[:2] + (_strip(s[2]),) + s[3:]
    return s


def digest(v):
    return hashlib.sha1(repr(v).encode('utf-8', 'replace')).hexdigest()[:16]


def floats_of(s, out):
    """Flatten a stripped value for tolerant comparison."""
    if isinstance(s, str) and s.startswith('f'):
        try:
            out.append(float.fromhex(s[1:]))
            return
        except ValueError:
            pass
    if isinstance(s, tuple):
        for v in s:
            floats_of(v, out)
    else:
        out.append(('d', s))


def close(a, b, tol=1e-9):
    fa, fb = [], []
    floats_of(a, fa)
    floats_of(b, fb)
    if len(fa) != len(fb):
        return False
    scale = 1.0
    for x in fa:
        if isinstance(x, float) and x == x and abs(x) != float('inf'):
            scale = max(scale, abs(x))
    for x, y in zip(fa, fb):
        if isinstance(x, float) and isinstance(y, float):
            if x != x and y != y:
                continue
            if x == y:
                continue
            if abs(x - y) > tol * scale:
                return False
        elif x != y:
            return False
    return True


# ------------------------------------------------------------------ shapes
def U(rng, a, b):
    return rng.uniform(a, b)


def pt2(rng, cx=0.0, cy=0.0, r=3.0):
    return Point2D(cx + U(rng, -r, r), cy + U(rng, -r, r))


def pt3(rng, c=(0.0, 0.0, 0.0), r=3.0):
    return Point3D(c[0] + U(rng, -r, r), c[1] + U(rng, -r, r), c[2] + U(rng, -r, r))


def vec2(rng, lo=0.5, hi=3.0):
    a = U(rng, 0, 2 * math.pi)
    m = U(rng, lo, hi)
    return Vector2D(m * math.cos(a), m * math.sin(a))


def vec3(rng, lo=0.5, hi=3.0):
    while True:
        v = Vector3D(rng.gauss(0, 1), rng.gauss(0, 1), rng.gauss(0, 1))
        if v.magnitude > 0.2:
            return v.normalize() * U(rng, lo, hi)


def star(rng, n, rmin, rmax, cx=0.0, cy=0.0, cw=False):
    angs = sorted(rng.sample(range(48), n))
    pts = [Point2D(cx + U(rng, rmin, rmax) * math.cos(2 * math.pi * a / 48),
                   cy + U(rng, rmin, rmax) * math.sin(2 * math.pi * a / 48))
           for a in angs]
    return list(reversed(pts)) if cw else pts


def rect2(x, y, w, h):
    return [Point2D(x, y), Point2D(x + w, y), Point2D(x + w, y + h), Point2D(x, y + h)]


def plane_any(rng, c=(0.0, 0.0, 0.0)):
    r = rng.random()
    if r < 0.25:
        n = rng.choice([Vector3D(0, 0, 1), Vector3D(0, 0, -1), Vector3D(1, 0, 0),
                        Vector3D(0, 1, 0)])
    else:
        n = vec3(rng)
    return Plane(n, Point3D(c[0] + U(rng, -1, 1), c[1] + U(rng, -1, 1), c[2] + U(rng, -1, 1)))


TWO_POCKETS = [(0, 0), (4, 0), (4, 1.5), (8, 1.5), (8, 0), (12, 0), (12, 4), (8, 4),
               (8, 2.5), (4, 2.5), (4, 4), (0, 4)]


def polygon_variants(rng):
    b = rect2(0, 0, 10, 8)
    return [
        ('convex', lambda: Polygon2D(star(rng, rng.randint(3, 7), 2.0, 4.0, U(rng, -1, 1),
                                          U(rng, -1, 1)))),
        ('concave', lambda: Polygon2D([Point2D(0, 0), Point2D(U(rng, 5, 6), 0),
                                       Point2D(6, 6), Point2D(U(rng, 2.5, 3.5), 2.2),
                                       Point2D(0, U(rng, 5, 6))])),
        ('clockwise', lambda: Polygon2D(star(rng, rng.randint(4, 7), 2.0, 4.0, 1.0, 0.5,
                                             True))),
        ('rectangle', lambda: Polygon2D.from_rectangle(Point2D(U(rng, -2, 0), U(rng, -2, 0)),
                                                       Vector2D(0, 1), U(rng, 4, 7),
                                                       U(rng, 3, 5))),
        ('with_hole', lambda: Polygon2D.from_shape_with_hole(
            list(b), rect2(U(rng, 2, 3), U(rng, 2, 3), 2, 3))),
        ('two_pockets', lambda: Polygon2D([Point2D(*c) for c in TWO_POCKETS])),
        ('L_shape', lambda: Polygon2D([Point2D(0, 0), Point2D(6, 0), Point2D(6, 2),
                                       Point2D(2, 2), Point2D(2, 6), Point2D(0, 6)])),
    ]


def face_variants(rng):
    def in_plane(pl, pts):
        return [pl.xy_to_xyz(p) for p in pts]

    def with_holes():
        pl = plane_any(rng)
        hs = [rect2(2, 2, 1.5, 2), rect2(5, 2, 2, 1.5), rect2(5, 5, 1.5, 1.5)]
        k = rng.randint(1, 3)
        return Face3D(in_plane(pl, rect2(0, 0, 10, 8)), pl,
                      [in_plane(pl, h) for h in hs[:k]])

    def wall():
        x, y = U(rng, -2, 2), U(rng, -2, 2)
        w, h = U(rng, 4, 8), U(rng, 2.5, 4)
        d = vec2(rng, 1, 1)
        return Face3D([Point3D(x, y, 0), Point3D(x + w * d.x, y + w * d.y, 0),
                       Point3D(x + w * d.x, y + w * d.y, h), Point3D(x, y, h)])
    return [
        ('triangle', lambda: Face3D([pt3(rng), pt3(rng, (4, 0, 0)), pt3(rng, (0, 5, 2))])),
        ('wall', wall),
        ('floor_L', lambda: Face3D([Point3D(0, 0, 1), Point3D(6, 0, 1), Point3D(6, 2, 1),
                                    Point3D(2, 2, 1), Point3D(2, U(rng, 5, 6), 1),
                                    Point3D(0, 6, 1)])),
        ('star_in_plane', lambda: (lambda pl: Face3D(in_plane(pl, star(
            rng, rng.randint(4, 7), 2.0, 4.0)), pl))(plane_any(rng))),
        ('holes', with_holes),
        ('from_rectangle', lambda: Face3D.from_rectangle(U(rng, 3, 6), U(rng, 2, 4),
                                                         plane_any(rng))),
        ('two_pockets', lambda: Face3D([Point3D(c[0], c[1], 2.0) for c in TWO_POCKETS])),
    ]


def mesh2_variants(rng):
    pts = (Point2D(0, 0), Point2D(0, 2), Point2D(2, 2), Point2D(2, 0), Point2D(4, 0),
           Point2D(4.5, 2.5))
    return [
        ('explicit', lambda: Mesh2D([Point2D(p.x + U(rng, -.1, .1), p.y) for p in pts],
                                    [(0, 1, 2, 3), (2, 3, 4), (2, 4, 5)])),
        ('grid', lambda: Mesh2D.from_grid(Point2D(U(rng, -1, 1), 0.0), rng.randint(1, 3),
                                          rng.randint(1, 3), U(rng, 0.5, 2), U(rng, 0.5, 2))),
        ('polygon_grid', lambda: Mesh2D.from_polygon_grid(
            Polygon2D(rect2(0, 0, 10, 10)), rng.choice([3.0, 3.5]), rng.choice([2.0, 4.0]))),
        ('triangulated', lambda: Mesh2D.from_polygon_triangulated(
            Polygon2D(star(rng, rng.randint(4, 7), 2.0, 4.0)))),
    ]


def mesh3_variants(rng):
    pts = (Point3D(0, 0, 2), Point3D(0, 2, 2), Point3D(2, 2, 2), Point3D(2, 0, 2),
           Point3D(4, 0, 2), Point3D(4.5, 2.5, 3))
    return [
        ('explicit', lambda: Mesh3D([Point3D(p.x + U(rng, -.1, .1), p.y, p.z) for p in pts],
                                    [(0, 1, 2, 3), (2, 3, 4), (2, 4, 5)])),
        ('from_mesh2d', lambda: Mesh3D.from_mesh2d(
            Mesh2D.from_grid(Point2D(0, 0), rng.randint(1, 3), rng.randint(1, 3),
                             U(rng, 0.5, 2), U(rng, 0.5, 2)), plane_any(rng))),
        ('face_grid', lambda: Face3D.from_rectangle(U(rng, 4, 8), U(rng, 4, 8),
                                                    plane_any(rng)).mesh_grid(1.5)),
    ]


def polyface_variants(rng):
    def open_box():
        box = Polyface3D.from_box(2, 3, 4)
        return Polyface3D.from_faces(list(box.faces)[:5], 0.01)

    def offset_hole():
        pl = Plane(Vector3D(0, 0, 1), Point3D(0, 0, U(rng, 0, 2)))
        f = Face3D([pl.xy_to_xyz(p) for p in rect2(0, 0, 10, 8)], pl,
                   [[pl.xy_to_xyz(p) for p in rect2(2, 2, 2, 3)]])
        return Polyface3D.from_offset_face(f, U(rng, 1, 3))
    return [
        ('box', lambda: Polyface3D.from_box(U(rng, 1, 5), U(rng, 1, 5), U(rng, 1, 5),
                                            plane_any(rng))),
        ('open_box', open_box),
        ('offset_face', lambda: Polyface3D.from_offset_face(
            Face3D([Point3D(p.x, p.y, 0) for p in star(rng, rng.randint(3, 6), 2, 4)]),
            U(rng, 1, 3))),
        ('offset_hole', offset_hole),
    ]


def network_variants(rng):
    def split():
        b = Polygon2D(rect2(0, 0, 10, 8))
        h = [Polygon2D(rect2(2, 2, 2, 2))]
        segs = [LineSegment2D.from_end_points(Point2D(-1, U(rng, 5, 7)),
                                              Point2D(11, U(rng, 5, 7))),
                LineSegment2D.from_end_points(Point2D(U(rng, 6, 8), -1),
                                              Point2D(U(rng, 6, 8), 9))]
        return DirectedGraphNetwork.from_shape_to_split(b, h, segs, 0.01)
    return [
        ('from_polygon', lambda: DirectedGraphNetwork.from_polygon(
            Polygon2D(star(rng, rng.randint(3, 6), 2, 4)), 0.01)),
        ('with_holes', lambda: DirectedGraphNetwork.from_shape_with_holes(
            Polygon2D(rect2(0, 0, 10, 8)), [Polygon2D(rect2(2, 2, 2, 3))], 0.01)),
        ('to_split', split),
    ]


def receivers(cls, rng):
    """[(variant name, factory)] of fresh receivers of class cls."""
    n = cls.__name__
    if n == 'Vector2D':
        return [('v', lambda: vec2(rng)), ('unit', lambda: vec2(rng, 1, 1).normalize())]
    if n == 'Point2D':
        return [('p', lambda: pt2(rng))]
    if n == 'Vector3D':
        return [('v', lambda: vec3(rng)), ('unit', lambda: vec3(rng).normalize())]
    if n == 'Point3D':
        return [('p', lambda: pt3(rng))]
    if n == 'Ray2D':
        return [('ray', lambda: Ray2D(pt2(rng), vec2(rng)))]
    if n == 'LineSegment2D':
        return [('seg', lambda: LineSegment2D(pt2(rng), vec2(rng, 2, 5))),
                ('axis', lambda: LineSegment2D(Point2D(-2, 1), Vector2D(U(rng, 3, 6), 0)))]
    if n == 'Ray3D':
        return [('ray', lambda: Ray3D(pt3(rng), vec3(rng)))]
    if n == 'LineSegment3D':
        return [('seg', lambda: LineSegment3D(pt3(rng), vec3(rng, 2, 5))),
                ('vertical', lambda: LineSegment3D(pt3(rng), Vector3D(0, 0, U(rng, 1, 4))))]
    if n == 'Arc2D':
        return [('circle', lambda: Arc2D(pt2(rng), U(rng, 1, 3))),
                ('arc', lambda: Arc2D(pt2(rng), U(rng, 1, 3), U(rng, 0.1, 2.5),
                                      U(rng, 3.0, 6.0))),
                ('inverted', lambda: Arc2D(pt2(rng), U(rng, 1, 3), U(rng, 4.0, 6.0),
                                           U(rng, 0.5, 2.0)))]
    if n == 'Arc3D':
        return [('circle', lambda: Arc3D(plane_any(rng), U(rng, 1, 3))),
                ('arc', lambda: Arc3D(plane_any(rng), U(rng, 1, 3), U(rng, 0.1, 2.5),
                                      U(rng, 3.0, 6.0))),
                ('inverted', lambda: Arc3D(plane_any(rng), U(rng, 1, 3), U(rng, 4.0, 6.0),
                                           U(rng, 0.5, 2.0)))]
    if n == 'Polyline2D':
        return [('open', lambda: Polyline2D(star(rng, rng.randint(3, 6), 2, 4))),
                ('interpolated', lambda: Polyline2D(star(rng, rng.randint(3, 6), 2, 4), True)),
                ('closed', lambda: Polyline2D.from_polygon(Polygon2D(star(rng, 5, 2, 4)))),
                ('zigzag', lambda: Polyline2D([Point2D(0, 0), Point2D(2, U(rng, 1, 2)),
                                               Point2D(4, 0), Point2D(6, U(rng, 1, 2)),
                                               Point2D(8, 0)]))]
    if n == 'Polyline3D':
        def p3d(interp=False):
            pl = plane_any(rng)
            return Polyline3D([pl.xy_to_xyz(p) for p in star(rng, rng.randint(3, 6), 2, 4)],
                              interp)
        return [('open', p3d), ('interpolated', lambda: p3d(True)),
                ('spatial', lambda: Polyline3D([pt3(rng, (k * 2.0, 0, 0), 1.0)
                                                for k in range(rng.randint(3, 6))]))]
    if n == 'Polygon2D':
        return polygon_variants(rng)
    if n == 'Mesh2D':
        return mesh2_variants(rng)
    if n == 'Mesh3D':
        return mesh3_variants(rng)
    if n == 'Plane':
        return [('any', lambda: plane_any(rng)),
                ('xy', lambda: Plane(Vector3D(0, 0, 1), Point3D(0, 0, U(rng, -1, 1)))),
                ('with_x', lambda: Plane(Vector3D(0, 0, 1), pt3(rng), Vector3D(1, 1, 0)))]
    if n == 'Face3D':
        return face_variants(rng)
    if n == 'Polyface3D':
        return polyface_variants(rng)
    if n == 'Sphere':
        return [('s', lambda: Sphere(pt3(rng), U(rng, 1, 3)))]
    if n == 'Cone':
        return [('c', lambda: Cone(pt3(rng), vec3(rng, 2, 4), U(rng, 0.2, 1.0)))]
    if n == 'Cylinder':
        return [('c', lambda: Cylinder(pt3(rng), vec3(rng, 2, 4), U(rng, 0.5, 2)))]
    if n == 'DirectedGraphNetwork':
        return network_variants(rng)
    if n == 'Node':
        return [('node', lambda: list(DirectedGraphNetwork.from_polygon(
            Polygon2D(star(rng, 4, 2, 4)), 0.01).nodes)[1])]
    if n == 'BooleanPoint':
        return [('p', lambda: BooleanPoint(U(rng, -3, 3), U(rng, -3, 3)))]
    if n == 'BooleanPolygon':
        return [('p', lambda: BooleanPolygon([[(p.x, p.y) for p in star(rng, 5, 2, 4)]]))]
    if n == 'OBJ':
        return [('from_mesh', lambda: OBJ.from_mesh3d(mesh3_variants(rng)[0][1]()))]
    if n == 'STL':
        return [('from_mesh', lambda: STL.from_mesh3d(mesh3_variants(rng)[0][1]()))]
    return []


# ------------------------------------------------------------------ argument registry
class Skip(Exception):
    """No valid argument can be supplied for a parameter."""


class Ctx(object):
    """Everything an argument generator may look at."""

    def __init__(self, rng, cls, modname, name, recv, tmpdir):
        self.rng, self.cls, self.modname, self.name, self.recv = rng, cls, modname, name, recv
        self.tmpdir = tmpdir
        self.qual = ('%s.%s' % (cls.__name__, name)) if cls is not None else \
            '%s.%s' % (modname.split('.')[-1], name)
        owner = cls.__module__ if cls is not None else modname
        self.dim = 3 if ('geometry3d' in owner or 'intersection3d' in owner or
                         'projection' in owner or 'interop' in owner) else 2
        self.c, self.size = self._anchor(recv)

    def _anchor(self, r):
        try:
            if r is None:
                return (0.0, 0.0, 0.0), 4.0
            if isinstance(r, (Point2D, Point3D)):
                return (r.x, r.y, getattr(r, 'z', 0.0)), 3.0
            if isinstance(r, Plane):
                return tuple(r.o.to_array()), 3.0
            if isinstance(r, (Sphere, Cylinder)):
                return tuple(r.center.to_array()), 3.0
            if isinstance(r, Cone):
                return tuple(r.vertex.to_array()), 3.0
            if isinstance(r, (Arc2D,)):
                return (r.c.x, r.c.y, 0.0), r.r
            if isinstance(r, (Arc3D,)):
                return tuple(r.c.to_array()), r.radius
            if isinstance(r, (LineSegment2D, LineSegment3D)):
                m = r.midpoint
                return (m.x, m.y, getattr(m, 'z', 0.0)), max(1.0, r.length / 2)
            if isinstance(r, (Ray2D, Ray3D)):
                m = r.p
                return (m.x, m.y, getattr(m, 'z', 0.0)), 3.0
            if isinstance(r, Face3D):
                m = r.center
                return (m.x, m.y, m.z), max(1.0, (r.max - r.min).magnitude / 2)
            if hasattr(r, 'min') and hasattr(r, 'max'):
                a, b = r.min, r.max
                c = ((a.x + b.x) / 2, (a.y + b.y) / 2,
                     (getattr(a, 'z', 0.0) + getattr(b, 'z', 0.0)) / 2)
                return c, max(1.0, (b - a).magnitude / 2)
        except Exception:
            pass
        return (0.0, 0.0, 0.0), 4.0

    # ---- basic values placed near the receiver
    def point(self, r=0.6):
        s = self.size * r
        if self.dim == 2:
            return Point2D(self.c[0] + U(self.rng, -s, s), self.c[1] + U(self.rng, -s, s))
        if isinstance(self.recv, Face3D) and self.rng.random() < 0.6:
            pl = self.recv.plane
            return pl.xy_to_xyz(pl.xyz_to_xy(Point3D(*self.c)).move(
                Vector2D(U(self.rng, -s, s), U(self.rng, -s, s))))
        return Point3D(self.c[0] + U(self.rng, -s, s), self.c[1] + U(self.rng, -s, s),
                       self.c[2] + U(self.rng, -s, s))

    def point2(self, r=0.6):
        s = self.size * r
        return Point2D(self.c[0] + U(self.rng, -s, s), self.c[1] + U(self.rng, -s, s))

    def point3(self, r=0.6):
        s = self.size * r
        return Point3D(self.c[0] + U(self.rng, -s, s), self.c[1] + U(self.rng, -s, s),
                       self.c[2] + U(self.rng, -s, s))

    def vector(self, lo=0.5, hi=2.0):
        return vec2(self.rng, lo, hi) if self.dim == 2 else vec3(self.rng, lo, hi)

    def unit(self):
        return self.vector(1, 1).normalize()

    def segment(self):
        """A segment through the neighbourhood of the receiver, longer than it."""
        a = self.point(0.4)
        d = self.vector(1, 1).normalize() * (self.size * 1.6)
        if self.dim == 2:
            return LineSegment2D.from_end_points(a.move(d * -1), a.move(d))
        if isinstance(self.recv, Face3D) and self.rng.random() < 0.5:
            pl = self.recv.plane
            d = pl.xy_to_xyz(Point2D(*(vec2(self.rng, 1, 1) * self.size * 1.6).to_array())) \
                - pl.o
        return LineSegment3D.from_end_points(a.move(d * -1), a.move(d))

    def line_ray(self):
        s = self.segment()
        if self.rng.random() < 0.35:
            return Ray2D(s.p, s.v) if self.dim == 2 else Ray3D(s.p, s.v)
        return s

    def plane(self):
        p = self.point3(0.3)
        return Plane(vec3(self.rng), p)

    def polygon(self):
        r = self.rng.random()
        cx, cy, s = self.c[0], self.c[1], self.size
        if r < 0.5:
            return Polygon2D(star(self.rng, self.rng.randint(3, 6), 0.4 * s, 0.9 * s,
                                  cx + U(self.rng, -.5, .5) * s, cy + U(self.rng, -.5, .5) * s))
        if r < 0.8:
            return Polygon2D(rect2(cx + U(self.rng, -.2, .4) * s, cy + U(self.rng, -.6, 0) * s,
                                   s * U(self.rng, .5, 1), s * U(self.rng, .5, 1)))
        return Polygon2D(star(self.rng, 4, 0.05 * s, 0.15 * s, cx, cy))    # small, inside

    def face(self):
        """A face related to the receiver: coplanar + overlapping for Face3D receivers."""
        if isinstance(self.recv, Face3D):
            pl = self.recv.plane
            o = pl.xyz_to_xy(Point3D(*self.c))
            s = self.size
            poly = star(self.rng, self.rng.randint(3, 5), 0.3 * s, 0.8 * s,
                        o.x + U(self.rng, -.4, .4) * s, o.y + U(self.rng, -.4, .4) * s)
            return Face3D([pl.xy_to_xyz(p) for p in poly], pl)
        return face_variants(self.rng)[self.rng.randrange(4)][1]()


def _same_class_other(c):
    vs = receivers(c.cls, c.rng)
    if not vs:
        raise Skip('other')
    return vs[c.rng.randrange(len(vs))][1]()


def _geoms2(c):
    rng = c.rng
    return [pt2(rng), LineSegment2D(pt2(rng), vec2(rng)), Polyline2D(star(rng, 4, 1, 3)),
            Polygon2D(star(rng, 5, 1, 3, 2, 1)), Arc2D(pt2(rng), 1.5, 0.5, 2.5),
            mesh2_variants(rng)[0][1]()]


def _geoms3(c):
    rng = c.rng
    return [pt3(rng), LineSegment3D(pt3(rng), vec3(rng)),
            Polyline3D([pt3(rng), pt3(rng), pt3(rng)]),
            face_variants(rng)[3][1](), Arc3D(plane_any(rng), 1.5, 0.5, 2.5),
            mesh3_variants(rng)[0][1](), Polyface3D.from_box(2, 3, 1, plane_any(rng)),
            Sphere(pt3(rng), 1.2), Cone(pt3(rng), vec3(rng), 0.5),
            Cylinder(pt3(rng), vec3(rng), 0.7)]


def _polygons(c, n=3):
    rng = c.rng
    out = [Polygon2D(rect2(0, 0, 4, 3)), Polygon2D(rect2(U(rng, 2.5, 3.5), 1, 4, 3)),
           Polygon2D(rect2(1, U(rng, 2, 2.5), 2, 3)), Polygon2D(rect2(9, 9, 1, 1)),
           Polygon2D(rect2(4, 0, 2, 1))]
    out = out[:n]
    rng.shuffle(out)
    return out


def _coplanar_faces(c, n=3):
    pl = c.recv.plane if isinstance(c.recv, Face3D) else Plane(Vector3D(0, 0, 1),
                                                               Point3D(0, 0, 1))
    return [Face3D([pl.xy_to_xyz(p) for p in poly.vertices], pl)
            for poly in _polygons(c, n)]


def _bool_poly(c, shift=0.0):
    w, h = U(c.rng, 3, 5), U(c.rng, 2, 4)
    return BooleanPolygon([[(shift, shift / 2), (shift + w, shift / 2),
                            (shift + w, shift / 2 + h), (shift, shift / 2 + h)]])


def _boxed2(c):
    rng = c.rng
    return [Polyline2D(star(rng, 4, 1, 3)), Polygon2D(star(rng, 5, 1, 3, 2, 1)),
            mesh2_variants(rng)[0][1]()]


def _boxed3(c):
    rng = c.rng
    return [Polyline3D([pt3(rng), pt3(rng), pt3(rng)]), face_variants(rng)[3][1](),
            mesh3_variants(rng)[0][1](), Polyface3D.from_box(2, 3, 1, plane_any(rng))]


def _pattern(c):
    r = c.recv
    n = len(r.vertices) if 'vertices' in c.name else len(r.faces)
    p = [c.rng.random() < 0.7 for _ in range(n)]
    p[0] = True
    if 'vertices' in c.name:
        for i in r.faces[0]:
            p[i] = True
    return p


def _data(c):
    if c.qual == 'triangulation.earcut':
        return [0.0, 0.0, 6.0, 0.0, 6.0, U(c.rng, 4, 6), 3.0, 2.0, 0.0, 5.0]
    o = _same_class_other(c)
    return o.to_dict()


def _write_mesh_file(c, ext):
    m = mesh3_variants(c.rng)[0][1]()
    nm = 'in_%s' % digest(value_of(m))
    path = os.path.join(c.tmpdir, nm + '.' + ext)
    if not os.path.isfile(path):
        (m.to_stl if ext == 'stl' else m.to_obj)(c.tmpdir, nm)
    return path


# generators by parameter name; each takes the Ctx
BY_NAME = {
    'tolerance': lambda c: 0.01, 'tol': lambda c: 0.01,
    'angle_tolerance': lambda c: 0.0175, 'filter_tolerance': lambda c: 0.0,
    'origin': lambda c: c.point(), 'angle': lambda c: U(c.rng, 0.1, 3.0),
    'angles': lambda c: [U(c.rng, 0, 6) for _ in range(4)],
    'point': lambda c: c.point(), 'pt': lambda c: c.point(),
    'point2d': lambda c: c.point2(), 'vector2d': lambda c: vec2(c.rng),
    'line_ray': lambda c: c.line_ray(), 'ray': lambda c: c.line_ray(),
    'line_ray_a': lambda c: c.line_ray(), 'line_ray_b': lambda c: c.line_ray(),
    'line': lambda c: c.segment(), 'line_a': lambda c: c.segment(),
    'line_b': lambda c: c.segment(), 'line_segment': lambda c: c.segment(),
    'line2d': lambda c: LineSegment2D(pt2(c.rng), vec2(c.rng)),
    'ray2d': lambda c: Ray2D(pt2(c.rng), vec2(c.rng)),
    'arc2d': lambda c: Arc2D(pt2(c.rng), 1.5, 0.5, 2.5),
    'polyline2d': lambda c: Polyline2D(star(c.rng, 4, 1, 3)),
    'mesh_2d': lambda c: mesh2_variants(c.rng)[1][1](),
    'normal': lambda c: c.unit(), 'axis': lambda c: vec3(c.rng),
    'moving_vec': lambda c: c.vector(), 'extrusion_vector': lambda c: vec3(c.rng, 2, 3),
    'direction_vector': lambda c: c.vector(1, 1), 'contour_vector': lambda c: vec2(c.rng, 1, 1),
    'projection_direction': lambda c: None,
    'plane': lambda c: c.plane(), 'plane_a': lambda c: c.plane(),
    'plane_b': lambda c: c.plane(), 'base_plane': lambda c: plane_any(c.rng),
    'factor': lambda c: U(c.rng, 0.5, 2.5), 'distance': lambda c: U(c.rng, 0.1, 0.4),
    'distances': lambda c: [0.4, 0.9, 1.3], 'length': lambda c: U(c.rng, 0.3, 1.0),
    'parameter': lambda c: U(c.rng, 0.1, 0.9), 'number': lambda c: c.rng.randint(2, 5),
    'divisions': lambda c: c.rng.randint(3, 6), 'interpolated': lambda c: True,
    'polygon': lambda c: c.polygon(), 'polygon1': lambda c: _polygons(c)[0],
    'polygon2': lambda c: _polygons(c)[1], 'boundary_polygon': lambda c: Polygon2D(
        rect2(0, 0, 10, 8)),
    'hole_polygons': lambda c: [Polygon2D(rect2(2, 2, 2, 3))],
    'polygons': lambda c: _polygons(c, 4), 'polygon_list': lambda c: _polygons(c, 5),
    'poly1': lambda c: _bool_poly(c), 'poly2': lambda c: _bool_poly(c, 1.5),
    'other': _same_class_other, 'other_pt': lambda c: BooleanPoint(1.0, 2.0),
    'pt1': lambda c: BooleanPoint(U(c.rng, 0, 1), 0.0), 'pt2': lambda c: BooleanPoint(2.0, 1.0),
    'pt3': lambda c: BooleanPoint(4.0, U(c.rng, 1.9, 2.1)),
    'left': lambda c: BooleanPoint(0.0, 0.0), 'right': lambda c: BooleanPoint(4.0, 1.0),
    'p1': lambda c: c.point(), 'p2': lambda c: c.point(), 'p3': lambda c: c.point(),
    'm': lambda c: c.point(), 'o': lambda c: c.point3(), 's': lambda c: c.point(),
    'd': lambda c: c.vector(), 'n': lambda c: vec3(c.rng), 'k': lambda c: U(c.rng, -2, 2),
    'circle': lambda c: c.rng.random() < 0.3,
    'z': lambda c: U(c.rng, -1, 2), 'data': _data,
    'face': lambda c: c.face(), 'face1': lambda c: _coplanar_faces(c)[0],
    'face2': lambda c: _coplanar_faces(c)[1], 'sub_face': lambda c: c.face(),
    'base_face': lambda c: face_variants(c.rng)[5][1](),
    'geometries': lambda c: _geoms2(c) if c.dim == 2 else _geoms3(c),
    'geometry_1': lambda c: (_geoms2(c) if 'rect' in c.name else _geoms3(c))[3],
    'geometry_2': lambda c: (_geoms2(c) if 'rect' in c.name else _geoms3(c))[2],
    'axis_angle': lambda c: U(c.rng, 0, 1.5),
    'pattern': _pattern, 'ratio': lambda c: U(c.rng, 0.2, 0.6),
    'x_dim': lambda c: U(c.rng, 0.8, 1.5), 'y_dim': lambda c: U(c.rng, 0.8, 1.5),
    'num_x': lambda c: c.rng.randint(1, 3), 'num_y': lambda c: c.rng.randint(1, 3),
    'base_point': lambda c: c.point2(), 'height_vector': lambda c: Vector2D(0.2, 1.0),
    'base': lambda c: U(c.rng, 2, 5), 'height': lambda c: U(c.rng, 2, 4),
    'width': lambda c: U(c.rng, 1, 4), 'depth': lambda c: U(c.rng, 0.3, 1.0),
    'radius': lambda c: U(c.rng, 0.5, 2.0), 'number_of_sides': lambda c: c.rng.randint(3, 8),
    'side_count': lambda c: c.rng.randint(3, 8),
    'generate_centroids': lambda c: c.rng.random() < 0.7, 'purge': lambda c: True,
    'flip': lambda c: c.rng.random() < 0.5, 'flip_side': lambda c: c.rng.random() < 0.5,
    'offset': lambda c: U(c.rng, 0.1, 0.5), 'check_intersection': lambda c: True,
    'sub_rect_height': lambda c: 1.0, 'sub_rect_width': lambda c: 1.2,
    'sill_height': lambda c: 0.6, 'horizontal_separation': lambda c: 2.0,
    'vertical_separation': lambda c: 0.3, 'parent_base': lambda c: 8.0,
    'parent_height': lambda c: 3.0, 'contour_count': lambda c: 3, 'fin_count': lambda c: 3,
    'grid_increment': lambda c: 0.5, 'min_separation': lambda c: 0.5,
    'direction': lambda c: Vector2D(0, 1), 'min_distance': lambda c: 0.1,
    'merge_distance': lambda c: 0.5,
    'meshes': lambda c: [v[1]() for v in (mesh2_variants if c.dim == 2 else
                                          mesh3_variants)(c.rng)[:2]],
    'mesh': lambda c: mesh3_variants(c.rng)[0][1](),
    'sphere': lambda c: Sphere(c.point3(0.3), c.size * 0.8),
    'arc': lambda c: (Arc2D(c.point2(0.3), c.size * 0.7, 0.4, 4.0) if c.dim == 2 else
                      Arc3D(Plane(vec3(c.rng), c.point3(0.2)), c.size * 0.8, 0.4, 5.0)),
    'include_plane': lambda c: c.rng.random() < 0.5,
    'enforce_upper_left': lambda c: c.rng.random() < 0.5,
    'include_edge_information': lambda c: c.rng.random() < 0.5,
    'raise_exception': lambda c: False,
    'ladybug_geom_dict': lambda c: _geoms3(c)[c.rng.randrange(10)].to_dict(),
    'values': lambda c: [U(c.rng, 0, 10) for _ in c.recv.vertices],
    'domain': lambda c: (0.0, 2.0),
    'polyline': lambda c: Polyline3D([p for p in (c.segment().p1, c.point(0.2),
                                                  c.segment().p2)]),
    'lines': lambda c: [c.segment(), c.segment()],
    'points': lambda c: [c.point3(), c.point3(), c.point3()],
    'segments': lambda c: (lambda pts: [
        (LineSegment2D if c.dim == 2 else LineSegment3D).from_end_points(a, b)
        for a, b in ((pts[2], pts[3]), (pts[0], pts[1]), (pts[1], pts[2]))])(
        [c.point() for _ in range(4)]),
    'hole_indices': lambda c: None, 'dim': lambda c: 2,
    'key': lambda c: list(c.recv._directed_graph)[1],
    'node': lambda c: list(c.recv.nodes)[1] if isinstance(c.recv, DirectedGraphNetwork)
    else list(network_variants(c.rng)[2][1]().nodes)[2],
    'node1': lambda c: list(network_variants(c.rng)[2][1]().nodes)[2],
    'node2': lambda c: list(network_variants(c.rng)[2][1]().nodes)[3],
    'base_node': lambda c: list(c.recv.nodes)[1],
    'goal_node': lambda c: list(c.recv.nodes)[2],
    'next_node': lambda c: list(c.recv.nodes)[1].adj_lst[0],
    'cycle_root': lambda c: c.recv.outer_root_node,
    'new_val': lambda c: Point2D(U(c.rng, 20, 30), 20.0),
    'val': lambda c: Point2D(U(c.rng, 20, 30), 25.0),
    'adj_lst': lambda c: [Point2D(31.0, 30.0), Point2D(32.0, 33.5)],
    'adj_val_lst': lambda c: [Point2D(41.0, 30.0), Point2D(42.0, 33.5)],
    'adj_key_lst': lambda c: [n.key for n in list(c.recv.nodes)[1].adj_lst],
    'exterior': lambda c: None, 'ccw_only': lambda c: c.rng.random() < 0.5,
    'loop': lambda c: True, 'split_segments': lambda c: [
        LineSegment2D.from_end_points(Point2D(-1, U(c.rng, 5, 7)), Point2D(11, 6.0))],
    'folder': lambda c: c.tmpdir, 'name': lambda c: 'out_%s' % c.name,
    'include_colors': lambda c: False, 'include_normals': lambda c: c.rng.random() < 0.5,
    'triangulate_quads': lambda c: c.rng.random() < 0.5, 'include_mtl': lambda c: False,
    'material_ids': lambda c: None, 'test_vector': None,       # keep the default
}


def _pts_list(c, n=4):
    return star(c.rng, n, 2, 4)


# overrides per callable (qualified by the class that is called / module function)
OVERRIDES = {
    '*.from_array:array': lambda c: tuple(U(c.rng, -3, 3) for _ in range(c.dim)),
    'Polygon2D.from_array:point_array': lambda c: tuple(p.to_array() for p in _pts_list(c)),
    'Polyline2D.from_array:point_array': lambda c: [list(p.to_array()) for p in _pts_list(c)],
    'Polyline3D.from_array:point_array': lambda c: [pt3(c.rng).to_array() for _ in range(4)],
    'Face3D.from_array:point_array': lambda c: [
        [(0, 0, 1), (10, 0, 1), (10, 8, 1), (0, 8.0, 1)],
        [(2, 2, 1), (4, 2, 1), (4, U(c.rng, 4, 5), 1)]],
    'DirectedGraphNetwork.from_point_array:point_array': lambda c: _pts_list(c, 5),
    'LineSegment2D.from_array:line_array': lambda c: (pt2(c.rng).to_array(),
                                                      pt2(c.rng).to_array()),
    'LineSegment3D.from_array:line_array': lambda c: [list(pt3(c.rng).to_array()),
                                                      list(pt3(c.rng).to_array())],
    'Ray2D.from_array:ray_array': lambda c: (pt2(c.rng).to_array(), vec2(c.rng).to_array()),
    'Ray3D.from_array:ray_array': lambda c: (pt3(c.rng).to_array(), vec3(c.rng).to_array()),
    'Polygon2D.from_shape_with_hole:boundary': lambda c: rect2(0, 0, 10, 8),
    'Polygon2D.from_shape_with_hole:hole': lambda c: (
        lambda h: h if c.rng.random() < 0.5 else list(reversed(h)))(
        rect2(U(c.rng, 2, 3), 2, 2, 3)),
    'Polygon2D.from_shape_with_holes:boundary': lambda c: (
        lambda b: b if c.rng.random() < 0.5 else list(reversed(b)))(rect2(0, 0, 10, 8)),
    'Polygon2D.from_shape_with_holes:holes': lambda c: [
        rect2(2, 2, 1.5, 2), list(reversed(rect2(5, U(c.rng, 2, 3), 2, 1.5))),
        rect2(5, 5.5, 1.5, 1.5)][:c.rng.randint(1, 3)],
    'Polygon2D.from_shape_with_holes_fast:boundary': lambda c: rect2(0, 0, 10, 8),
    'Polygon2D.from_shape_with_holes_fast:holes': lambda c: [
        rect2(2, 2, 1.5, 2), list(reversed(rect2(5, U(c.rng, 2, 3), 2, 1.5)))],
    'Polygon2D.perimeter_core_by_offset:polygon': lambda c: Polygon2D(rect2(0, 0, 10, 8)),
    'Polygon2D.perimeter_core_by_offset:distance': lambda c: U(c.rng, 0.8, 1.5),
    'Polygon2D.perimeter_core_by_offset:holes': lambda c: None if c.rng.random() < 0.5
    else [Polygon2D(rect2(4, 3, 2, 2))],
    'Polygon2D.is_equivalent:other': lambda c: Polygon2D(
        c.recv.vertices[1:] + c.recv.vertices[:1]),
    'Polygon2D.offset:distance': lambda c: U(c.rng, 0.05, 0.2),
    'Polyline2D.offset:distance': lambda c: U(c.rng, 0.05, 0.2),
    'Polygon2D.snap_to_polygon:polygon': lambda c: c.recv.move(Vector2D(0.004, 0.003)),
    'Polygon2D.boolean_intersect_all:polygons': lambda c: [
        Polygon2D(rect2(0, 0, 4, 3)), Polygon2D(rect2(U(c.rng, 1, 2), 1, 4, 3)),
        Polygon2D(rect2(0.5, U(c.rng, 1.5, 2), 3, 3))],
    'Polygon2D.joined_intersected_boundary:polygons': lambda c: (lambda L: (
        c.rng.shuffle(L), L)[1])([Polygon2D(rect2(0, 0, 4, 3)), Polygon2D(rect2(4, 0, 2, 1)),
                                 Polygon2D(rect2(4, 1, 2, U(c.rng, 1.5, 2.5)))]),
    'Polygon2D.intersect_polygon_segments:polygon_list': lambda c: [
        Polygon2D(rect2(0, 0, 4, 3)), Polygon2D(rect2(4, 0, 2, 1)),
        Polygon2D(rect2(4, 1, 2, U(c.rng, 1.5, 2.5)))],
    'Polygon2D.common_axes:polygons': lambda c: _polygons(c, 5),
    'DirectedGraphNetwork.from_shape_with_holes:boundary': lambda c: Polygon2D(
        rect2(0, 0, 10, 8)),
    'DirectedGraphNetwork.from_shape_with_holes:holes': lambda c: [
        Polygon2D(rect2(2, 2, 2, 3))],
    'DirectedGraphNetwork.from_shape_to_split:boundary': lambda c: Polygon2D(
        rect2(0, 0, 10, 8)),
    'DirectedGraphNetwork.from_shape_to_split:holes': lambda c: [
        Polygon2D(rect2(2, 2, 2, 2))],
    'DirectedGraphNetwork.polygon_exists:polygon': lambda c: Polygon2D(
        [n.pt for n in c.recv.ordered_nodes][:4]),
    'DirectedGraphNetwork.pt_exists:pt': lambda c: list(c.recv.nodes)[0].pt,
    'DirectedGraphNetwork.next_exterior_node_no_backtrack:previous_node': lambda c: list(
        network_variants(c.rng)[2][1]().nodes)[1],
    'DirectedGraphNetwork.next_exterior_node_no_backtrack:explored_nodes': lambda c: set(),
    'network.coordinates_hash:point': lambda c: pt2(c.rng),
    'Mesh2D.from_face_vertices:faces': lambda c: [
        [Point2D(0, 0), Point2D(0, 2), Point2D(2, 2), Point2D(2, 0)],
        [Point2D(2, 0), Point2D(2, 2), Point2D(4, U(c.rng, 0, 1))]],
    'Mesh2D.from_purged_face_vertices:faces': lambda c: [
        [Point2D(0, 0), Point2D(0, 2), Point2D(2, 2), Point2D(2, 0)],
        [Point2D(2, 0.001), Point2D(2, 2), Point2D(4, U(c.rng, 0, 1))]],
    'Mesh3D.from_face_vertices:faces': lambda c: [
        [Point3D(0, 0, 1), Point3D(0, 2, 1), Point3D(2, 2, 1), Point3D(2, 0, 1)],
        [Point3D(2, 0, 1), Point3D(2, 2, 1), Point3D(4, U(c.rng, 0, 1), 2)]],
    'Mesh3D.from_purged_face_vertices:faces': lambda c: [
        [Point3D(0, 0, 1), Point3D(0, 2, 1), Point3D(2, 2, 1), Point3D(2, 0, 1)],
        [Point3D(2, 0.001, 1), Point3D(2, 2, 1), Point3D(4, U(c.rng, 0, 1), 2)]],
    'Mesh2D.from_polygon_grid:polygon': lambda c: Polygon2D(rect2(0, 0, 10, 10)),
    'Mesh2D.from_polygon_grid:x_dim': lambda c: 3.5, 'Mesh2D.from_polygon_grid:y_dim':
    lambda c: 2.0,
    'Mesh3D.offset_mesh:distance': lambda c: 0.3,
    'Polyface3D.from_faces:faces': lambda c: list(Polyface3D.from_box(
        2, 3, U(c.rng, 1, 4)).faces)[:c.rng.randint(4, 6)],
    'Polyface3D.get_outward_faces:faces': lambda c: list(Polyface3D.from_box(
        2, 3, U(c.rng, 1, 4)).faces),
    'Polyface3D.from_offset_face:face': lambda c: face_variants(c.rng)[4][1](),
    'Polyface3D.from_offset_face:offset': lambda c: U(c.rng, 1, 2),
    'Polyface3D.overlapping_bounding_boxes:polyface1': lambda c: Polyface3D.from_box(2, 3, 4),
    'Polyface3D.overlapping_bounding_boxes:polyface2': lambda c: Polyface3D.from_box(
        2, 3, 4, Plane(Vector3D(0, 0, 1), Point3D(U(c.rng, 1, 3), 0, 0))),
    'Polyface3D.is_point_inside:point': lambda c: c.point3(0.5),
    'Face3D.coplanar_union_all:faces': lambda c: _coplanar_faces(c, 3),
    'Face3D.coplanar_difference:faces': lambda c: [c.face(), c.face()],
    'Face3D.group_by_coplanar_overlap:faces': lambda c: _coplanar_faces(c, 4),
    'Face3D.join_coplanar_faces:faces': lambda c: _coplanar_faces(c, 5)[:1] +
    _coplanar_faces(c, 5)[4:],
    'Face3D.merge_faces_to_holes:faces': lambda c: [
        Face3D([Point3D(p.x, p.y, 1) for p in rect2(0, 0, 10, 8)]),
        Face3D([Point3D(p.x, p.y, 1) for p in rect2(2, 2, 2, U(c.rng, 2, 3))])],
    'Face3D.from_punched_geometry:sub_faces': lambda c: [
        Face3D.from_rectangle(0.5, 0.5, plane_any(c.rng))],
    'Face3D.from_extrusion:line_segment': lambda c: LineSegment3D(pt3(c.rng),
                                                                  Vector3D(3, 1, 0)),
    'Face3D.from_extrusion:extrusion_vector': lambda c: Vector3D(0.2, 0, U(c.rng, 2, 3)),
    'Face3D.sub_faces_by_ratio_gridded:x_dim': lambda c: 1.0,
    'Face3D.mesh_grid:x_dim': lambda c: U(c.rng, 0.8, 1.2),
    'Face3D.mesh_grid:offset': lambda c: None,
    'Face3D.polygon_in_face:origin': lambda c: None,
    'Face3D.contour_by_distance_between:distance': lambda c: U(c.rng, 0.8, 1.5),
    'Face3D.contour_fins_by_distance_between:distance': lambda c: U(c.rng, 0.8, 1.5),
    'Face3D.split_with_polyline:polyline': lambda c: (lambda s, m: Polyline3D(
        [s.p1, m, s.p2]))(c.segment(), c.point(0.2)),
    'Arc2D.from_start_mid_end:p1': lambda c: Point2D(2, 0), 'Arc2D.from_start_mid_end:m':
    lambda c: Point2D(0, U(c.rng, 1.5, 2.5)), 'Arc2D.from_start_mid_end:p2':
    lambda c: Point2D(-2, 0),
    'Arc3D.from_start_mid_end:p1': lambda c: Point3D(2, 0, 1), 'Arc3D.from_start_mid_end:m':
    lambda c: Point3D(0, U(c.rng, 1.5, 2.5), 1.5), 'Arc3D.from_start_mid_end:p2':
    lambda c: Point3D(-2, 0, 2),
    'Arc2D.subdivide:distances': lambda c: [0.3, 0.5], 'Arc3D.subdivide:distances':
    lambda c: [0.3, 0.5],
    'Arc2D.point_at_length:length': lambda c: U(c.rng, 0.1, 0.9),
    'Arc3D.point_at_length:length': lambda c: U(c.rng, 0.1, 0.9),
    'Plane.from_three_points:p2': lambda c: pt3(c.rng), 'Plane.from_three_points:p3':
    lambda c: pt3(c.rng),
    'Plane.intersect_arc:arc': lambda c: Arc3D(Plane(vec3(c.rng), c.point3(0.2)), 3.0, 0.4, 5),
    'Cylinder.from_start_end:p1': lambda c: pt3(c.rng), 'Cylinder.from_start_end:p2':
    lambda c: pt3(c.rng, (3, 3, 3)),
    'Vector2D.rotate:angle': lambda c: U(c.rng, -3, 3),
    'Vector3D.project:normal': lambda c: vec3(c.rng, 1, 1).normalize(),
    'OBJ.from_mesh3ds:meshes': lambda c: [v[1]() for v in mesh3_variants(c.rng)[:2]],
    'Mesh3D.from_stl:file_path': lambda c: _write_mesh_file(c, 'stl'),
    'Face3D.extract_all_from_stl:file_path': lambda c: _write_mesh_file(c, 'stl'),
    'STL.from_file:file_path': lambda c: _write_mesh_file(c, 'stl'),
    'Mesh3D.from_obj:file_path': lambda c: _write_mesh_file(c, 'obj'),
    'OBJ.from_file:file_path': lambda c: _write_mesh_file(c, 'obj'),
    'BooleanPoint.between:point': lambda c: BooleanPoint(2.0, U(c.rng, 0.4, 0.6)),
    'BooleanPoint.point_above_or_on_line:point': lambda c: BooleanPoint(2.0, U(c.rng, 0, 1)),
    'boolean.intersect_all:polygons': lambda c: [_bool_poly(c), _bool_poly(c, 1.0)],
    'boolean.union_all:polygons': lambda c: [_bool_poly(c), _bool_poly(c, 1.0),
                                             _bool_poly(c, 9.0)],
}

for _f in ('bounding_box', 'bounding_box_extents', 'bounding_domain_z'):
    OVERRIDES['bounding.%s:geometries' % _f] = _boxed3
for _f in ('bounding_rectangle', 'bounding_rectangle_extents', 'bounding_domain_x',
           'bounding_domain_y'):
    OVERRIDES['bounding.%s:geometries' % _f] = lambda c: (
        _boxed2(c) if c.rng.random() < 0.6 else _boxed3(c))
OVERRIDES['bounding.bounding_domain_z_2d_safe:geometries'] = lambda c: _boxed2(c) + _boxed3(c)
OVERRIDES['bounding.overlapping_bounding_boxes:geometry_1'] = lambda c: _boxed3(c)[1]
OVERRIDES['bounding.overlapping_bounding_boxes:geometry_2'] = lambda c: _boxed3(c)[3]
OVERRIDES['bounding.overlapping_bounding_rect:geometry_1'] = lambda c: _boxed2(c)[1]
OVERRIDES['bounding.overlapping_bounding_rect:geometry_2'] = lambda c: _boxed2(c)[0]
OVERRIDES['intersection2d.closest_point2d_between_line2d:line_ray_a'] = lambda c: c.segment()
OVERRIDES['intersection2d.closest_point2d_between_line2d:line_ray_b'] = lambda c: c.segment()

# Vector-like "other"/"normal" arguments of the point/vector classes
for _cn, _mk in (('Vector2D', vec2), ('Point2D', vec2), ('Vector3D', vec3), ('Point3D', vec3)):
    for _m in ('angle', 'angle_clockwise', 'angle_counterclockwise', 'determinant', 'dot',
               'cross'):
        OVERRIDES['%s.%s:other' % (_cn, _m)] = (lambda mk: lambda c: mk(c.rng))(_mk)

DOC_INPLACE = {'Polygon2D.intersect_polygon_segments': ('polygon_list',)}
DOC_MUTATORS = ('DirectedGraphNetwork.add_node', 'DirectedGraphNetwork.add_adj',
                'DirectedGraphNetwork.remove_adj', 'DirectedGraphNetwork.insert_node')
# receiver-relative arguments of documented mutators that they are documented to change
MUTATED_ARGS = {'DirectedGraphNetwork.add_adj': ('node',),
                'DirectedGraphNetwork.remove_adj': ('node',),
                'DirectedGraphNetwork.insert_node': ('base_node', 'next_node')}
FILE_OUTPUT = ('to_stl', 'to_obj', 'to_file')


def build_args(c, sig_params):
    """Positional-or-keyword arguments (as an ordered list of (name, value))."""
    out = []
    for p in sig_params:
        if p.kind in (p.VAR_POSITIONAL, p.VAR_KEYWORD):
            continue
        keys = ['%s:%s' % (c.qual, p.name), '*.%s:%s' % (c.name, p.name)]
        gen = None
        for k in keys:
            if k in OVERRIDES:
                gen = OVERRIDES[k]
                break
        has_default = p.default is not p.empty
        if gen is None:
            if p.name in BY_NAME:
                gen = BY_NAME[p.name]
                if gen is None:
                    if has_default:
                        continue
                    raise Skip(p.name)
                if has_default and c.rng.random() < 0.35:
                    continue                       # exercise the default too
            elif has_default:
                continue
            else:
                raise Skip(p.name)
        try:
            out.append((p.name, gen(c)))
        except Skip:
            raise
        except Exception as e:
            raise Skip('%s (generator: %s: %s)' % (p.name, type(e).__name__, str(e)[:80]))
    return out


# ------------------------------------------------------------------ enumeration
class Item(object):
    __slots__ = ('kind', 'cls', 'modname', 'name', 'params', 'func', 'defcls', 'key', 'sigkey')


def library_modules():
    mods = []
    for m in pkgutil.walk_packages(ladybug_geometry.__path__, LIB + '.'):
        try:
            mods.append(importlib.import_module(m.name))
        except Exception:
            pass
    return mods


def enumerate_callables():
    """Every public callable: (items, classes)."""
    items, classes = [], []
    for mod in library_modules():
        for name, obj in sorted(vars(mod).items()):
            if name.startswith('_') or getattr(obj, '__module__', None) != mod.__name__:
                continue
            if inspect.isfunction(obj):
                it = Item()
                it.kind, it.cls, it.modname, it.name, it.func = 'function', None, \
                    mod.__name__, name, obj
                it.params = list(inspect.signature(obj).parameters.values())
                it.defcls = mod.__name__.split('.')[-1]
                it.key = '%s.%s' % (it.defcls, name)
                it.sigkey = it.key
                items.append(it)
            elif inspect.isclass(obj):
                classes.append(obj)
    for cls in classes:
        for name in sorted(dir(cls)):
            if name.startswith('_'):
                continue
            try:
                raw = inspect.getattr_static(cls, name)
            except AttributeError:
                continue
            defcls = cls.__name__
            for k in cls.__mro__:
                if name in k.__dict__:
                    defcls = k.__name__
                    break
            it = Item()
            it.cls, it.modname, it.name, it.func = cls, cls.__module__, name, None
            it.defcls = defcls
            it.key = '%s.%s' % (cls.__name__, name)
            it.sigkey = '%s.%s' % (defcls, name)
            if isinstance(raw, property):
                it.kind, it.params = 'property', []
            elif isinstance(raw, classmethod):
                it.kind = 'classmethod'
                it.params = list(inspect.signature(raw.__func__).parameters.values())[1:]
            elif isinstance(raw, staticmethod):
                it.kind = 'staticmethod'
                it.params = list(inspect.signature(raw.__func__).parameters.values())
            elif inspect.isfunction(raw):
                it.kind = 'method'
                it.params = list(inspect.signature(raw).parameters.values())[1:]
            else:
                continue            # plain class attribute / slot descriptor
            items.append(it)
    return items, classes


# ------------------------------------------------------------------ one call
def warm_up(recv, args, tmpdir):
    """Fill the memo slots of the receiver and of every geometry argument (so that a call
    that spoils a FILLED cache is seen as a change of value)."""
    objs = [recv] + [v for _, v in args]
    for _, v in args:
        if isinstance(v, (list, tuple)):
            objs.extend(v)
    for o in objs:
        if o is not None and is_lib(o) and not isinstance(o, (DirectedGraphNetwork, Node)):
            public_reads(o, tmpdir)


def prepare(it, seed, vi, tmpdir, warm=False):
    r = _prepare(it, seed, vi, tmpdir)
    if warm and it.sigkey not in DOC_MUTATORS:
        warm_up(r[0], r[1], tmpdir)
    return r


def _prepare(it, seed, vi, tmpdir):
    rng = random.Random('%s/c14/%s/%d' % (seed, it.key, vi))
    recv, vname = None, '-'
    if it.kind in ('method', 'property'):
        vs = receivers(it.cls, rng)
        if not vs:
            raise Skip('no receiver factory (abstract base or helper class)')
        vname, fac = vs[vi % len(vs)]
        recv = fac()
    c = Ctx(rng, it.cls, it.modname, it.name, recv, tmpdir)
    args = build_args(c, it.params) if it.kind != 'property' else []
    return recv, args, vname


def n_variants(it):
    if it.kind in ('method', 'property'):
        return max(1, len(receivers(it.cls, random.Random(0))))
    return 2


def outcome(it, recv, args, tmpdir):
    try:
        if it.kind == 'property':
            r = getattr(recv, it.name)
        elif it.kind == 'method':
            r = getattr(recv, it.name)(**dict(args))
        elif it.kind == 'function':
            r = it.func(**dict(args))
        else:
            r = getattr(it.cls, it.name)(**dict(args))
    except Exception as e:
        return ('raise', type(e).__name__)
    if isinstance(r, str) and tmpdir and r.startswith(tmpdir) and os.path.isfile(r):
        with open(r, 'rb') as f:
            return ('ok', ('file', os.path.basename(r), hashlib.sha1(f.read()).hexdigest()))
    if type(r).__name__ in ('generator', 'map', 'zip', 'filter'):
        try:
            r = list(r)
        except Exception as e:
            return ('raise', type(e).__name__)
    return ('ok', value_of(r))


def held_snapshot(it, recv, args):
    """Snapshot of everything the caller owns: receiver + arguments."""
    inplace = DOC_INPLACE.get(it.sigkey, ())
    mutated = MUTATED_ARGS.get(it.sigkey, ())
    names, snaps = [], []
    if recv is not None and it.sigkey not in DOC_MUTATORS:
        names.append('receiver')
        snaps.append(snap(recv))
    for n, v in args:
        if n in mutated:
            continue
        names.append('argument ' + n)
        snaps.append(snap(v))
    return names, snaps


def public_reads(obj, tmpdir):
    out = {}
    cls = type(obj)
    for name in dir(cls):
        if name.startswith('_'):
            continue
        try:
            raw = inspect.getattr_static(cls, name)
        except AttributeError:
            continue
        if not isinstance(raw, property):
            continue
        try:
            out[name] = ('ok', value_of(getattr(obj, name)))
        except Exception as e:
            out[name] = ('raise', type(e).__name__)
    return out


def check_item(it, seed, vi, tmpdir, reads=True, warm=False):
    """Returns (status, first outcome, variant name, [(signature tail, what)])."""
    try:
        recv, args, vname = prepare(it, seed, vi, tmpdir, warm)
    except Skip as e:
        return 'skip:' + str(e), None, '-', []
    fails = []
    argdesc = ', '.join(n for n, _ in args)
    keep_inplace = {}
    for n in DOC_INPLACE.get(it.sigkey, ()):
        for an, av in args:
            if an == n:
                keep_inplace[n] = list(av)           # the caller's original elements
    names, s0 = held_snapshot(it, recv, args)
    s_in0 = dict((n, snap(v)) for n, v in keep_inplace.items())
    r1 = outcome(it, recv, args, tmpdir)
    _, s1 = held_snapshot(it, recv, args)

    def compare_held(sa, sb, when):
        for n, a, b in zip(names, sa, sb):
            if n.startswith('argument ') and n[9:] in keep_inplace:
                continue
            d = diff(a, b)
            if d is not None:
                fails.append(('mutates %s' % n, '%s(%s) [%s] %s: %s changed%s' % (
                    it.key, argdesc, vname, when, n, d)))
                return
        for n, v in keep_inplace.items():
            d = diff(s_in0[n], snap(v))
            if d is not None:
                fails.append(('mutates elements of argument %s' % n,
                              '%s [%s] %s: an element of the caller\'s list changed%s' % (
                                  it.key, vname, when, d)))
    compare_held(s0, s1, 'after the call')
    repeatable = it.sigkey not in DOC_MUTATORS and it.sigkey not in DOC_INPLACE
    if repeatable:
        r2 = outcome(it, recv, args, tmpdir)
        _, s2 = held_snapshot(it, recv, args)
        if not fails:
            compare_held(s0, s2, 'after the second call')
        if r1 != r2:
            fails.append(('repeated call gives a different result',
                          '%s(%s) [%s]: first %s, second %s' % (
                              it.key, argdesc, vname, short(r1, 160), short(r2, 160))))
    # the same call on an untouched, identically constructed twin
    try:
        trecv, targs, _ = prepare(it, seed, vi, tmpdir, warm)
        r3 = outcome(it, trecv, targs, tmpdir)
        if r1 != r3:
            fails.append(('same call on an identical object gives a different result',
                          '%s(%s) [%s]: %s vs %s' % (it.key, argdesc, vname,
                                                     short(r1, 160), short(r3, 160))))
    except Skip:
        pass
    # public reads of the used receiver against an untouched twin
    if reads and recv is not None and is_lib(recv) and it.sigkey not in DOC_MUTATORS \
            and not fails:
        try:
            frecv, _, _ = prepare(it, seed, vi, tmpdir)
            ra, rb = public_reads(recv, tmpdir), public_reads(frecv, tmpdir)
            for pn in sorted(ra):
                a, b = ra[pn], rb.get(pn)
                if a == b:
                    continue
                if b is None or a[0] != b[0] or (a[0] == 'ok' and not close(a[1], b[1])) \
                        or (a[0] == 'raise' and a[1] != b[1]):
                    fails.append(('receiver reads differently afterwards',
                                  '%s(%s) [%s]: afterwards .%s reads %s, on an untouched '
                                  'twin %s' % (it.key, argdesc, vname, pn, short(a, 140),
                                               short(b, 140))))
                    break
        except Skip:
            pass
    return 'raise' if r1[0] == 'raise' else 'ok', r1, vname, fails


# ------------------------------------------------------------------ digests in sub-processes
class _Clock(object):
    def __init__(self, mode):
        self.mode, self.t = mode, 2.0e9

    def __call__(self):
        if self.mode == 'decreasing':
            self.t -= 0.37
        return self.t


def workload_digests(seed, nvar, clock, only=None, warm=False):
    """{'<key>/<variant>': digest of the first outcome} for the whole workload."""
    tmpdir = tempfile.mkdtemp(prefix='c14_')
    saved = {}
    if clock != 'normal':
        fake = _Clock(clock)
        for nm in ('time', 'monotonic', 'perf_counter'):
            saved[nm] = getattr(_time_mod, nm)
            setattr(_time_mod, nm, fake)
    out = {}
    try:
        items, _ = enumerate_callables()
        for it in items:
            if only is not None and it.key not in only:
                continue
            for vi in range(min(nvar, n_variants(it))):
                try:
                    recv, args, _ = prepare(it, seed, vi, tmpdir, warm)
                except Skip:
                    continue
                except Exception as e:
                    out['%s/%d' % (it.key, vi)] = 'prepare:' + type(e).__name__
                    continue
                out['%s/%d' % (it.key, vi)] = digest(outcome(it, recv, args, tmpdir))
    finally:
        for nm, f in saved.items():
            setattr(_time_mod, nm, f)
        shutil.rmtree(tmpdir, ignore_errors=True)
    return out


CHILD_MODES = [('0', 'normal'), ('1', 'normal'), ('2', 'normal'), ('random', 'normal'),
               ('0', 'decreasing'), ('0', 'constant')]


def compare_children(base, children, items_by_key):
    """Failures from digests that differ: the normal-clock children (PYTHONHASHSEED 0, 1, 2,
    random) against the parent; the patched-clock children against the child that ran with
    the same hash seed and the real clock."""
    fails, errors = [], []
    ref0 = children.get(('0', 'normal'))
    for mode, dg in sorted(children.items()):
        if not isinstance(dg, dict):
            errors.append('%s/%s: %s' % (mode[0], mode[1], dg))
            continue
        if mode[1] != 'normal':
            ref = ref0 if isinstance(ref0, dict) else base
        else:
            ref = base
        for k in sorted(ref):
            if k in dg and dg[k] != ref[k]:
                key, vi = k.rsplit('/', 1)
                it = items_by_key.get(key)
                sk = it.sigkey if it is not None else key
                if mode[1] != 'normal':
                    tail = 'result depends on the wall clock'
                    what = '%s variant %s: digest %s with the real clock, %s with a %s ' \
                           'time.time() (same PYTHONHASHSEED)' % (key, vi, ref[k], dg[k], mode[1])
                else:
                    tail = 'result depends on PYTHONHASHSEED'
                    what = '%s variant %s: digest %s in the parent process, %s in a process ' \
                           'with PYTHONHASHSEED=%s' % (key, vi, ref[k], dg[k], mode[0])
                fails.append((sk, tail, what, key, int(vi), mode))
    return fails, errors


# ------------------------------------------------------------------ driver
def run(ctx):
    seed = ctx.seed
    thorough = ctx.tier == 'thorough' or bool(getattr(ctx, 'broken', None))
    t0 = _REAL_TIME()
    deadline = min(getattr(ctx, 'deadline', t0 + 3600), t0 + (660 if thorough else 40))
    rounds = 400 if thorough else 2        # each round = every callable x every variant
    child_rounds = 6 if thorough else 1    # rounds whose digests are recomputed in children
    child_nvar = 8
    items, classes = enumerate_callables()
    items_by_key = dict((it.key, it) for it in items)
    # the sub-processes run while the parent does the purity pass
    tmpdir = tempfile.mkdtemp(prefix='c14_')
    pkg_parent = os.path.dirname(os.path.dirname(os.path.abspath(ladybug_geometry.__file__)))
    child_handle = None
    evaluations = 0
    nontrivial = set()
    best = {}
    status = {}             # key -> set of statuses
    skipped = {}
    base_digests = {}
    hist = {'kind': {}, 'status': {}, 'per_class': {}, 'raises': {}, 'result_kind': {},
            'child_digests_compared': {}}
    n_compared = 0
    samples = []
    truncated = False

    def record(sig, what, it, vi, rseed, extra=None):
        cur = best.get(sig)
        if cur is not None:
            cur['count'] += 1
            return
        f = {'signature': sig, 'what': what, 'key': it.key, 'variant': vi, 'seed': rseed,
             'count': 1}
        f.update(extra or {})
        best[sig] = f
    try:
        for rnd in range(rounds):
            rseed = seed if rnd == 0 else '%s.%d' % (seed, rnd)
            if _REAL_TIME() > deadline - (3 if rnd else 0):
                truncated = True
                break
            base_digests = {}
            if rnd < child_rounds:
                child_handle = _ChildRun(rseed, child_nvar, None, rnd % 2 == 1)
            for it in items:
                nv = n_variants(it)
                for vi in range(nv):
                    if _REAL_TIME() > deadline:
                        truncated = True
                        break
                    reads = thorough or vi < 2
                    try:
                        st, r1, vname, fails = check_item(it, rseed, vi, tmpdir, reads,
                                                            rnd % 2 == 1)
                    except Exception as e:        # harness trouble: never crash
                        st, r1, vname, fails = 'harness-error', None, '-', []
                        hist['status']['harness-error:%s' % type(e).__name__] = \
                            hist['status'].get('harness-error:%s' % type(e).__name__, 0) + 1
                    if st.startswith('skip:'):
                        skipped[it.key] = st[5:]
                        break
                    evaluations += 1
                    status.setdefault(it.key, set()).add(st)
                    hist['status'][st] = hist['status'].get(st, 0) + 1
                    hist['kind'][it.kind] = hist['kind'].get(it.kind, 0) + 1
                    cn = it.cls.__name__ if it.cls is not None else it.defcls
                    hist['per_class'][cn] = hist['per_class'].get(cn, 0) + 1
                    if st == 'raise':
                        k = '%s:%s' % (it.key, r1[1])
                        hist['raises'][k] = hist['raises'].get(k, 0) + 1
                    if r1 is not None:
                        rk = result_kind(r1)
                        hist['result_kind'][rk] = hist['result_kind'].get(rk, 0) + 1
                        if rnd < child_rounds and vi < child_nvar:
                            base_digests['%s/%d' % (it.key, vi)] = digest(r1)
                        if st == 'ok' and (it.params or it.kind == 'property'):
                            nontrivial.add((it.key, vi, rnd))
                    if len(samples) < 6 and st == 'ok' and it.params and vi == 1:
                        samples.append({'callable': it.key, 'variant': vname,
                                        'parameters': [p.name for p in it.params],
                                        'result': short(r1, 200)})
                    for tail, what in fails:
                        record('%s|%s' % (it.sigkey, tail), what, it, vi, rseed,
                               {'warm': rnd % 2 == 1})
                if truncated:
                    break
            # ---- hash seeds and clocks for this round
            if child_handle is not None and not truncated:
                children = child_handle.wait(600.0 if thorough else 180.0)
                cf, child_errors = compare_children(base_digests, children, items_by_key)
                for mode, dg in children.items():
                    if isinstance(dg, dict):
                        k = 'PYTHONHASHSEED=%s,clock=%s' % mode
                        hist['child_digests_compared'][k] = \
                            hist['child_digests_compared'].get(k, 0) + \
                            len([1 for kk in base_digests if kk in dg])
                for sk, tail, what, key, vi, mode in cf:
                    record('%s|%s' % (sk, tail), what, items_by_key[key], vi, rseed,
                           {'child_mode': list(mode), 'warm': rnd % 2 == 1})
                for e in child_errors:
                    best['harness|sub-process workload failed|' + e[:40]] = {
                        'signature': 'harness|sub-process workload failed', 'what': e,
                        'key': '-', 'variant': 0, 'seed': rseed, 'count': 1}
                n_compared += len(base_digests)
            if child_handle is not None:
                child_handle.kill()
                child_handle = None
            if truncated:
                break
    finally:
        if child_handle is not None:
            child_handle.kill()
        shutil.rmtree(tmpdir, ignore_errors=True)
    covered = sorted(k for k, s in status.items() if 'ok' in s)
    only_raise = sorted(k for k, s in status.items() if 'ok' not in s)
    unique = {}
    for it in items:
        unique.setdefault(it.sigkey, []).append(it.key)
    cov_unique = set(items_by_key[k].sigkey for k in covered)
    hist['coverage'] = {
        'classes': len(classes),
        'callables_enumerated (class x member, inherited included)': len(items),
        'distinct definitions': len(unique),
        'covered (returned a value at least once)': len(covered),
        'distinct definitions covered': len(cov_unique),
        'called but always raised': len(only_raise),
        'skipped (no generator / no receiver)': len(skipped),
        'results compared across hash seeds / clocks': n_compared,
        'truncated by the time budget': truncated,
    }
    hist['always_raised'] = only_raise[:80]
    hist['skipped'] = dict(sorted(skipped.items())[:120])
    return {
        'evaluations': evaluations,
        'distinct_nontrivial': len(nontrivial),
        'rule': 'every public callable found by introspection x every receiver variant '
                '(convex / concave / clockwise / holes / grid ...) with arguments generated '
                'near the receiver; per call: value snapshot before / after, repeat, twin, '
                'public reads; plus a digest of all first results in 6 sub-processes '
                '(PYTHONHASHSEED 0, 1, 2, random; decreasing and constant clock).  '
                'Non-trivial = the call takes arguments or reads a property and returned a '
                'value (did not raise)',
        'samples': samples,
        'failures': [best[k] for k in sorted(best)],
        'extra': {'histograms': hist},
    }


def result_kind(r):
    if r[0] == 'raise':
        return 'raises'
    v = r[1]
    if v is None:
        return 'None'
    if isinstance(v, bool):
        return 'bool'
    if isinstance(v, (int, str)):
        return 'number' if not isinstance(v, str) or v.startswith('f') else 'text'
    if isinstance(v, tuple) and v and v[0] in ('list', 'tuple', 'set', 'view', 'dict'):
        return 'empty collection' if not v[1] else 'collection'
    return 'object'


class _ChildRun(object):
    """The six sub-processes, started early and collected late."""

    def __init__(self, seed, nvar, only=None, warm=False):
        self.procs = []
        pkg_parent = os.path.dirname(os.path.dirname(
            os.path.abspath(ladybug_geometry.__file__)))
        for hs, clock in CHILD_MODES:
            env = dict(os.environ)
            env['PYTHONHASHSEED'] = hs
            cmd = [sys.executable, os.path.abspath(__file__), '--digest', str(seed),
                   str(nvar), clock, pkg_parent, json.dumps(sorted(only)) if only else 'null',
                   '1' if warm else '0']
            try:
                self.procs.append(((hs, clock), subprocess.Popen(
                    cmd, env=env, stdout=subprocess.PIPE, stderr=subprocess.PIPE)))
            except Exception as e:
                self.procs.append(((hs, clock), 'spawn: %s' % e))

    def wait(self, timeout):
        res = {}
        t_end = _REAL_TIME() + timeout
        for mode, p in self.procs:
            if isinstance(p, str):
                res[mode] = p
                continue
            try:
                so, se = p.communicate(timeout=max(1.0, t_end - _REAL_TIME()))
                if p.returncode != 0:
                    res[mode] = 'exit %s: %s' % (p.returncode,
                                                 se.decode('utf-8', 'replace')[-400:])
                else:
                    res[mode] = json.loads(so.decode('utf-8').strip().splitlines()[-1])
            except subprocess.TimeoutExpired:
                p.kill()
                res[mode] = 'timeout'
            except Exception as e:
                res[mode] = 'error %s: %s' % (type(e).__name__, str(e)[:200])
        return res

    def kill(self):
        for _, p in self.procs:
            if not isinstance(p, str) and p.poll() is None:
                try:
                    p.kill()
                except Exception:
                    pass


def replay(ctx, fl):
    items, _ = enumerate_callables()
    by_key = dict((it.key, it) for it in items)
    it = by_key.get(fl.get('key'))
    if it is None:
        return None
    sig = fl['signature']
    if 'child_mode' in fl:
        w = bool(fl.get('warm'))
        base = workload_digests(fl['seed'], fl['variant'] + 1, 'normal', [it.key], w)
        ch = _ChildRun(fl['seed'], fl['variant'] + 1, [it.key], w)
        try:
            cf, _ = compare_children(base, ch.wait(300), by_key)
        finally:
            ch.kill()
        for sk, tail, what, key, vi, mode in cf:
            if '%s|%s' % (sk, tail) == sig:
                out = dict(fl)
                out['what'] = what
                return out
        return None
    tmpdir = tempfile.mkdtemp(prefix='c14_')
    try:
        _, _, _, fails = check_item(it, fl['seed'], fl['variant'], tmpdir, True,
                                    bool(fl.get('warm')))
    finally:
        shutil.rmtree(tmpdir, ignore_errors=True)
    for tail, what in fails:
        if '%s|%s' % (it.sigkey, tail) == sig:
            out = dict(fl)
            out['what'] = what
            return out
    return None


def _child_main(argv):
    seed, nvar, clock, pkg_parent, only = argv[0], int(argv[1]), argv[2], argv[3], \
        json.loads(argv[4])
    try:
        seed = int(seed)
    except ValueError:
        pass
    warm = len(argv) > 5 and argv[5] == '1'
    out = workload_digests(seed, nvar, clock, only, warm)
    sys.stdout.write('\n' + json.dumps(out) + '\n')


if __name__ == '__main__':
    if len(sys.argv) > 1 and sys.argv[1] == '--digest':
        _child_main(sys.argv[2:])
