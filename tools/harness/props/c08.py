"""C08 — point containment agrees with exact winding-number containment.

Property oracle on the REAL code.  The truth comes from the Lean specification Spec/Contain
(crossing number with the half-open rule, winding number by signed crossings and by the
quadrant walk, exact squared distance to the boundary — all over Q, none of it mirrors the
implementation's ray); validity of an input / query (simple loops, gaps, margin from the
boundary, general position of the test ray) is decided exactly in Python.

Four kinds of cases:
  polygon : Polygon2D.is_point_inside / is_point_inside_check / is_point_inside_bound_rect
            (default ray and random test vectors), distance_to_point, point_relationship
            (exactly on vertices / edges, 0.5 tol beside an edge, beyond tol);
  face    : Face3D.is_point_on_face for points in / off the plane of faces with holes;
  solid   : Polyface3D.is_point_inside (default and random test vectors) for closed prisms,
            oblique prisms, pyramids, boxes in rigid placement and shuffled presentation;
  pair    : polygon_relationship, does_polygon_touch, is_polygon_inside, is_polygon_outside
            for lattice polygons whose regions are cell sets (nested, disjoint, overlapping,
            edge- and corner-sharing, identical, enclosing), also under a common rotation.
"""
import math
import random
import time
from fractions import Fraction

from ladybug_geometry.geometry2d.pointvector import Point2D, Vector2D
from ladybug_geometry.geometry3d.pointvector import Point3D, Vector3D
from ladybug_geometry.geometry2d.polygon import Polygon2D
from ladybug_geometry.geometry3d.face import Face3D
from ladybug_geometry.geometry3d.polyface import Polyface3D

from props import _h0708 as H
from props import c07 as C7

F = Fraction
MARGIN = F(1, 10 ** 6)          # queries stay at least this far from the boundary
RAY_REL = 1e-9                  # a test ray must miss every vertex by this (relative)
REL = 1e-9

ASSUMPTIONS = [
    'valid inputs: simple loops (exact test), 3..60 vertices, |c| <= 1e4, every edge and gap '
    '>= 1e-3, holes strictly inside and disjoint; tolerance 1e-3..1e-2',
    'inside/outside answers are required only for query points certified (exactly) to be '
    '>= 1e-6 from every edge, and only when the test ray used (default (1, 1e-5), the axis '
    'rays of is_point_inside_check, or the given test vector) misses every vertex by more '
    'than 1e-9 * coordinate magnitude — the documented fringe cases of is_point_inside',
    'point_relationship: 0 is required when the exact distance is <= tol (1 - 1e-6), the exact '
    'side when it is >= tol (1 + 1e-6); nothing is required in between',
    'solids: query at least 1e-5 from the boundary surface; the 3D ray stays 1e-6 (relative) '
    'from every edge, is transversal (|cos| >= 1e-3) to every face plane it can reach, and '
    'the 2D ray used inside each face misses the face vertices by 1e-9',
    'polygon pairs are lattice polygons (cells >= 0.25 >> tolerance), as given or under a '
    'common rotation (rounded); is_polygon_inside / is_polygon_outside are only questioned for '
    'strictly nested / strictly separated pairs (a polygon enclosing this one is not asked)',
    'is_point_inside_check is only questioned when both axis rays are in general position '
    '(its documented improvement on vertex hits is not part of the property)',
]
TRUSTED = [
    'C08: Lean specification Spec/Contain run by the driver; cell sets of lattice polygons are '
    're-derived from the polygons by Spec/Contain at the cell centres; exact validity '
    'predicates and the prism / pyramid projection in props/_h0708.py (Fractions)',
]


def fl(x):
    return float(x)


def w2(p):
    return [H.wn(F(p[0])), H.wn(F(p[1]))]


def loops_wire(loops):
    return [[w2(p) for p in lp] for lp in loops]


def scale_of(loops):
    return max([1.0] + [abs(float(c)) for lp in loops for p in lp for c in p])


def mk_fail(kind, inp, query, site, verdict, what, **kw):
    d = {'signature': '%s|%s' % (site, verdict), 'what': what, 'kind': kind, 'input': inp,
         'query': query, 'site': site, 'verdict': verdict}
    d.update(kw)
    return d


def guarded(fn, *a):
    try:
        return ('ok', fn(*a))
    except Exception as e:      # noqa: E722
        return ('err', type(e).__name__ + ': ' + str(e)[:120])


# ====================================================================== polygon cases
POLY_KINDS = ['star', 'spiky', 'convex', 'polyomino', 'L', 'comb']


def gen_polygon_input(rng, big=False):
    for _ in range(60):
        kind = rng.choice(POLY_KINDS)
        n = rng.choice([3, 4, 5, 6, 8, 10, 12, 16, 24, 36, 48, 60])
        if kind == 'star':
            loops = H.gen_star(rng, n, 1.0, 4.0)
        elif kind == 'spiky':
            loops = H.gen_star(rng, n + (n % 2), 0.6, 4.0, spiky=True)
        elif kind == 'convex':
            loops = H.gen_convex(rng, n)
        elif kind == 'polyomino':
            w, h = rng.randint(2, 8), rng.randint(2, 8)
            cells, loops = H.gen_polyomino(rng, rng.randint(2, w * h), w, h,
                                           keep_colinear=rng.random() < 0.2)
            if loops is None or len(loops[0]) > 60:
                continue
            loops = [[(float(x), float(y)) for (x, y) in loops[0]]]
        elif kind == 'L':
            a, b = rng.uniform(1, 5), rng.uniform(1, 5)
            c, d = rng.uniform(0.1, a - 0.1), rng.uniform(0.1, b - 0.1)
            loops = [[(0, 0), (a, 0), (a, d), (c, d), (c, b), (0, b)]]
        else:   # comb: teeth of random widths — many collinear / aligned edges
            k = rng.randint(2, 9)
            x = 0.0
            top = []
            for i in range(k):
                wt, gap, ht = rng.uniform(0.2, 1), rng.uniform(0.2, 1), rng.uniform(0.5, 3)
                top += [(x, 1.0 + ht), (x + wt, 1.0 + ht), (x + wt, 1.0), (x + wt + gap, 1.0)]
                x += wt + gap
            top = top[:-1]
            loops = [[(0.0, 0.0)] + [(top[-1][0], 0.0)] + list(reversed(top))]
        # placement
        mode = rng.random()
        if mode < 0.25 and kind in ('polyomino', 'L', 'comb'):
            ang, sx, tx, ty = 0.0, rng.choice([1.0, 0.5, 0.25, 2.0]), \
                float(rng.randint(-8, 8)), float(rng.randint(-8, 8))
        else:
            ang = rng.uniform(0, 2 * math.pi)
            sx = rng.choice([1.0, rng.uniform(0.02, 1.0), rng.uniform(1.0, 200.0)])
            m = rng.choice([0.0, 10.0, 1000.0, 9000.0]) if big or rng.random() < 0.3 else 10.0
            tx, ty = rng.uniform(-m, m), rng.uniform(-m, m)
        loops = H.transform2(loops, ang, sx, sx, tx, ty)
        lp = loops[0]
        if rng.random() < 0.5:
            lp = list(reversed(lp))
        lp = H.rotate_start(lp, rng.randrange(len(lp)))
        if max(abs(c) for p in lp for c in p) > 1e4:
            continue
        if H.valid_loops([lp], 1e-3) is None:
            continue
        tol = rng.choice([1e-3, 1e-2, rng.uniform(1e-3, 1e-2)])
        return {'kind': 'polygon', 'label': kind, 'verts': [[H.hx(p[0]), H.hx(p[1])] for p in lp],
                'tol': H.hx(tol)}
    return None


def rand_dir2(rng):
    k = rng.random()
    if k < 0.15:
        return rng.choice([(1.0, 0.0), (0.0, 1.0), (-1.0, 0.0), (0.0, -1.0), (1.0, 1.0)])
    a = rng.uniform(0, 2 * math.pi)
    m = rng.choice([1.0, 1.0, 0.01, 50.0])
    return (m * math.cos(a), m * math.sin(a))


def gen_polygon_queries(rng, inp, n_uniform=10):
    lp = [(H.unhx(x), H.unhx(y)) for (x, y) in inp['verts']]
    tol = H.unhx(inp['tol'])
    xs, ys = [p[0] for p in lp], [p[1] for p in lp]
    cx, cy = (min(xs) + max(xs)) / 2, (min(ys) + max(ys)) / 2
    hw, hh = (max(xs) - min(xs)) * 0.75, (max(ys) - min(ys)) * 0.75
    qs = []

    def add(p, qk):
        qs.append({'p': [H.hx(float(p[0])), H.hx(float(p[1]))], 'qk': qk,
                   'dirs': [[H.hx(c) for c in rand_dir2(rng)] for _ in range(2)]})
    for _ in range(n_uniform):
        add((rng.uniform(cx - hw, cx + hw), rng.uniform(cy - hh, cy + hh)), 'uniform')
    n = len(lp)
    for _ in range(4):      # close to an edge, either side
        i = rng.randrange(n)
        a, b = lp[i], lp[(i + 1) % n]
        t = rng.uniform(0.02, 0.98)
        ex, ey = b[0] - a[0], b[1] - a[1]
        ln = math.hypot(ex, ey)
        d = rng.choice([-1, 1]) * rng.choice([2e-6, 1e-5, 1e-4, 1.5 * tol, 3 * tol])
        add((a[0] + t * ex - d * ey / ln, a[1] + t * ey + d * ex / ln), 'near')
    for _ in range(3):      # axis-aligned with a vertex: rays (1,0) / (0,1) pass through it
        v = rng.choice(lp)
        if rng.random() < 0.5:
            add((rng.uniform(cx - hw, cx + hw), v[1]), 'aligned')
        else:
            add((v[0], rng.uniform(cy - hh, cy + hh)), 'aligned')
    # on the boundary and half a tolerance beside it
    v = rng.choice(lp)
    add(v, 'on-vertex')
    for _ in range(2):
        i = rng.randrange(n)
        a, b = lp[i], lp[(i + 1) % n]
        t = rng.choice([0.5, 0.25, rng.uniform(0, 1)])
        add((a[0] + t * (b[0] - a[0]), a[1] + t * (b[1] - a[1])), 'on-edge')
    for _ in range(3):
        i = rng.randrange(n)
        a, b = lp[i], lp[(i + 1) % n]
        t = rng.uniform(0, 1)
        ex, ey = b[0] - a[0], b[1] - a[1]
        ln = math.hypot(ex, ey)
        d = rng.choice([-1, 1]) * 0.5 * tol
        add((a[0] + t * ex - d * ey / ln, a[1] + t * ey + d * ex / ln), 'half-tol')
    return qs


def prepare_polygon(inp, queries):
    lp = [(H.unhx(x), H.unhx(y)) for (x, y) in inp['verts']]
    pts = [[H.wn(F(H.unhx(q['p'][0]))), H.wn(F(H.unhx(q['p'][1])))] for q in queries]
    return [('spec.contain', [loops_wire([lp]), pts])]


def ray_ok(geom, p, v, scale):
    return geom.line_vertex_clear_sq(p, v) > F(RAY_REL * scale) ** 2


def judge_polygon(inp, queries, ans, stats):
    out = []
    ok, val = ans[0]
    if not ok:
        raise RuntimeError('specification call failed: %s' % (val,))
    lp = [(H.unhx(x), H.unhx(y)) for (x, y) in inp['verts']]
    tol = H.unhx(inp['tol'])
    scale = scale_of([lp])
    geom = H.IGeom([lp])
    st, poly = guarded(lambda: Polygon2D([Point2D(*p) for p in lp]))
    if st != 'ok':
        return [mk_fail('polygon', inp, None, 'Polygon2D', 'raises', 'Polygon2D(...) raised ' + poly)]

    def bump(k):
        stats[k] = stats.get(k, 0) + 1
    for q, a in zip(queries, val):
        cls, wind, consistent, dsq = a[0], a[1], a[2], F(a[3])
        if not consistent:
            bump('oracle_inconsistent')
            continue
        p = (H.unhx(q['p'][0]), H.unhx(q['p'][1]))
        pt = Point2D(*p)
        dist = math.sqrt(float(dsq))
        desc = '%s %d-gon, tol %g, point (%r, %r) [%s], exact class %+d, exact distance %.6g' % (
            inp['label'], len(lp), tol, p[0], p[1], q['qk'], cls, dist)

        def check(site, verdict_fmt, got, exp):
            bump('checks')
            if got[0] != 'ok':
                out.append(mk_fail('polygon', inp, q, site, 'raises ' + got[1].split(':')[0],
                                   '%s raised %s; %s' % (site, got[1], desc)))
            elif got[1] != exp or type(got[1]) is not type(exp):
                out.append(mk_fail('polygon', inp, q, site, verdict_fmt % (exp, got[1]),
                                   '%s = %r, expected %r; %s' % (site, got[1], exp, desc)))
        # --- point_relationship near / on the boundary
        if dsq <= (F(tol) * (1 - F(1, 10 ** 6))) ** 2:
            bump('rel_on_edge')
            check('Polygon2D.point_relationship', 'within tol: expected %r got %r',
                  guarded(poly.point_relationship, pt, tol), 0)
        if dsq < MARGIN ** 2:
            continue
        inside = cls == 1
        bump('inside' if inside else 'outside')
        default_ok = ray_ok(geom, p, (F(1), F(0.00001)), scale)
        if default_ok:
            check('Polygon2D.is_point_inside', 'expected %r got %r',
                  guarded(poly.is_point_inside, pt), inside)
            check('Polygon2D.is_point_inside_bound_rect', 'expected %r got %r',
                  guarded(poly.is_point_inside_bound_rect, pt), inside)
            g = guarded(poly.distance_to_point, pt)
            bump('checks')
            if g[0] != 'ok':
                out.append(mk_fail('polygon', inp, q, 'Polygon2D.distance_to_point', 'raises',
                                   'distance_to_point raised %s; %s' % (g[1], desc)))
            elif inside and g[1] != 0:
                out.append(mk_fail('polygon', inp, q, 'Polygon2D.distance_to_point',
                                   'inside but not zero',
                                   'distance_to_point = %r for an inside point; %s' % (g[1], desc)))
            elif not inside and not (isinstance(g[1], float) and
                                     abs(g[1] - dist) <= REL * scale):
                out.append(mk_fail('polygon', inp, q, 'Polygon2D.distance_to_point',
                                   'outside: wrong distance',
                                   'distance_to_point = %r, exact %.12g; %s' % (g[1], dist, desc)))
            if dsq >= (F(tol) * (1 + F(1, 10 ** 6))) ** 2:
                bump('rel_side')
                check('Polygon2D.point_relationship', 'beyond tol: expected %r got %r',
                      guarded(poly.point_relationship, pt, tol), 1 if inside else -1)
        else:
            bump('default_ray_not_general')
        if ray_ok(geom, p, (F(1), F(0)), scale) and ray_ok(geom, p, (F(0), F(1)), scale):
            check('Polygon2D.is_point_inside_check', 'expected %r got %r',
                  guarded(poly.is_point_inside_check, pt), inside)
        else:
            bump('axis_ray_not_general')
        for dv in q['dirs']:
            v = (H.unhx(dv[0]), H.unhx(dv[1]))
            if not ray_ok(geom, p, (F(v[0]), F(v[1])), scale):
                bump('test_vector_not_general')
                continue
            bump('test_vectors')
            vec = Vector2D(*v)
            check('Polygon2D.is_point_inside(test_vector)', 'expected %r got %r',
                  guarded(poly.is_point_inside, pt, vec), inside)
            check('Polygon2D.is_point_inside_bound_rect(test_vector)', 'expected %r got %r',
                  guarded(poly.is_point_inside_bound_rect, pt, vec), inside)
    return out


# ====================================================================== face cases
def gen_face_input(rng):
    for _ in range(30):
        bk = rng.choice(['star', 'convex', 'polyomino', 'polyomino_holes', 'ring', 'L', 'spiky'])
        loops = H.gen_base(rng, bk, rng.choice([4, 5, 6, 8, 12, 20]))
        if loops is None:
            continue
        loops = H.orient_region(loops)
        pres = {'flip': rng.random() < 0.5, 'starts': [rng.randrange(len(lp)) for lp in loops],
                'hflip': [rng.random() < 0.5 for _ in loops[1:]]}
        rigid = H.rand_rigid(rng, big=rng.random() < 0.1)
        return {'kind': 'face', 'label': bk, 'loops': loops_wire(loops),
                'z0': H.wn(F(rng.choice([0, 1, -2.5]))), 'rigid': rigid.to_json(),
                'tol': H.hx(rng.choice([1e-3, 1e-2, rng.uniform(1e-3, 1e-2)])), 'pres': pres}
    return None


def gen_face_queries(rng, inp, n=10):
    loops = [[(F(x), F(y)) for (x, y) in lp] for lp in inp['loops']]
    tol = H.unhx(inp['tol'])
    xs = [float(p[0]) for p in loops[0]]
    ys = [float(p[1]) for p in loops[0]]
    cx, cy = (min(xs) + max(xs)) / 2, (min(ys) + max(ys)) / 2
    hw, hh = (max(xs) - min(xs)) * 0.75, (max(ys) - min(ys)) * 0.75
    qs = []
    for _ in range(n):
        dz = rng.choice([0.0, 0.0, 0.0, 0.5 * tol, -0.5 * tol, 2 * tol, -3 * tol])
        qs.append({'q': [H.wn(F(rng.uniform(cx - hw, cx + hw))),
                         H.wn(F(rng.uniform(cy - hh, cy + hh)))], 'dz': H.hx(dz)})
    # inside the holes on purpose
    for hl in loops[1:]:
        ip = H.interior_point_2d([hl])
        qs.append({'q': [H.wn(ip[0]), H.wn(ip[1])], 'dz': H.hx(0.0)})
    return qs


def build_face(inp):
    loops = [[(F(x), F(y)) for (x, y) in lp] for lp in inp['loops']]
    rigid = H.Rigid.from_json(inp['rigid'])
    z0 = F(inp['z0'])
    pres = inp['pres']
    pts = []
    for li, lp in enumerate(loops):
        lp = H.rotate_start(lp, pres['starts'][li])
        if pres['flip']:
            lp = list(reversed(lp))
        if li > 0 and pres['hflip'][li - 1]:
            lp = list(reversed(lp))
        pts.append([Point3D(*H.fl3(rigid.apply((p[0], p[1], z0)))) for p in lp])
    return Face3D(pts[0], None, pts[1:] if len(pts) > 1 else None), rigid, z0, loops


def prepare_face(inp, queries):
    pts = [[q['q'][0], q['q'][1]] for q in queries]
    return [('spec.contain', [inp['loops'], pts])]


def judge_face(inp, queries, ans, stats):
    out = []
    ok, val = ans[0]
    if not ok:
        raise RuntimeError('specification call failed: %s' % (val,))
    tol = H.unhx(inp['tol'])
    st, built = guarded(build_face, inp)
    if st != 'ok':
        return [mk_fail('face', inp, None, 'Face3D', 'raises', 'Face3D(...) raised ' + built)]
    face, rigid, z0, loops = built
    try:
        poly2 = [tuple(v) for v in face.polygon2d.vertices]
        g2 = H.IGeom([poly2])
        scale2 = scale_of([poly2])
    except Exception as e:      # noqa: E722
        return [mk_fail('face', inp, None, 'Face3D.polygon2d', 'raises',
                        'Face3D.polygon2d raised %s' % type(e).__name__)]

    def bump(k):
        stats[k] = stats.get(k, 0) + 1
    for q, a in zip(queries, val):
        cls, consistent, dsq = a[0], a[2], F(a[3])
        if not consistent:
            bump('oracle_inconsistent')
            continue
        dz = H.unhx(q['dz'])
        qm = (F(q['q'][0]), F(q['q'][1]), z0 + F(dz))
        pw = Point3D(*H.fl3(rigid.apply(qm)))
        if abs(dz) >= 1.5 * tol:
            exp = False
            why = 'point %.3g off the plane (tol %g)' % (dz, tol)
        else:
            if dsq < (MARGIN * 10) ** 2:
                bump('too_close')
                continue
            # general position of the implementation's 2D ray in the face's own frame
            p2 = tuple(face.plane.xyz_to_xy(pw))
            if not ray_ok(g2, p2, (F(1), F(0.00001)), scale2):
                bump('default_ray_not_general')
                continue
            exp = cls == 1
            why = 'point in the plane (dz %.3g, tol %g), exact class %+d, %.3g from the ' \
                'boundary' % (dz, tol, cls, math.sqrt(float(dsq)))
        bump('checks')
        bump('expect_' + str(exp))
        g = guarded(face.is_point_on_face, pw, tol)
        if g[0] != 'ok':
            out.append(mk_fail('face', inp, q, 'Face3D.is_point_on_face', 'raises',
                               'is_point_on_face raised %s; %s' % (g[1], why)))
        elif g[1] is not exp:
            out.append(mk_fail('face', inp, q, 'Face3D.is_point_on_face',
                               'expected %r got %r' % (exp, g[1]),
                               'Face3D.is_point_on_face = %r, expected %r: %s face with %d holes, '
                               '%s' % (g[1], exp, inp['label'], len(loops) - 1, why)))
    return out


# ====================================================================== solid cases
def gen_solid_input(rng):
    for _ in range(30):
        sp = C7.random_solid_spec(rng, small=rng.random() < 0.4)
        if sp is None:
            continue
        solid = C7.solid_from_spec(sp)
        if len(solid.mfaces) > 40:
            continue
        rigid = H.rand_rigid(rng, big=rng.random() < 0.1)
        case = {'solid': sp, 'rigid': rigid.to_json(), 'tol': rng.choice([1e-3, 1e-2]),
                'removed': [], 'dups': [], 'closed': True, 'site': 'Polyface3D.from_faces',
                'variant': 'closed', 'pres': C7.random_presentation(rng, solid)}
        # the factories pre-build their faces (with their own planes): containment must hold for
        # solids made by them as well
        if sp['kind'] == 'prism' and sp['base_kind'] == 'box' and rng.random() < 0.7:
            case.update({'site': 'Polyface3D.from_box', 'pres': []})
        return {'kind': 'solid', 'label': sp['kind'] + '/' + sp['base_kind'] + '/' +
                case['site'].split('.')[-1], 'case': case}
    return None


def rand_dir3(rng):
    k = rng.random()
    if k < 0.2:
        return rng.choice([(1.0, 0.0, 0.0), (0.0, 1.0, 0.0), (0.0, 0.0, 1.0), (-1.0, 0.0, 0.0),
                           (0.0, 0.0, -1.0), (1.0, 1.0, 0.0)])
    while True:
        v = (rng.gauss(0, 1), rng.gauss(0, 1), rng.gauss(0, 1))
        m = math.sqrt(sum(c * c for c in v))
        if m > 0.1:
            s = rng.choice([1.0, 1.0, 0.05, 20.0])
            return tuple(c / m * s for c in v)


def gen_solid_queries(rng, inp, n=8):
    solid = C7.solid_from_spec(inp['case']['solid'])
    xs = [float(v[0]) for v in solid.mverts]
    ys = [float(v[1]) for v in solid.mverts]
    zs = [float(v[2]) for v in solid.mverts]
    lo = [min(xs), min(ys), min(zs)]
    hi = [max(xs), max(ys), max(zs)]
    qs = []
    for k in range(n):
        q = []
        for j in range(3):
            c, h = (lo[j] + hi[j]) / 2, (hi[j] - lo[j]) * (0.75 if k % 2 else 0.5)
            q.append(F(rng.uniform(c - h, c + h)))
        qs.append({'q': [H.wn(c) for c in q],
                   'dirs': [[H.hx(c) for c in rand_dir3(rng)] for _ in range(2)]})
    return qs


def prepare_solid(inp, queries):
    solid = C7.solid_from_spec(inp['case']['solid'])
    pts = []
    for q in queries:
        qm = tuple(F(c) for c in q['q'])
        p2, _st = solid.project(qm)
        pts.append([H.wn(p2[0]), H.wn(p2[1])])
    return [('spec.contain', [loops_wire(solid.base), pts])]


def ray3_general(faces_geo, p, v, scale, diam):
    """Exact certificate that the ray p + t v is in general position with respect to the
    faces: clear of every edge, transversal to (or far from) every face plane, and the 2D
    ray the implementation shoots inside each face it reaches is clear of the face vertices."""
    vv = H.vdot(v, v)
    far = H.vadd(p, H.vmul(v, F(8 * diam / math.sqrt(float(vv)))))
    lim_e = F(1e-6 * scale) ** 2
    lim_v = F(RAY_REL * scale) ** 2
    for (pts, nrm, px, py, loops3) in faces_geo:
        for lp in loops3:
            for i in range(len(lp)):
                if H.seg_seg_dsq3(p, far, lp[i - 1], lp[i]) <= lim_e:
                    return 'edge'
    for (pts, nrm, px, py, loops3) in faces_geo:
        nn = H.vdot(nrm, nrm)
        d = H.vdot(nrm, v)
        hh = H.vdot(nrm, H.vsub(pts[0], p))      # signed, times |nrm|
        # cos^2 of the angle between v and the normal
        if d * d * 1000000 < nn * vv:
            # nearly parallel: the hit (if any) must be far beyond the solid
            if d == 0:
                if hh == 0:
                    return 'in-plane'
                continue
            u = hh / d
            if u >= 0 and u * u * vv <= F(16 * diam * diam):
                return 'grazing'
            continue
        u = hh / d
        if u < 0:
            continue
        x = H.vadd(p, H.vmul(v, u))
        w = H.vadd(px, H.vmul(py, F(0.00001)))
        ww = H.vdot(w, w)
        for q in pts:
            r = H.vsub(q, x)
            if H.vdot(r, w) <= 0:
                if H.vdot(r, r) <= lim_v:
                    return 'inner-vertex'
                continue
            c = H.vcross(r, w)
            if H.vdot(c, c) <= lim_v * ww:
                return 'inner-vertex'
    return None


def judge_solid(inp, queries, ans, stats):
    out = []
    ok, val = ans[0]
    if not ok:
        raise RuntimeError('specification call failed: %s' % (val,))
    case = inp['case']
    solid = C7.solid_from_spec(case['solid'])
    rigid = H.Rigid.from_json(case['rigid'])

    def bump(k):
        stats[k] = stats.get(k, 0) + 1
    try:
        wverts = [H.fl3(rigid.apply(v)) for v in solid.mverts]
        if case['site'] == 'Polyface3D.from_box':
            ex, _rq = C7.execute_polyface(case)
            if _rq is None:
                raise RuntimeError(ex[0]['what'])
            pf = ex['pf']
        else:
            faces = C7.build_faces(case, solid, wverts)
            pf = Polyface3D.from_faces(faces, case['tol'])
        pfaces = pf.faces
        solid_flag = pf.is_solid
    except Exception as e:      # noqa: E722
        return [mk_fail('solid', inp, None, 'Polyface3D.from_faces', 'raises ' + type(e).__name__,
                        'from_faces raised %s: %s' % (type(e).__name__, str(e)[:150]))]
    if not solid_flag:
        bump('not_solid')       # C07's business
        return out
    scale = max([1.0] + [abs(c) for v in wverts for c in v])
    diam = 1.0 + 2 * math.sqrt(sum((max(v[k] for v in wverts) - min(v[k] for v in wverts)) ** 2
                                   for k in range(3)))
    faces_geo = []
    for f in pfaces:
        pts = [tuple(F(c) for c in tuple(v)) for v in f.vertices]
        loops3 = [[tuple(F(c) for c in tuple(v)) for v in f.boundary]] + \
            [[tuple(F(c) for c in tuple(v)) for v in hl] for hl in (f.holes or ())]
        faces_geo.append((pts, H.newell(loops3[0]), tuple(F(c) for c in tuple(f.plane.x)),
                          tuple(F(c) for c in tuple(f.plane.y)), loops3))
    slope = solid.max_slope()
    for q, a in zip(queries, val):
        c2, consistent, dsq = a[0], a[2], F(a[3])
        if not consistent:
            bump('oracle_inconsistent')
            continue
        qm = tuple(F(c) for c in q['q'])
        _p2, st = solid.project(qm)
        cls = C7._cls3(c2, st)
        # certified clearance from the boundary surface
        cz = min(abs(qm[2] - solid.za), abs(qm[2] - solid.zb))
        if st == -1:
            clear_ok = cz >= MARGIN * 10
        else:
            ls = solid.lateral_scale(qm)
            need = MARGIN * 10 * (1 + slope) * ls
            clear_ok = cz >= MARGIN * 10 and dsq >= need * need
        if cls == 0 or not clear_ok:
            bump('too_close')
            continue
        inside = cls == 1
        pw = H.fl3(rigid.apply(qm))
        pwx = tuple(F(c) for c in pw)
        pt = Point3D(*pw)
        desc = '%s (%d faces), model point (%.6g, %.6g, %.6g), exact class %+d' % (
            inp['label'], len(pfaces), float(qm[0]), float(qm[1]), float(qm[2]), cls)
        tests = [('Polyface3D.is_point_inside', None, (F(1), F(0), F(0)))]
        for dv in q['dirs']:
            v = tuple(H.unhx(c) for c in dv)
            tests.append(('Polyface3D.is_point_inside(test_vector)', v, tuple(F(c) for c in v)))
        for site, v, vx in tests:
            why = ray3_general(faces_geo, pwx, vx, scale, diam)
            if why is not None:
                bump('ray_not_general:' + why)
                continue
            bump('checks')
            bump('inside' if inside else 'outside')
            g = guarded(pf.is_point_inside, pt) if v is None else \
                guarded(pf.is_point_inside, pt, Vector3D(*v))
            if g[0] != 'ok':
                out.append(mk_fail('solid', inp, q, site, 'raises ' + g[1].split(':')[0],
                                   '%s raised %s; %s' % (site, g[1], desc), test_vector=v))
            elif g[1] is not inside:
                out.append(mk_fail('solid', inp, q, site, 'expected %r got %r' % (inside, g[1]),
                                   '%s = %r, expected %r; %s, test vector %r' % (
                                       site, g[1], inside, desc, v), test_vector=v))
    return out


# ====================================================================== polygon pairs
def gen_pair_input(rng):
    for _ in range(100):
        w, h = rng.randint(3, 9), rng.randint(3, 9)
        cfg = rng.choice(['nested', 'nested-strict', 'disjoint', 'disjoint-far', 'adjacent',
                          'overlap', 'identical', 'enclosing', 'bridge', 'cross', 'span', 'span', 'span'])
        if cfg == 'cross':
            # two bars crossing each other: no vertex of either lies in or on the other
            j0 = rng.randint(1, h - 2)
            j1 = rng.randint(j0, h - 2)
            ca = set((i, j) for i in range(w) for j in range(j0, j1 + 1))
            la = H.trace_cells(ca)
        else:
            ca, la = H.gen_polyomino(rng, rng.randint(3, max(3, w * h * 2 // 3)), w, h)
        if la is None:
            continue
        if cfg == 'identical':
            cb = set(ca)
        elif cfg in ('nested', 'nested-strict'):
            within = ca
            if cfg == 'nested-strict':
                within = set(c for c in ca if all((c[0] + dx, c[1] + dy) in ca
                                                  for dx in (-1, 0, 1) for dy in (-1, 0, 1)))
                if not within:
                    # grow A: use a full block with margin
                    ca = set((i, j) for i in range(w) for j in range(h))
                    within = set((i, j) for i in range(1, w - 1) for j in range(1, h - 1))
                    if not within:
                        continue
            cb = H.polyomino_cells(rng, rng.randint(1, max(1, len(within))), w, h,
                                   within=within)
        elif cfg in ('disjoint', 'adjacent', 'disjoint-far'):
            forb = set(ca)
            if cfg == 'disjoint-far':
                forb = set((c[0] + dx, c[1] + dy) for c in ca for dx in (-1, 0, 1)
                           for dy in (-1, 0, 1))
            cb = H.polyomino_cells(rng, rng.randint(1, 10), w + 4, h + 4,
                                   forbidden=set((c[0] + 2, c[1] + 2) for c in forb))
            if cb is None:
                continue
            cb = set((c[0] - 2, c[1] - 2) for c in cb)
        elif cfg == 'enclosing':
            cb = set((i, j) for i in range(-1, w + 1) for j in range(-1, h + 1))
            for _k in range(rng.randint(0, 3)):
                cb.discard(rng.choice([(-1, -1), (w, -1), (-1, h), (w, h)]))
        elif cfg == 'cross':
            i0 = rng.randint(1, w - 2)
            i1 = rng.randint(i0, w - 2)
            cb = set((i, j) for i in range(i0, i1 + 1) for j in range(-1, h + 1))
        elif cfg == 'span':
            # a rectangle whose corners all lie in the closed region of A, which contains no
            # vertex of A in its interior, but covers at least one cell outside A (a notch)
            va = set(la[0])
            i0, i1 = min(c[0] for c in ca), max(c[0] for c in ca)
            j0, j1 = min(c[1] for c in ca), max(c[1] for c in ca)

            def closed_in(v):
                return any((v[0] - dx, v[1] - dy) in ca for dx in (0, 1) for dy in (0, 1))
            cands = []
            for a0 in range(i0, i1 + 1):
                for a1 in range(a0, i1 + 1):
                    for b0 in range(j0, j1 + 1):
                        for b1 in range(b0, j1 + 1):
                            if not all(closed_in(v) for v in ((a0, b0), (a1 + 1, b0),
                                                              (a1 + 1, b1 + 1), (a0, b1 + 1))):
                                continue
                            if any(a0 < v[0] < a1 + 1 and b0 < v[1] < b1 + 1 for v in va):
                                continue
                            cells = set((i, j) for i in range(a0, a1 + 1)
                                        for j in range(b0, b1 + 1))
                            if cells <= ca:
                                continue
                            cands.append(cells)
            if not cands:
                continue
            cb = rng.choice(cands)
        elif cfg == 'bridge':
            # B spans the bounding box rows/columns of A: covers notches of A
            i0, i1 = min(c[0] for c in ca), max(c[0] for c in ca)
            j0, j1 = min(c[1] for c in ca), max(c[1] for c in ca)
            ja, jb = sorted([rng.randint(j0, j1), rng.randint(j0, j1)])
            cb = set((i, j) for i in range(i0, i1 + 1) for j in range(ja, jb + 1))
        else:
            cb = H.polyomino_cells(rng, rng.randint(2, 14), w, h)
        if not cb:
            continue
        lb = H.trace_cells(cb)
        la = H.trace_cells(ca)
        if la is None or lb is None or len(la) != 1 or len(lb) != 1:
            continue
        s = rng.choice([1.0, 0.5, 0.25, 2.0, 3.0])
        off = (float(rng.randint(-20, 20)) * 0.25, float(rng.randint(-20, 20)) * 0.25)
        ang = None if rng.random() < 0.6 else rng.uniform(0, 2 * math.pi)
        return {'kind': 'pair', 'label': cfg, 'cellsA': sorted(map(list, ca)),
                'cellsB': sorted(map(list, cb)), 's': H.hx(s), 'off': [H.hx(off[0]), H.hx(off[1])],
                'ang': None if ang is None else H.hx(ang),
                'tol': H.hx(rng.choice([1e-3, 1e-2, rng.uniform(1e-3, 1e-2)])),
                'pres': [[rng.random() < 0.5, rng.randrange(64)],
                         [rng.random() < 0.5, rng.randrange(64)]]}
    return None


def pair_polys(inp):
    """(lattice loops A, B as Fractions; the float polygons handed to the library)."""
    s = F(H.unhx(inp['s']))
    off = (F(H.unhx(inp['off'][0])), F(H.unhx(inp['off'][1])))
    out_exact, out_float = [], []
    for cells, (rev, start) in zip((inp['cellsA'], inp['cellsB']), inp['pres']):
        lp = H.trace_cells(set(map(tuple, cells)))[0]
        lp = [(off[0] + s * x, off[1] + s * y) for (x, y) in lp]
        if rev:
            lp = list(reversed(lp))
        lp = H.rotate_start(lp, start)
        out_exact.append(lp)
        if inp['ang'] is None:
            out_float.append([(float(x), float(y)) for (x, y) in lp])
        else:
            a = H.unhx(inp['ang'])
            c, sn = math.cos(a), math.sin(a)
            out_float.append([(c * float(x) - sn * float(y), sn * float(x) + c * float(y))
                              for (x, y) in lp])
    return out_exact, out_float


def pair_grid(inp):
    cells = inp['cellsA'] + inp['cellsB']
    i0, i1 = min(c[0] for c in cells) - 1, max(c[0] for c in cells) + 1
    j0, j1 = min(c[1] for c in cells) - 1, max(c[1] for c in cells) + 1
    return [(i, j) for i in range(i0, i1 + 1) for j in range(j0, j1 + 1)]


def prepare_pair(inp, queries):
    exact, _fl = pair_polys(inp)
    s = F(H.unhx(inp['s']))
    off = (F(H.unhx(inp['off'][0])), F(H.unhx(inp['off'][1])))
    grid = pair_grid(inp)
    centres = [[H.wn(off[0] + s * (F(i) + F(1, 2))), H.wn(off[1] + s * (F(j) + F(1, 2)))]
               for (i, j) in grid]
    return [('spec.classify', [loops_wire([exact[0]]), centres]),
            ('spec.classify', [loops_wire([exact[1]]), centres])]


def judge_pair(inp, queries, ans, stats):
    out = []
    for (ok, val) in ans:
        if not ok:
            raise RuntimeError('specification call failed: %s' % (val,))

    def bump(k):
        stats[k] = stats.get(k, 0) + 1
    grid = pair_grid(inp)
    ca = set(c for c, a in zip(grid, ans[0][1]) if a[0] == 1)
    cb = set(c for c, a in zip(grid, ans[1][1]) if a[0] == 1)
    if ca != set(map(tuple, inp['cellsA'])) or cb != set(map(tuple, inp['cellsB'])) or \
            any(a[0] == 0 for a in ans[0][1]) or any(a[0] == 0 for a in ans[1][1]):
        bump('generator_cells_mismatch')
        return out
    tol = H.unhx(inp['tol'])
    _exact, fls = pair_polys(inp)
    try:
        pa = Polygon2D([Point2D(*p) for p in fls[0]])
        pb = Polygon2D([Point2D(*p) for p in fls[1]])
    except Exception as e:      # noqa: E722
        return [mk_fail('pair', inp, None, 'Polygon2D', 'raises', 'Polygon2D raised %r' % e)]

    def near(c, other):
        return any((c[0] + dx, c[1] + dy) in other for dx in (-1, 0, 1) for dy in (-1, 0, 1))

    def strictly_in(inner, outer):
        return all(all((c[0] + dx, c[1] + dy) in outer for dx in (-1, 0, 1) for dy in (-1, 0, 1))
                   for c in inner)
    rotated = inp['ang'] is not None
    for (name, x, y, cx, cy) in (('A.f(B)', pa, pb, ca, cb), ('B.f(A)', pb, pa, cb, ca)):
        # x is "this" polygon with cells cx; y the other one with cells cy
        if cy <= cx:
            rel = 1
        elif not (cx & cy):
            rel = -1
        else:
            rel = 0
        touch = any(near(c, cx) for c in cy)
        desc = '%s pair%s, this polygon %d cells / %d vertices, other %d cells / %d vertices, ' \
            'common cells %d, tol %g (%s)' % (inp['label'], ' (rotated)' if rotated else '',
                                              len(cx), len(x.vertices), len(cy), len(y.vertices),
                                              len(cx & cy), tol, name)
        q = {'direction': name}

        def check(site, got, exp, verdict):
            bump('checks')
            if got[0] != 'ok':
                out.append(mk_fail('pair', inp, q, site, 'raises ' + got[1].split(':')[0],
                                   '%s raised %s; %s' % (site, got[1], desc)))
            elif got[1] != exp or type(got[1]) is not type(exp):
                out.append(mk_fail('pair', inp, q, site, verdict % (exp, got[1]),
                                   '%s = %r, expected %r; %s' % (site, got[1], exp, desc)))
        bump('rel_%+d' % rel)
        # known class (open finding): every vertex of the other polygon lies in the closed
        # region of this one and no vertex of this one strictly inside the other, yet the other
        # region is not contained — the code then decides by a single probe point
        vy = H.trace_cells(cy)[0]
        vx = H.trace_cells(cx)[0]
        blind = rel == 0 and \
            all(any((v[0] - dx, v[1] - dy) in cx for dx in (0, 1) for dy in (0, 1))
                for v in vy) and \
            not any(all((v[0] - dx, v[1] - dy) in cy for dx in (0, 1) for dy in (0, 1))
                    for v in vx)
        if blind:
            bump('vertex_blind_config')
        check('Polygon2D.polygon_relationship', guarded(x.polygon_relationship, y, tol), rel,
              ('all vertices on or inside but region not contained|' if blind else '') +
              'expected %r got %r')
        # under a common rotation, edges of the two polygons that lie on one lattice line are
        # collinear only up to rounding (d ~ 1e-16 in the segment test): own signature class
        def lines(lp):
            return set(('v', lp[i][0]) if lp[i][0] == lp[i - 1][0] else ('h', lp[i][1])
                       for i in range(len(lp)))
        noisy = rotated and bool(lines(vx) & lines(vy))
        if noisy:
            bump('collinear_under_rotation')
        tag = ', collinear edges under rotation|' if noisy else ': '
        check('Polygon2D.does_polygon_touch', guarded(x.does_polygon_touch, y, tol), touch,
              ('separated, collinear edges under rotation|' if (noisy and not touch) else '') +
              'expected %r got %r')
        if strictly_in(cy, cx):
            bump('strictly_nested')
            check('Polygon2D.is_polygon_inside', guarded(x.is_polygon_inside, y), True,
                  'strictly nested' + tag + 'expected %r got %r')
            check('Polygon2D.is_polygon_outside', guarded(x.is_polygon_outside, y), False,
                  'strictly nested' + tag + 'expected %r got %r')
        elif not touch:
            bump('strictly_separated')
            check('Polygon2D.is_polygon_inside', guarded(x.is_polygon_inside, y), False,
                  'separated' + tag + 'expected %r got %r')
            check('Polygon2D.is_polygon_outside', guarded(x.is_polygon_outside, y), True,
                  'separated' + tag + 'expected %r got %r')
    return out


# ====================================================================== run / replay
GEN = {'polygon': (gen_polygon_input, gen_polygon_queries, prepare_polygon, judge_polygon),
       'face': (gen_face_input, gen_face_queries, prepare_face, judge_face),
       'solid': (gen_solid_input, gen_solid_queries, prepare_solid, judge_solid),
       'pair': (gen_pair_input, lambda rng, inp: [None], prepare_pair, judge_pair)}


def input_size(f):
    inp = f['input']
    if inp['kind'] == 'polygon':
        return len(inp['verts'])
    if inp['kind'] == 'face':
        return sum(len(lp) for lp in inp['loops'])
    if inp['kind'] == 'solid':
        return len(inp['case']['pres'])
    return len(inp['cellsA']) + len(inp['cellsB'])


def shrink_polygon(f, deadline):
    """Greedy vertex removal keeping the polygon valid and the same method failing in the
    same way (python mirror of the specification; re-confirmed by the specification later)."""
    inp, q = f['input'], f['query']
    if q is None:
        return f
    verts = list(inp['verts'])
    changed = True
    while changed and len(verts) > 3 and time.time() < deadline:
        changed = False
        for i in range(len(verts)):
            cand = verts[:i] + verts[i + 1:]
            lp = [(H.unhx(x), H.unhx(y)) for (x, y) in cand]
            g = H.valid_loops([lp], 1e-3)
            if g is None:
                continue
            p = (H.unhx(q['p'][0]), H.unhx(q['p'][1]))
            cls = g.classify(p)
            dsq = g.dist_sq(p)
            fake = [(True, [[cls, 0, True, H.wn(dsq)]])]
            inp2 = dict(inp)
            inp2['verts'] = cand
            res = judge_polygon(inp2, [q], fake, {})
            hit = [r for r in res if r['signature'] == f['signature']]
            if hit:
                verts = cand
                f = hit[0]
                inp = f['input']
                changed = True
                break
    return f


def run(ctx):
    seed = ctx.seed
    thorough = ctx.tier == 'thorough' or bool(ctx.broken)
    t0 = time.time()
    budget = 14.0 if not thorough else 300.0
    stop = min(ctx.deadline - 15, t0 + budget)
    plan = {'polygon': 0.35, 'face': 0.1, 'solid': 0.35, 'pair': 0.2}
    groups = []         # (kind, inp, queries, first request, n requests)
    requests = []
    hist = {'kind': {}, 'label': {}, 'vertices': {}, 'query_kinds': {}}

    def bump(h, k):
        hist[h][k] = hist[h].get(k, 0) + 1
    # generation is cheap; the time goes into the judging phase, so generate a fixed number
    counts = {'polygon': 70, 'face': 25, 'solid': 22, 'pair': 90} if not thorough else \
        {'polygon': 2000, 'face': 700, 'solid': 550, 'pair': 2800}
    del plan
    for kind in ('polygon', 'face', 'solid', 'pair'):
        rng = random.Random('%s/c08/%s' % (seed, kind))
        gen_in, gen_q, prep, _j = GEN[kind]
        for _ in range(counts[kind]):
            inp = gen_in(rng)
            if inp is None:
                continue
            qs = gen_q(rng, inp)
            reqs = prep(inp, qs)
            groups.append((kind, inp, qs, len(requests), len(reqs)))
            requests.extend(reqs)
            bump('kind', kind)
            bump('label', kind + ':' + inp['label'])
            if kind == 'polygon':
                n = len(inp['verts'])
                bump('vertices', '%d-%d' % (n // 10 * 10, n // 10 * 10 + 9))
                for q in qs:
                    bump('query_kinds', q['qk'])
    answers = ctx.driver.run(requests) if requests else []
    stats = {}
    raw = []
    evaluations = 0
    judged = 0
    # judge round-robin over the kinds so that a deadline cuts all of them evenly
    order = sorted(range(len(groups)), key=lambda i: (i % 7, i))
    hard_stop = ctx.deadline - 3
    for gi in order:
        if time.time() > hard_stop:
            stats['unjudged_groups'] = len(groups) - judged
            break
        kind, inp, qs, r0, nr = groups[gi]
        st = stats.setdefault(kind, {})
        before = st.get('checks', 0)
        try:
            raw.extend(GEN[kind][3](inp, qs, answers[r0:r0 + nr], st))
        except RuntimeError as e:
            stats['spec_errors'] = stats.get('spec_errors', 0) + 1
            stats['spec_error_sample'] = str(e)[:300]
        evaluations += st.get('checks', 0) - before
        judged += 1
    del stop
    # one failure per signature: the smallest input, polygons shrunk further
    best = {}
    for f in raw:
        if f['signature'] not in best or input_size(f) < input_size(best[f['signature']]):
            best[f['signature']] = f
    failures = []
    shrunk = []
    for sig in sorted(best):
        f = best[sig]
        if f['kind'] == 'polygon' and f['query'] is not None and len(failures) < 20:
            g = shrink_polygon(f, time.time() + 3)
            if g is not f:
                shrunk.append((len(failures), g))
        f = dict(f)
        f['seed'] = seed
        f['occurrences'] = sum(1 for x in raw if x['signature'] == sig)
        failures.append(f)
    if shrunk:
        # re-confirm the shrunk inputs with the specification itself
        reqs = []
        for (_i, g) in shrunk:
            reqs.extend(prepare_polygon(g['input'], [g['query']]))
        try:
            ans = ctx.driver.run(reqs)
            for k, (i, g) in enumerate(shrunk):
                res = judge_polygon(g['input'], [g['query']], ans[k:k + 1], {})
                hit = [r for r in res if r['signature'] == failures[i]['signature']]
                if hit:
                    h = dict(hit[0])
                    h['seed'] = seed
                    h['occurrences'] = failures[i]['occurrences']
                    h['shrunk_from_vertices'] = len(failures[i]['input']['verts'])
                    failures[i] = h
        except Exception:       # noqa: E722 — keep the unshrunk failures
            pass
    nontriv = sum(stats.get(k, {}).get('checks', 0) for k in ('polygon', 'face', 'solid', 'pair'))
    samples = [{'kind': g[0], 'input': g[1], 'query': g[2][0]} for g in
               (groups[:1] + groups[len(groups) // 2:len(groups) // 2 + 1] + groups[-1:])]
    hist['oracle'] = stats
    return {'evaluations': evaluations, 'distinct_nontrivial': nontriv,
            'rule': 'polygons (star, spiky, convex, polyomino, L, comb; 3..60 vertices; random '
                    'similarity placement up to 1e4; both orientations) x query points (uniform '
                    'over 1.5 x bbox, 2e-6..3 tol beside an edge, axis-aligned with a vertex, on '
                    'vertices / edges, 0.5 tol beside an edge) x {default ray, 2 random test '
                    'vectors}; faces with holes x points in / off the plane; closed solids x '
                    'model points x {default, 2 random} test vectors; lattice polygon pairs in 11 '
                    'configurations, both directions.  A check = one call of one method compared '
                    'with the exact answer; every counted check is non-trivial by construction '
                    '(margin and general position certified, answer not known to the generator)',
            'samples': samples, 'failures': failures,
            'extra': {'histograms': hist, 'lean_requests': len(requests),
                      'driver_wall': round(ctx.driver.wall, 2)}}


def replay(ctx, failure):
    kind = failure['kind']
    inp = failure['input']
    qs = [failure['query']]
    _gi, _gq, prep, judge = GEN[kind]
    if failure['query'] is None:
        if kind == 'pair':
            qs = [None]
        else:
            qs = []
    if kind == 'pair':
        qs = [None]
    reqs = prep(inp, qs)
    ans = ctx.driver.run(reqs)
    found = judge(inp, qs, ans, {})
    for f in found:
        if f['signature'] == failure['signature'] and \
                (kind != 'pair' or f['query'] == failure['query']):
            return f
    for f in found:
        if f['signature'] == failure['signature']:
            return f
    return None
