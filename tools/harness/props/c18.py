"""C18 - joining segments and extracting outlines conserve the input.

Property oracle on the REAL code.

A. Segment soups: 1..6 random polylines / closed loops (some sharing vertices, so that three or
   more segments meet) are cut into segments, shuffled, randomly flipped and every end point is
   jittered by less than tol/4.  `Polyline2D.join_segments` / `Polyline3D.join_segments` must
   return chains that use every input segment exactly once (multiset of undirected edges between
   vertex classes), preserve the total length, and are maximal: two different returned open chains
   never end at the same vertex class unless three or more input segments meet there.
B. Lattice tilings: a polyomino (with/without enclosed voids, optionally with diagonal pinches or
   two components) is cut into rectangles -- neighbours of different size give T-junctions where
   one lacks the shared vertex -- placed on a dyadic lattice or rigidly rotated, every tile with
   a random orientation and start vertex.  `Polygon2D.joined_intersected_boundary` and
   `Face3D.join_coplanar_faces` must return outlines (with holes) whose enclosed region (even-odd
   nesting over all returned loops) is exactly the union of the cells: decided at every cell
   centre of the bounding grid (+1 ring) with exact integer arithmetic on the returned
   coordinates, after checking that every returned edge runs along a lattice line (within tol).
   Besides rectangles: tilings by polyomino tiles (streams comb / ring / polypart):
   - T-junction runs: a comb (U / E / 2..4 teeth, optionally stair-shaped back) or a thin branchy
     polyomino puts three or more of its vertices on ONE edge of a long straight wall tile
     (enclosed 1x1.. voids or filler tiles of different sizes between the teeth, rectangles of
     different sizes or a second comb stacked on the other long edge); the tile that carries the
     run is presented in every cyclic start and both orientations (small tiles; a sample that
     contains starts in the middle of the run otherwise), so the insertion pre-pass receives the
     new vertices of one segment in a non-monotone order;
   - tiles that themselves have holes (boundary + holes): the hole stays void / is filled by one
     tile / by several rectangles / partly / holds an island / is filled by a second ring tile;
     the ring optionally cut into C-shaped simple tiles.  join_coplanar_faces gets Face3Ds with
     holes; joined_intersected_boundary (simple polygons only) gets boundary and holes as
     separate polygons -- the way join_coplanar_faces itself calls it -- and the C-shaped cut.
     The expected union subtracts the holes of the input tiles.
"""
import math
import random
import time
from fractions import Fraction as F

from ladybug_geometry.geometry2d.pointvector import Point2D, Vector2D
from ladybug_geometry.geometry3d.pointvector import Point3D, Vector3D
from ladybug_geometry.geometry2d.line import LineSegment2D
from ladybug_geometry.geometry3d.line import LineSegment3D
from ladybug_geometry.geometry2d.polygon import Polygon2D
from ladybug_geometry.geometry2d.polyline import Polyline2D
from ladybug_geometry.geometry3d.polyline import Polyline3D
from ladybug_geometry.geometry3d.face import Face3D
from ladybug_geometry.geometry3d.plane import Plane

ASSUMPTIONS = [
    'segment soups: distinct vertices of the source polylines differ by at least 1.6*tol in some '
    'coordinate (checked exactly), every end-point copy is moved by less than tol/4, so "within '
    'the tolerance" is an equivalence relation on the end points (certified exactly per case)',
    'a returned vertex may be any point within tol (per coordinate) of exactly one vertex class; '
    'total length is compared within 1e-9 (no jitter) or segments*tol (jitter)',
    'tilings: unit cells >= 0.5 >> tol; tiles are rectangles or polyominoes (connected, no '
    'diagonal contacts, corner vertices only) without collinear vertices (as '
    'joined_intersected_boundary documents); join_coplanar_faces tiles may carry extra lattice '
    'vertices on their edges and may have holes (Face3D boundary + holes); the region of a tile '
    'with holes is its boundary minus its holes; joined_intersected_boundary receives such a tile '
    'as separate polygons (boundary, holes), which is how join_coplanar_faces hands it over; '
    'enclosed region = even-odd nesting over all returned loops '
    '(Polygon2D list); for Face3D results of a connected polyomino: inside the boundary and '
    'outside the holes of some returned face (also for unions with two components: side by side, '
    'or an island inside a void); unions with diagonal contacts (outside the quantifier) are only '
    'judged by even-odd nesting',
]
TRUSTED = [
    'C18 oracle: Python integer arithmetic on the exact binary values of the returned float '
    'coordinates (no Lean specification); for rotated tilings the cell centres and the lattice '
    'frame are computed in double precision (centres are half a cell away from every edge)',
]


# ------------------------------------------------------------------ exact helpers
def scale_ints(pts):
    D = 1
    for p in pts:
        for c in p:
            d = c.as_integer_ratio()[1]
            if d > D:
                D = d
    out = []
    for p in pts:
        q = []
        for c in p:
            n, d = c.as_integer_ratio()
            q.append(n * (D // d))
        out.append(tuple(q))
    return out, D


def cheb(a, b):
    return max(abs(x - y) for x, y in zip(a, b))


def orient(a, b, c):
    return (b[0] - a[0]) * (c[1] - a[1]) - (b[1] - a[1]) * (c[0] - a[0])


def point_in_poly(p, poly):
    """Exact even-odd on integer/Fraction coordinates: 1 inside, 0 boundary, -1 outside."""
    inside = False
    n = len(poly)
    for i in range(n):
        a, b = poly[i - 1], poly[i]
        if orient(a, b, p) == 0 and min(a[0], b[0]) <= p[0] <= max(a[0], b[0]) and \
                min(a[1], b[1]) <= p[1] <= max(a[1], b[1]):
            return 0
        if (a[1] > p[1]) != (b[1] > p[1]):
            o = orient(a, b, p)
            if (b[1] > a[1]) == (o > 0):
                inside = not inside
    return 1 if inside else -1


def hexpts(pts):
    return [[float(c).hex() for c in p] for p in pts]


def unhex(pts):
    return [tuple(float.fromhex(c) for c in p) for p in pts]


# ================================================================== A. segment soups
def gen_soup(rng, dim, stream):
    """-> dict(tol, verts (true vertices), segs [(ia, ib)], copies [(p1, p2)] jittered floats)."""
    tol = rng.choice([1e-3, 2e-3, 5e-3, 1e-2, rng.uniform(1e-3, 1e-2)])
    near = stream == 'near'
    box = rng.choice([2.0, 10.0, 100.0]) if not near else 40 * tol
    lattice = stream == 'lattice'
    verts = []

    def new_vertex():
        for _ in range(200):
            if lattice:
                p = tuple(rng.randint(-16, 16) / 4.0 for _ in range(dim))
            elif near and verts and rng.random() < 0.5:
                # very close to an existing vertex: 1.7..3 tol away in one coordinate
                q = rng.choice(verts)
                k = rng.randrange(dim)
                p = list(q)
                p[k] += rng.choice([-1, 1]) * rng.uniform(1.7, 3.0) * tol
                for j in range(dim):
                    if j != k:
                        p[j] += rng.uniform(-3, 3) * tol
                p = tuple(p)
            else:
                p = tuple(rng.uniform(-box, box) for _ in range(dim))
            if all(F(cheb_exact(p, q)) >= F(tol) * F(8, 5) for q in verts):
                verts.append(p)
                return len(verts) - 1
        return None

    def cheb_exact(p, q):
        return max(abs(F(x) - F(y)) for x, y in zip(p, q))

    chains = []
    n_chain = rng.randint(1, 6)
    segs = []
    used_pairs = set()
    for _c in range(n_chain):
        ln = rng.randint(1, 7)
        closed = ln >= 3 and rng.random() < 0.4
        path = []
        for k in range(ln + (0 if closed else 1)):
            reuse = verts and rng.random() < (0.12 if k in (0, ln) else 0.05)
            if reuse:
                i = rng.randrange(len(verts))
            else:
                i = new_vertex()
                if i is None:
                    return None
            if path and i == path[-1]:
                i = new_vertex()
                if i is None:
                    return None
            path.append(i)
        if closed:
            path.append(path[0])
        ok_path = []
        for a, b in zip(path[:-1], path[1:]):
            key = (min(a, b), max(a, b))
            if a == b or key in used_pairs:
                continue            # no zero-length and no doubled segments
            used_pairs.add(key)
            segs.append((a, b))
            ok_path.append((a, b))
        chains.append({'closed': closed, 'n': len(ok_path)})
    if not segs:
        return None
    rng.shuffle(segs)
    jit = 0.0 if stream == 'lattice' or rng.random() < 0.25 else 0.2499 * tol
    copies = []
    flips = 0
    for a, b in segs:
        if rng.random() < 0.5:
            a, b = b, a
            flips += 1
        copies.append((jit_pt(rng, verts[a], jit), jit_pt(rng, verts[b], jit), a, b))
    return {'tol': tol, 'dim': dim, 'verts': verts, 'copies': copies, 'jit': jit,
            'chains': chains, 'flips': flips, 'stream': stream}


def jit_pt(rng, p, mag):
    if mag == 0.0:
        return tuple(p)
    while True:
        v = [rng.gauss(0, 1) for _ in p]
        nv = math.sqrt(sum(x * x for x in v))
        if nv > 1e-6:
            break
    m = rng.uniform(0, mag)
    return tuple(c + m * x / nv for c, x in zip(p, v))


def classes_of(endpoints, tol):
    """Exact clustering of end points by 'every coordinate within tol' (transitive closure).
    Returns (class index per end point, is_equivalence)."""
    n = len(endpoints)
    ip, D = scale_ints(endpoints)
    t = F(tol) * D
    parent = list(range(n))

    def find(x):
        while parent[x] != x:
            parent[x] = parent[parent[x]]
            x = parent[x]
        return x
    eq = {}
    for i in range(n):
        for j in range(i + 1, n):
            e = cheb(ip[i], ip[j]) <= t
            eq[(i, j)] = e
            if e:
                parent[find(i)] = find(j)
    cls = [find(i) for i in range(n)]
    ok = all(eq[(i, j)] == (cls[i] == cls[j]) for i in range(n) for j in range(i + 1, n))
    return cls, ok


def run_join(dim, segs, tol):
    """segs: [(p1, p2)] float tuples.  Calls the real join_segments; returns list of chains
    (lists of float tuples) or raises."""
    if dim == 2:
        objs = [LineSegment2D.from_end_points(Point2D(*a), Point2D(*b)) for a, b in segs]
        res = Polyline2D.join_segments(objs, tol)
    else:
        objs = [LineSegment3D.from_end_points(Point3D(*a), Point3D(*b)) for a, b in segs]
        res = Polyline3D.join_segments(objs, tol)
    chains = []
    for r in res:
        if isinstance(r, (LineSegment2D, LineSegment3D)):
            vs = [r.p1, r.p2]
        else:
            vs = list(r.vertices)
        chains.append([tuple(float(c) for c in ((v.x, v.y) if dim == 2 else (v.x, v.y, v.z)))
                       for v in vs])
    return chains


def judge_join(dim, segs, tol, jit):
    """Returns list of (clause, detail).  [] = property holds; None = case not certified."""
    endpoints = [s[0] for s in segs] + [s[1] for s in segs]
    cls, ok = classes_of(endpoints, tol)
    if not ok:
        return None
    n = len(segs)
    site = 'Polyline%dD.join_segments' % dim
    try:
        chains = run_join(dim, segs, tol)
    except Exception as e:
        return [('raises ' + type(e).__name__, '%s: %s' % (site, str(e)[:150]))]
    # map every returned vertex to a class
    ip, D = scale_ints(endpoints + [v for ch in chains for v in ch])
    t = F(tol) * D
    ep_i = ip[:2 * n]
    out_i = ip[2 * n:]
    k = 0
    cchains = []
    for ch in chains:
        cc = []
        for v in ch:
            hit = set(cls[j] for j in range(2 * n) if cheb(out_i[k], ep_i[j]) <= t)
            k += 1
            if len(hit) != 1:
                return [('segment', 'returned vertex %r is within tol of %d input vertex classes'
                         % (v, len(hit)))]
            cc.append(hit.pop())
        cchains.append(cc)
    bad = []
    # (a) every input segment exactly once
    want = {}
    for i in range(n):
        e = tuple(sorted((cls[i], cls[n + i])))
        want[e] = want.get(e, 0) + 1
    got = {}
    for cc in cchains:
        if len(cc) < 2:
            bad.append(('segment', 'a returned chain has %d vertices' % len(cc)))
        for a, b in zip(cc[:-1], cc[1:]):
            e = tuple(sorted((a, b)))
            got[e] = got.get(e, 0) + 1
    if want != got:
        missing = sum(max(0, c - got.get(e, 0)) for e, c in want.items())
        extra = sum(max(0, c - want.get(e, 0)) for e, c in got.items())
        bad.append(('segment', '%d input segments: %d not in the output, %d output edges that are '
                    'no (or a repeated) input segment' % (n, missing, extra)))
    # (b) total length
    lin = sum(math.dist(a, b) for a, b in segs)
    lout = sum(math.dist(a, b) for ch in chains for a, b in zip(ch[:-1], ch[1:]))
    scale = max([1.0] + [abs(c) for p in endpoints for c in p])
    allow = 1e-9 * scale * n + (n * tol if jit else 0.0)
    if abs(lin - lout) > allow:
        bad.append(('length', 'total length %.9g in, %.9g out' % (lin, lout)))
    # (c) maximal
    deg = {}
    for i in range(n):
        for c in (cls[i], cls[n + i]):
            deg[c] = deg.get(c, 0) + 1
    ends = {}
    for ci, cc in enumerate(cchains):
        if len(cc) >= 2 and cc[0] != cc[-1]:
            for c in (cc[0], cc[-1]):
                ends.setdefault(c, []).append(ci)
    for c, lst in ends.items():
        if len(lst) >= 2 and deg.get(c, 0) < 3:
            bad.append(('maximal', 'chains #%s (of %d) both end at a vertex where only %d input '
                        'segments meet' % (lst[:2], len(cchains), deg.get(c, 0))))
            break
    return bad


def shrink_soup(dim, segs, tol, jit, clause, deadline):
    segs = list(segs)
    changed = True
    while changed and time.time() < deadline and len(segs) > 2:
        changed = False
        for i in range(len(segs)):
            cand = segs[:i] + segs[i + 1:]
            if len(cand) < 2:
                continue
            r = judge_join(dim, cand, tol, jit)
            if r and any(b[0] == clause for b in r):
                segs = cand
                changed = True
                break
    return segs


# ================================================================== B. lattice tilings
def gen_cells(rng, kind):
    """Cell set of a polyomino on a small grid.  kind: solid | void | pinch | two | island."""
    W, H = rng.randint(3, 7), rng.randint(3, 7)
    if kind == 'void':
        W, H = max(W, 4), max(H, 4)
        cells = set((x, y) for x in range(W) for y in range(H))
        # carve 1..2 enclosed voids (not touching the outside nor each other, also diagonally)
        nv = rng.choice([1, 1, 2])
        voids = set()
        for _ in range(nv):
            for _t in range(20):
                w, h = rng.randint(1, max(1, W - 3)), rng.randint(1, max(1, H - 3))
                x0, y0 = rng.randint(1, W - 1 - w), rng.randint(1, H - 1 - h)
                blk = set((x, y) for x in range(x0, x0 + w) for y in range(y0, y0 + h))
                halo = set((x + dx, y + dy) for x, y in blk for dx in (-1, 0, 1) for dy in (-1, 0, 1))
                if halo & voids:
                    continue
                if any(x in (0, W - 1) or y in (0, H - 1) for x, y in blk):
                    continue
                voids |= blk
                break
        cells -= voids
        # nibble the outside a little
        for _ in range(rng.randint(0, 3)):
            c = rng.choice(sorted(cells))
            trial = cells - {c}
            if c[0] in (0, W - 1) or c[1] in (0, H - 1):
                if connected(trial) and not (halo8({c}) & voids) and no_pinch(trial):
                    cells = trial
        return cells if voids else None
    if kind == 'island':
        W, H = max(W, 5), max(H, 5)
        cells = set((x, y) for x in range(W) for y in range(H))
        cells -= set((x, y) for x in range(1, W - 1) for y in range(1, H - 1))
        cx, cy = rng.randint(2, W - 3), rng.randint(2, H - 3)
        cells.add((cx, cy))
        return cells
    if kind == 'two':
        a = grow(rng, rng.randint(2, 8), 4, 5)
        b = grow(rng, rng.randint(2, 8), 4, 5)
        return a | set((x + 6, y + rng.randint(0, 2)) for x, y in b)
    n = rng.randint(3, min(W * H - 1, 22))
    for _ in range(30):
        cells = grow(rng, n, W, H)
        if kind == 'pinch':
            if not no_pinch(cells):
                return cells
            # force a diagonal contact
            c = rng.choice(sorted(cells))
            d = (c[0] + 1, c[1] + 1)
            if d not in cells and (c[0] + 1, c[1]) not in cells and (c[0], c[1] + 1) not in cells:
                return cells | {d}
            continue
        if no_pinch(cells) and not enclosed_voids(cells):
            return cells
    return None


def halo8(cells):
    return set((x + dx, y + dy) for x, y in cells for dx in (-1, 0, 1) for dy in (-1, 0, 1))


def grow(rng, n, W, H):
    cells = {(rng.randrange(W), rng.randrange(H))}
    while len(cells) < n:
        x, y = rng.choice(sorted(cells))
        dx, dy = rng.choice([(1, 0), (-1, 0), (0, 1), (0, -1)])
        c = (x + dx, y + dy)
        if 0 <= c[0] < W and 0 <= c[1] < H:
            cells.add(c)
    return cells


def connected(cells):
    if not cells:
        return False
    cells = set(cells)
    st = [next(iter(cells))]
    seen = set(st)
    while st:
        x, y = st.pop()
        for d in ((1, 0), (-1, 0), (0, 1), (0, -1)):
            c = (x + d[0], y + d[1])
            if c in cells and c not in seen:
                seen.add(c)
                st.append(c)
    return len(seen) == len(cells)


def no_pinch(cells):
    """No lattice vertex where exactly two diagonal cells (of the set or of its complement) meet."""
    xs = [c[0] for c in cells]
    ys = [c[1] for c in cells]
    for x in range(min(xs), max(xs) + 2):
        for y in range(min(ys), max(ys) + 2):
            a, b, c, d = ((x - 1, y - 1) in cells, (x, y - 1) in cells,
                          (x - 1, y) in cells, (x, y) in cells)
            if (a and d and not b and not c) or (b and c and not a and not d):
                return False
    return True


def enclosed_voids(cells):
    xs = [c[0] for c in cells]
    ys = [c[1] for c in cells]
    x0, x1, y0, y1 = min(xs) - 1, max(xs) + 1, min(ys) - 1, max(ys) + 1
    seen = {(x0, y0)}
    st = [(x0, y0)]
    while st:
        x, y = st.pop()
        for d in ((1, 0), (-1, 0), (0, 1), (0, -1)):
            c = (x + d[0], y + d[1])
            if x0 <= c[0] <= x1 and y0 <= c[1] <= y1 and c not in cells and c not in seen:
                seen.add(c)
                st.append(c)
    total = (x1 - x0 + 1) * (y1 - y0 + 1)
    return total - len(seen) - len(cells)


def cut_rectangles(rng, cells):
    """Partition the cell set into rectangles (x0, y0, x1, y1), randomly grown."""
    left = set(cells)
    rects = []
    while left:
        x, y = rng.choice(sorted(left))
        x0, y0, x1, y1 = x, y, x + 1, y + 1
        for _ in range(rng.randint(0, 6)):
            side = rng.randrange(4)
            if side == 0 and all((x1, yy) in left for yy in range(y0, y1)):
                x1 += 1
            elif side == 1 and all((x0 - 1, yy) in left for yy in range(y0, y1)):
                x0 -= 1
            elif side == 2 and all((xx, y1) in left for xx in range(x0, x1)):
                y1 += 1
            elif side == 3 and all((xx, y0 - 1) in left for xx in range(x0, x1)):
                y0 -= 1
        for xx in range(x0, x1):
            for yy in range(y0, y1):
                left.discard((xx, yy))
        rects.append((x0, y0, x1, y1))
    return rects


def count_tjunctions(rects):
    """Corners of a rectangle that lie strictly inside an edge of another rectangle."""
    t = 0
    for i, (a0, b0, a1, b1) in enumerate(rects):
        for (cx, cy) in ((a0, b0), (a1, b0), (a1, b1), (a0, b1)):
            for j, (x0, y0, x1, y1) in enumerate(rects):
                if i == j:
                    continue
                if (cx in (x0, x1) and y0 < cy < y1) or (cy in (y0, y1) and x0 < cx < x1):
                    t += 1
                    break
    return t


class Frame(object):
    """lattice (i, j) -> world 2D: o + s*R(theta)*(i, j)."""

    def __init__(self, s, ox, oy, theta):
        self.s, self.ox, self.oy, self.theta = s, ox, oy, theta
        self.c, self.sn = (1.0, 0.0) if theta == 0.0 else (math.cos(theta), math.sin(theta))

    def to_world(self, i, j):
        x, y = self.s * i, self.s * j
        return (self.ox + self.c * x - self.sn * y, self.oy + self.sn * x + self.c * y)

    def to_lattice(self, p):
        x, y = p[0] - self.ox, p[1] - self.oy
        return ((self.c * x + self.sn * y) / self.s, (-self.sn * x + self.c * y) / self.s)

    def as_list(self):
        return [self.s, self.ox, self.oy, self.theta]


def gen_tiling(rng, kind):
    cells = gen_cells(rng, kind)
    if not cells:
        return None
    rects = cut_rectangles(rng, cells)
    if len(rects) < 2:
        return None
    rng.shuffle(rects)
    s = rng.choice([0.5, 1.0, 2.5, 3.0, 8.0])
    theta = 0.0 if rng.random() < 0.6 else rng.uniform(0, 2 * math.pi)
    fr = Frame(s, rng.randint(-40, 40) / 4.0, rng.randint(-40, 40) / 4.0, theta)
    tol = rng.choice([1e-3, 2e-3, 5e-3, 1e-2])
    polys = []
    for (x0, y0, x1, y1) in rects:
        pts = [(x0, y0), (x1, y0), (x1, y1), (x0, y1)]
        if rng.random() < 0.5:
            pts.reverse()
        k = rng.randrange(4)
        polys.append(pts[k:] + pts[:k])
    return {'cells': sorted(cells), 'rects': rects, 'lat_polys': polys, 'frame': fr, 'tol': tol,
            'kind': kind, 'tj': count_tjunctions(rects), 'voids': enclosed_voids(cells)}


def densify(rng, pts):
    """Insert the lattice points along the edges of a lattice polygon (some of them)."""
    out = []
    n = len(pts)
    for i in range(n):
        a, b = pts[i], pts[(i + 1) % n]
        out.append(a)
        dx, dy = b[0] - a[0], b[1] - a[1]
        ln = max(abs(dx), abs(dy))
        sx, sy = (dx > 0) - (dx < 0), (dy > 0) - (dy < 0)
        for k in range(1, ln):
            if rng.random() < 0.6:
                out.append((a[0] + sx * k, a[1] + sy * k))
    return out


# ------------------------------------------------------------------ tiles that are no rectangles
# A tile of `lat_polys` is a list of lattice points (simple polygon) or, for a tile that itself
# has holes, a dict {'b': boundary, 'h': [hole, ...]}.
def tile_parts(t):
    if isinstance(t, dict):
        return t['b'], t['h']
    return t, []


def tile_json(t):
    if isinstance(t, dict):
        return {'b': [list(p) for p in t['b']], 'h': [[list(p) for p in h] for h in t['h']]}
    return [list(p) for p in t]


def tile_from_json(t):
    if isinstance(t, dict):
        return {'b': [tuple(p) for p in t['b']], 'h': [[tuple(p) for p in h] for h in t['h']]}
    return [tuple(p) for p in t]


def tile_key(t):
    b, hs = tile_parts(t)
    return (tuple(map(tuple, b)),) + tuple(tuple(map(tuple, h)) for h in hs)


def tile_cells(t):
    """Unit cells of one lattice tile (boundary minus holes), exact even-odd at the cell centres."""
    b, hs = tile_parts(t)
    xs = [p[0] for p in b]
    ys = [p[1] for p in b]
    if not hs and len(b) == 4:
        return set((x, y) for x in range(min(xs), max(xs)) for y in range(min(ys), max(ys)))
    b2 = [(2 * x, 2 * y) for x, y in b]
    hs2 = [[(2 * x, 2 * y) for x, y in h] for h in hs]
    out = set()
    for x in range(min(xs), max(xs)):
        for y in range(min(ys), max(ys)):
            c = (2 * x + 1, 2 * y + 1)
            if point_in_poly(c, b2) == 1 and all(point_in_poly(c, h) == -1 for h in hs2):
                out.add((x, y))
    return out


def outline_loops(cells):
    """Boundary loops of a cell set without diagonal contacts, corner vertices only:
    -> (outer loops, counter-clockwise; hole loops, clockwise) or None."""
    cells = set(cells)
    nxt = {}
    ne = 0
    for (x, y) in cells:
        if (x, y - 1) not in cells:
            nxt[(x, y)] = (x + 1, y)
            ne += 1
        if (x + 1, y) not in cells:
            nxt[(x + 1, y)] = (x + 1, y + 1)
            ne += 1
        if (x, y + 1) not in cells:
            nxt[(x + 1, y + 1)] = (x, y + 1)
            ne += 1
        if (x - 1, y) not in cells:
            nxt[(x, y + 1)] = (x, y)
            ne += 1
    if ne != len(nxt):
        return None                 # a vertex with two outgoing edges: diagonal contact
    outers, holes = [], []
    while nxt:
        start = min(nxt)
        lp = [start]
        v = nxt.pop(start)
        while v != start:
            lp.append(v)
            if v not in nxt:
                return None
            v = nxt.pop(v)
        n = len(lp)
        cor = [lp[i] for i in range(n)
               if orient(lp[i - 1], lp[i], lp[(i + 1) % n]) != 0]
        a2 = sum(cor[i - 1][0] * cor[i][1] - cor[i][0] * cor[i - 1][1] for i in range(len(cor)))
        (outers if a2 > 0 else holes).append(cor)
    return outers, holes


def make_tile(cells):
    """Lattice tile of a connected cell set without diagonal contacts (also of its complement)."""
    if not cells or not connected(cells) or not no_pinch(cells):
        return None
    r = outline_loops(cells)
    if r is None or len(r[0]) != 1:
        return None
    outers, holes = r
    if holes:
        return {'b': outers[0], 'h': holes}
    return outers[0]


def present_loop(lp, rev, k):
    lp = list(lp)
    if rev:
        lp.reverse()
    k %= len(lp)
    return lp[k:] + lp[:k]


def present(rng, t):
    """Random orientation and start vertex for every loop of a tile."""
    b, hs = tile_parts(t)
    b2 = present_loop(b, rng.random() < 0.5, rng.randrange(len(b)))
    if not hs:
        return b2
    hs2 = [present_loop(h, rng.random() < 0.5, rng.randrange(len(h))) for h in hs]
    rng.shuffle(hs2)
    return {'b': b2, 'h': hs2}


def densify_tile(rng, t):
    b, hs = tile_parts(t)
    if not hs:
        return densify(rng, b)
    return {'b': densify(rng, b), 'h': [densify(rng, h) for h in hs]}


def trun_stats(tiles):
    """T-junction runs of a tiling as presented: over all (edge of a loop of a tile W, loop of
    another tile T): the vertices of the T loop strictly inside the W edge, in the listed order.
    -> (largest such number, pairs with >= 3 of them, of these pairs: listed in an order that is
    neither ascending nor descending along the edge, i.e. the list starts in the middle of the run)."""
    loops = []
    for ti, t in enumerate(tiles):
        b, hs = tile_parts(t)
        for lp in [b] + list(hs):
            loops.append((ti, lp))
    best = runs = nonmono = 0
    for wi, wl in loops:
        for k in range(len(wl)):
            a, b = wl[k - 1], wl[k]
            ax = 1 if a[0] == b[0] else 0
            c = a[1 - ax]
            lo, hi = min(a[ax], b[ax]), max(a[ax], b[ax])
            if hi - lo < 2:
                continue
            for ti, tl in loops:
                if ti == wi:
                    continue
                seq = [p[ax] for p in tl if p[1 - ax] == c and lo < p[ax] < hi]
                if len(seq) > best:
                    best = len(seq)
                if len(seq) >= 3:
                    runs += 1
                    srt = sorted(seq)
                    if seq != srt and seq != srt[::-1]:
                        nonmono += 1
    return best, runs, nonmono


def mid_run_starts(tiles, ci):
    """Presentations (rev, k) of the boundary of tile ci for which some edge of another tile
    receives >= 3 of its vertices in a non-monotone listed order."""
    b, hs = tile_parts(tiles[ci])
    out = []
    for rev in (False, True):
        for k in range(len(b)):
            t2 = list(tiles)
            t2[ci] = present_loop(b, rev, k) if not hs else {'b': present_loop(b, rev, k), 'h': hs}
            # only runs caused by tile ci matter here
            if _nonmono_from(t2, ci):
                out.append((rev, k))
    return out


def _nonmono_from(tiles, ci):
    tb = tile_parts(tiles[ci])[0]
    for wi, t in enumerate(tiles):
        if wi == ci:
            continue
        b, hs = tile_parts(t)
        for wl in [b] + list(hs):
            for k in range(len(wl)):
                a, bb = wl[k - 1], wl[k]
                ax = 1 if a[0] == bb[0] else 0
                c = a[1 - ax]
                lo, hi = min(a[ax], bb[ax]), max(a[ax], bb[ax])
                if hi - lo < 2:
                    continue
                seq = [p[ax] for p in tb if p[1 - ax] == c and lo < p[ax] < hi]
                if len(seq) >= 3:
                    srt = sorted(seq)
                    if seq != srt and seq != srt[::-1]:
                        return True
    return False


def blk(x0, y0, x1, y1):
    return set((x, y) for x in range(x0, x1) for y in range(y0, y1))


def dihedral(k):
    def f(p):
        x, y = p
        if k & 4:
            x = -x
        for _ in range(k & 3):
            x, y = -y, x
        return (x, y)
    return f


def xf_cells(f, cells):
    out = set()
    for x, y in cells:
        cx, cy = f((2 * x + 1, 2 * y + 1))
        out.add(((cx - 1) // 2, (cy - 1) // 2))
    return out


def void_components(cells):
    """Enclosed voids of a cell set as a list of cell sets."""
    xs = [c[0] for c in cells]
    ys = [c[1] for c in cells]
    x0, x1, y0, y1 = min(xs) - 1, max(xs) + 1, min(ys) - 1, max(ys) + 1
    free = set((x, y) for x in range(x0, x1 + 1) for y in range(y0, y1 + 1)) - set(cells)
    comps = []
    while free:
        s = min(free)
        free.discard(s)
        comp = {s}
        st = [s]
        while st:
            x, y = st.pop()
            for d in ((1, 0), (-1, 0), (0, 1), (0, -1)):
                c = (x + d[0], y + d[1])
                if c in free:
                    free.discard(c)
                    comp.add(c)
                    st.append(c)
        if (x0, y0) not in comp:
            comps.append(comp)
    return comps


def components(cells):
    left = set(cells)
    out = []
    while left:
        s = min(left)
        left.discard(s)
        comp = {s}
        st = [s]
        while st:
            x, y = st.pop()
            for d in ((1, 0), (-1, 0), (0, 1), (0, -1)):
                c = (x + d[0], y + d[1])
                if c in left:
                    left.discard(c)
                    comp.add(c)
                    st.append(c)
        out.append(comp)
    return out


def gen_comb(rng):
    """A long straight wall tile; against one of its long edges a comb (U / E / comb with 2..4
    teeth, optionally with a stair-shaped back) whose teeth put 2 vertices each on that ONE wall
    edge; between the teeth enclosed voids or filler tiles of different sizes; on the other long
    edge rectangles of different sizes stacked, or a second comb.
    -> (cell sets of the tiles, index of the comb, void mode histogram) or None."""
    wt = rng.choice([1, 1, 2])
    tl = rng.choice([1, 1, 1, 2])
    nteeth = rng.choice([2, 2, 3, 3, 3, 4])
    segs = []
    y = 0
    for i in range(nteeth):
        if i:
            h = rng.choice([1, 1, 1, 2])
            segs.append(('G', y, h))
            y += h
        h = rng.choice([1, 1, 2])
        segs.append(('T', y, h))
        y += h
    L = y
    a, b = rng.choice([0, 1, 1, 2]), rng.choice([0, 1, 1, 2])
    wall = blk(-wt, -a, 0, L + b)
    stair = rng.random() < 0.4
    st0 = rng.choice([1, 1, 2])
    up = rng.random() < 0.5
    comb = set()
    for yy in range(L):
        st = st0
        if stair:
            st = 1 + ((yy if up else L - 1 - yy) * 3) // L
        comb |= blk(tl, yy, tl + st, yy + 1)
    for kind, y0, h in segs:
        if kind == 'T':
            comb |= blk(0, y0, tl, y0 + h)
    tiles = [wall, comb]
    modes = {}
    for kind, y0, h in segs:
        if kind != 'G':
            continue
        gap = blk(0, y0, tl, y0 + h)
        mode = rng.choice(['void', 'void', 'void', 'void', 'fill', 'stack', 'half'])
        if mode == 'half' and len(gap) < 2:
            mode = 'void'
        modes[mode] = modes.get(mode, 0) + 1
        if mode == 'fill':
            tiles.append(gap)
        elif mode == 'stack':
            tiles.extend({c} for c in sorted(gap))
        elif mode == 'half':
            if tl == 2 and (h == 1 or rng.random() < 0.5):
                x = rng.choice([0, 1])
                tiles.append(set(c for c in gap if c[0] == x))
            else:
                yk = rng.choice([y0, y0 + h - 1])
                tiles.append(set(c for c in gap if c[1] == yk))
    # the other long edge of the wall
    other = rng.choice(['none', 'rects', 'rects', 'comb'])
    if other == 'rects':
        yy = -a
        while yy < L + b:
            h = min(rng.choice([1, 1, 2, 3]), L + b - yy)
            if rng.random() < 0.65:
                w = rng.choice([1, 2, 3])
                tiles.append(blk(-wt - w, yy, -wt, yy + h))
            yy += h
    elif other == 'comb':
        dy = rng.choice([0, 0, 1]) if b >= 1 else 0
        tiles.append(set((-wt - 1 - x, yy + dy) for x, yy in comb))
    return tiles, 1, modes


def add_outside_rects(rng, used, keep_free, n):
    """Up to n rectangles edge-attached to the cell set `used` from outside (no diagonal contacts,
    nothing inside the cells `keep_free`)."""
    out = []
    used = set(used)
    for _ in range(n * 6):
        if len(out) >= n:
            break
        xs = [c[0] for c in used]
        ys = [c[1] for c in used]
        w, h = rng.randint(1, 3), rng.randint(1, 3)
        x0 = rng.randint(min(xs) - w, max(xs) + 1)
        y0 = rng.randint(min(ys) - h, max(ys) + 1)
        r = blk(x0, y0, x0 + w, y0 + h)
        if r & used or r & keep_free:
            continue
        if not any((x + dx, y + dy) in used for x, y in r
                   for dx, dy in ((1, 0), (-1, 0), (0, 1), (0, -1))):
            continue
        if not no_pinch(used | r):
            continue
        out.append(r)
        used |= r
    return out


def gen_ring(rng):
    """Tiles that themselves have holes: a polyomino with 1..2 enclosed rectangular voids given as
    ONE tile (boundary + holes), every hole left void / filled by one tile / by several
    rectangles / partly filled / with an island / filled by a second ring tile; optionally the
    ring is split along a line through a hole into C-shaped simple tiles; rectangles attached
    outside.  -> (cell sets of the tiles, has_island, modes) or None."""
    base = None
    if rng.random() < 0.5:
        for _ in range(10):
            base = gen_cells(rng, 'void')
            if base:
                break
    else:
        # rectangular ring, walls 1..2 cells thick, hole up to 5 x 5, sometimes a second hole
        w, h = rng.choice([1, 1, 2, 3, 3, 4, 5]), rng.choice([1, 1, 2, 3, 3, 4, 5])
        l, r_, b_, t_ = [rng.choice([1, 1, 2]) for _ in range(4)]
        base = blk(0, 0, l + w + r_, b_ + h + t_) - blk(l, b_, l + w, b_ + h)
        if rng.random() < 0.3:
            w2 = rng.randint(1, 3)
            base |= blk(l + w + r_, 0, l + w + r_ + w2 + 1, b_ + h + t_)
            y0 = rng.randint(1, b_ + h + t_ - 2)
            base -= blk(l + w + r_, y0, l + w + r_ + w2, rng.randint(y0 + 1, b_ + h + t_ - 1))
    if not base or not no_pinch(base) or not connected(base):
        return None
    comps = void_components(base)
    if not comps:
        return None
    tiles = []
    modes = {}
    island = False
    keep_free = set()
    for comp in comps:
        xs = [c[0] for c in comp]
        ys = [c[1] for c in comp]
        w, h = max(xs) - min(xs) + 1, max(ys) - min(ys) + 1
        mode = rng.choice(['void', 'void', 'void', 'fill', 'fillcut', 'partial', 'partial',
                           'island', 'nested'])
        if w >= 3 and h >= 3 and rng.random() < 0.5:
            mode = rng.choice(['island', 'nested', 'nested'])
        if mode in ('island', 'nested') and (w < 3 or h < 3):
            mode = rng.choice(['void', 'fill', 'partial'])
        if mode == 'partial' and len(comp) < 2:
            mode = rng.choice(['void', 'fill'])
        if mode == 'fill':
            tiles.append(set(comp))
        elif mode == 'fillcut':
            tiles.extend(blk(*r) for r in cut_rectangles(rng, comp))
        elif mode == 'partial':
            rects = []
            for _t in range(8):
                rects = cut_rectangles(rng, comp)
                if len(rects) >= 2:
                    break
            if len(rects) < 2:
                mode = 'fill'
                tiles.append(set(comp))
            else:
                rng.shuffle(rects)
                keep = rects[:rng.randint(1, len(rects) - 1)]
                kept = set()
                for r in keep:
                    kept |= blk(*r)
                if no_pinch(base | kept):
                    tiles.extend(blk(*r) for r in keep)
                    keep_free |= comp - kept
                else:
                    mode = 'void'
                    keep_free |= comp
        elif mode == 'island':
            x0 = rng.randint(min(xs) + 1, max(xs) - 1)
            y0 = rng.randint(min(ys) + 1, max(ys) - 1)
            x1 = rng.randint(x0, max(xs) - 1)
            y1 = rng.randint(y0, max(ys) - 1)
            tiles.append(blk(x0, y0, x1 + 1, y1 + 1))
            keep_free |= comp - tiles[-1]
            island = True
        elif mode == 'nested':
            x0 = rng.randint(min(xs) + 1, max(xs) - 1)
            y0 = rng.randint(min(ys) + 1, max(ys) - 1)
            x1 = rng.randint(x0, max(xs) - 1)
            y1 = rng.randint(y0, max(ys) - 1)
            inner = blk(x0, y0, x1 + 1, y1 + 1)
            tiles.append(comp - inner)
            if rng.random() < 0.4:
                tiles.append(inner)
                mode = 'nested-filled'
            else:
                keep_free |= inner
        else:
            keep_free |= comp
        modes[mode] = modes.get(mode, 0) + 1
    ring = [set(base)]
    if rng.random() < 0.35:
        # cut the ring along a lattice line through (or along a side of) one hole
        comp = rng.choice(comps)
        ax = rng.randrange(2)
        vs = [c[ax] for c in comp]
        cpos = rng.randint(min(vs), max(vs) + 1)
        parts = components(set(c for c in base if c[ax] < cpos)) + \
            components(set(c for c in base if c[ax] >= cpos))
        if len(parts) >= 2 and all(make_tile(p) is not None for p in parts):
            ring = parts
            modes['ring-split'] = modes.get('ring-split', 0) + 1
    tiles = ring + tiles
    used = set()
    for t in tiles:
        used |= t
    tiles.extend(add_outside_rects(rng, used, keep_free, rng.choice([0, 1, 1, 2, 3])))
    return tiles, island, modes


def cut_polyominoes(rng, cells):
    """Partition a cell set into connected polyomino tiles without diagonal contacts."""
    left = set(cells)
    tiles = []
    if rng.random() < 0.7:
        # a long straight wall tile first: a maximal run of cells in one row / column
        ax = rng.randrange(2)
        runs = []
        for c in sorted(left):
            prev = (c[0] - 1, c[1]) if ax == 0 else (c[0], c[1] - 1)
            if prev in left:
                continue
            run = [c]
            while True:
                n = (run[-1][0] + 1, run[-1][1]) if ax == 0 else (run[-1][0], run[-1][1] + 1)
                if n not in left:
                    break
                run.append(n)
            if len(run) >= 4:
                runs.append(run)
        if runs:
            run = rng.choice(runs)
            tiles.append(set(run))
            left -= tiles[-1]
            # a comb against the wall where the cells allow it: spine in the second row next to
            # the wall, teeth in the first row (the cells between the teeth go to other tiles)
            for sg in rng.sample([1, -1], 2):
                off = (0, sg) if ax == 0 else (sg, 0)
                ok = [i for i, c in enumerate(run)
                      if (c[0] + 2 * off[0], c[1] + 2 * off[1]) in left]
                spans = []
                for i in ok:
                    if spans and spans[-1][-1] == i - 1:
                        spans[-1].append(i)
                    else:
                        spans.append([i])
                spans = [sp for sp in spans if len(sp) >= 3]
                if not spans:
                    continue
                sp = rng.choice(spans)
                cand = [i for i in sp if (run[i][0] + off[0], run[i][1] + off[1]) in left]
                teeth = []
                for i in cand:
                    if (not teeth or i - teeth[-1] >= 2 or rng.random() < 0.3) \
                            and rng.random() < 0.8:
                        teeth.append(i)
                if len(teeth) < 2 or teeth[-1] - teeth[0] < 2:
                    continue
                blob = set((run[i][0] + 2 * off[0], run[i][1] + 2 * off[1])
                           for i in range(teeth[0], teeth[-1] + 1))
                blob |= set((run[i][0] + off[0], run[i][1] + off[1]) for i in teeth)
                if make_tile(blob) is not None:
                    tiles.append(blob)
                    left -= blob
                    break
    branchy = rng.random() < 0.7
    while left:
        c = rng.choice(sorted(left))
        target = rng.choice([1, 2, 3, 4, 5, 6, 8, 10, 14])
        blob = {c}
        front = [c]
        for _ in range(target * 6):
            if len(blob) >= target:
                break
            x, y = rng.choice(front)
            dx, dy = rng.choice([(1, 0), (-1, 0), (0, 1), (0, -1)])
            n = (x + dx, y + dy)
            if n in left and n not in blob:
                if branchy and rng.random() < 0.8 and sum(
                        1 for ex, ey in ((1, 0), (-1, 0), (0, 1), (0, -1), (1, 1), (1, -1),
                                         (-1, 1), (-1, -1)) if (n[0] + ex, n[1] + ey) in blob) > 2:
                    continue        # keeps the tile thin: combs, snakes, trees
                blob.add(n)
                front.append(n)
        if make_tile(blob) is None:
            blob = {c}
        left -= blob
        tiles.append(blob)
    return tiles


def gen_polytiling(rng, kind):
    """kind: comb | ring | polypart -> tiling of polyomino tiles (unpresented lattice tiles)."""
    island = False
    carrier = None
    modes = {}
    if kind == 'comb':
        r = gen_comb(rng)
        if r is None:
            return None
        tcells, carrier, modes = r
        f = dihedral(rng.randrange(8))
        tcells = [xf_cells(f, t) for t in tcells]
    elif kind == 'ring':
        r = gen_ring(rng)
        if r is None:
            return None
        tcells, island, modes = r
    else:
        cells = gen_cells(rng, rng.choice(['solid', 'solid', 'void']))
        if not cells:
            return None
        tcells = cut_polyominoes(rng, cells)
    tiles = [make_tile(t) for t in tcells]
    if any(t is None for t in tiles) or len(tiles) < 2:
        return None
    cells = set()
    n = 0
    for t in tcells:
        cells |= t
        n += len(t)
    if n != len(cells) or not no_pinch(cells):
        return None
    s = rng.choice([0.5, 1.0, 2.5, 3.0, 8.0])
    theta = 0.0 if rng.random() < 0.6 else rng.uniform(0, 2 * math.pi)
    fr = Frame(s, rng.randint(-40, 40) / 4.0, rng.randint(-40, 40) / 4.0, theta)
    tol = rng.choice([1e-3, 2e-3, 5e-3, 1e-2])
    return {'cells': sorted(cells), 'tiles': tiles, 'carrier': carrier, 'frame': fr, 'tol': tol,
            'kind': kind, 'island': island, 'modes': modes, 'voids': enclosed_voids(cells),
            'holed': sum(1 for t in tiles if isinstance(t, dict))}


def judge_region(loops, cells, fr, tol, site, faces=None):
    """loops: returned loops as lists of world 2D float tuples.  Exact even-odd raster.
    faces: optional list of lists of loop indices [boundary, hole, ...]: then a point is enclosed
    when it is inside the boundary and outside every hole of some returned face."""
    bad = []
    if not loops:
        return [('region', '%s returned no outline for %d cells' % (site, len(cells)))]
    # every returned edge runs along a lattice line, every vertex near a lattice point
    lt = tol / fr.s + 1e-9
    for li, lp in enumerate(loops):
        lat = [fr.to_lattice(p) for p in lp]
        for k, q in enumerate(lat):
            if abs(q[0] - round(q[0])) > lt or abs(q[1] - round(q[1])) > lt:
                bad.append(('region', 'outline %d has the vertex %r which is no vertex of the '
                            'tiling (lattice %.6g, %.6g)' % (li, lp[k], q[0], q[1])))
                return bad
        for k in range(len(lat)):
            a, b = lat[k - 1], lat[k]
            if round(a[0]) != round(b[0]) and round(a[1]) != round(b[1]):
                bad.append(('region', 'outline %d has the edge %r-%r which is not along the tile '
                            'edges' % (li, lp[k - 1], lp[k])))
                return bad
    cs = set(cells)
    xs = [c[0] for c in cs]
    ys = [c[1] for c in cs]
    centres = []
    keys = []
    for i in range(min(xs) - 1, max(xs) + 2):
        for j in range(min(ys) - 1, max(ys) + 2):
            centres.append(fr.to_world(i + 0.5, j + 0.5))
            keys.append((i, j))
    allp = [p for lp in loops for p in lp] + centres
    ip, D = scale_ints(allp)
    iloops = []
    k = 0
    for lp in loops:
        iloops.append(ip[k:k + len(lp)])
        k += len(lp)
    icent = ip[k:]
    wrong_in, wrong_out = [], []
    for key, c in zip(keys, icent):
        rel = [point_in_poly(c, il) for il in iloops]
        if 0 in rel:
            inside = None
        elif faces is None:
            inside = sum(1 for r in rel if r == 1) % 2 == 1
        else:
            inside = any(rel[f[0]] == 1 and all(rel[h] == -1 for h in f[1:]) for f in faces)
        if inside is None or inside != (key in cs):
            (wrong_out if key in cs else wrong_in).append(key)
    if wrong_in or wrong_out:
        bad.append(('region', '%s: %d cells of the union are outside the returned outlines %r, %d '
                    'cells outside the union are enclosed %r (%d loops returned)'
                    % (site, len(wrong_out), wrong_out[:4], len(wrong_in), wrong_in[:4],
                       len(loops))))
    return bad


def run_boundary(lat_polys, fr, tol):
    # joined_intersected_boundary takes simple polygons only: a tile that has holes is handed over
    # the way join_coplanar_faces itself does it, its boundary and its holes as separate polygons
    polys = []
    for t in lat_polys:
        b, hs = tile_parts(t)
        for lp in [b] + list(hs):
            polys.append(Polygon2D([Point2D(*fr.to_world(i, j)) for i, j in lp]))
    res = Polygon2D.joined_intersected_boundary(polys, tol)
    return [[(float(v.x), float(v.y)) for v in p.vertices] for p in res]


def make_plane(pl):
    n, o = pl
    return Plane(Vector3D(*n), Point3D(*o))


def run_faces(lat_polys, fr, tol, pl):
    plane = make_plane(pl)
    faces = []
    for ti, t in enumerate(lat_polys):
        lp, hs = tile_parts(t)
        pts = [plane.xy_to_xyz(Point2D(*fr.to_world(i, j))) for i, j in lp]
        if not hs:
            faces.append(Face3D(pts))
            continue
        holes = [[plane.xy_to_xyz(Point2D(*fr.to_world(i, j))) for i, j in h] for h in hs]
        # plane given (as Face3D.from_dict / from_extrusion do) or derived from the boundary
        if (len(lp) + ti) % 2:
            faces.append(Face3D(pts, plane, holes))
        else:
            faces.append(Face3D(pts, None, holes))
    res = Face3D.join_coplanar_faces(faces, tol)
    loops, groups = [], []
    for f in res:
        grp = [len(loops)]
        loops.append([_xy(plane, v) for v in f.boundary])
        if f.has_holes:
            for h in f.holes:
                grp.append(len(loops))
                loops.append([_xy(plane, v) for v in h])
        groups.append(grp)
    return loops, groups


def _xy(plane, v):
    p = plane.xyz_to_xy(v)
    return (float(p.x), float(p.y))


def judge_tiling(site, lat_polys, cells, fr, tol, pl=None, face_sem=True):
    groups = None
    try:
        if site == 'Polygon2D.joined_intersected_boundary':
            loops = run_boundary(lat_polys, fr, tol)
        else:
            loops, groups = run_faces(lat_polys, fr, tol, pl)
    except Exception as e:
        return [('raises ' + type(e).__name__, '%s: %s' % (site, str(e)[:150]))]
    # no diagonal contacts: the faces (boundary minus holes) must cover exactly the union (also for
    # several components, e.g. an island inside a void); diagonal pinches (outside the stated
    # quantifier: a self-touching outline may legitimately be reported as two loops): even-odd
    if groups is not None and not (face_sem and no_pinch(set(cells))):
        groups = None
    return judge_region(loops, cells, fr, tol, site, groups)


def cells_of(lat_polys):
    cs = set()
    for t in lat_polys:
        cs |= tile_cells(t)
    return cs


def shrink_tiling(site, lat_polys, fr, tol, pl, clause, deadline):
    cur = list(lat_polys)
    changed = True
    while changed and time.time() < deadline and len(cur) > 2:
        changed = False
        for i in range(len(cur)):
            cand = cur[:i] + cur[i + 1:]
            r = judge_tiling(site, cand, cells_of(cand), fr, tol, pl)
            if r and any(b[0] == clause for b in r):
                cur = cand
                changed = True
                break
    return cur


def rand_plane(rng):
    k = rng.choice(['horizontal', 'vertical', 'tilted', 'tilted', 'rational'])
    if k == 'rational':
        # exact unit normals (Pythagorean quadruples), dyadic origin
        q = list(rng.choice([(1, 2, 2, 3), (2, 3, 6, 7), (1, 4, 8, 9), (4, 4, 7, 9), (2, 6, 9, 11),
                             (6, 6, 7, 11), (3, 4, 12, 13), (0, 3, 4, 5)]))
        d = q.pop()
        rng.shuffle(q)
        n = tuple(rng.choice([-1, 1]) * c / float(d) for c in q)
        o = (rng.randint(-80, 80) / 4.0, rng.randint(-80, 80) / 4.0, rng.randint(-80, 80) / 4.0)
        return k, (n, o)
    if k == 'horizontal':
        n = rng.choice([(0, 0, 1), (0, 0, -1)])
    elif k == 'vertical':
        a = rng.uniform(0, 2 * math.pi)
        n = rng.choice([(1, 0, 0), (0, -1, 0), (math.cos(a), math.sin(a), 0.0)])
    else:
        while True:
            n = (rng.gauss(0, 1), rng.gauss(0, 1), rng.gauss(0, 1))
            ln = math.sqrt(sum(c * c for c in n))
            if ln > 0.2:
                n = tuple(c / ln for c in n)
                break
    o = (rng.uniform(-20, 20), rng.uniform(-20, 20), rng.uniform(-20, 20))
    return k, (tuple(float(c) for c in n), o)


# 3x4 block, void at (1,2), notch at (1,0): the walls x=1, x=2 of void and notch are collinear;
# and the same with two voids in one column
PROBE_TILINGS = [
    [(0, 0, 1, 4), (2, 0, 3, 4), (1, 1, 2, 2), (1, 3, 2, 4)],
    [(0, 0, 1, 5), (2, 0, 3, 5), (1, 0, 2, 1), (1, 2, 2, 3), (1, 4, 2, 5)],
]


# a long wall with an E-shaped / a U-shaped tile against it (enclosed 1x1 voids between the teeth):
# every cyclic start and both orientations of the comb, wall listed before and after it
PROBE_COMBS = [
    [blk(0, 0, 1, 7), blk(2, 1, 3, 6) | {(1, 1), (1, 3), (1, 5)}],
    [blk(0, -1, 2, 5), blk(3, 0, 4, 4) | {(2, 0), (2, 3)}, {(2, 1)}],
]
# tiles that have holes: hole stays void (+ a neighbour outside) / filled by one tile / partly
# filled / filled by a second ring whose hole stays void / two holes, one filled / a small tile
# inside the hole in the middle of one hole edge (T-junctions on the edge of a hole)
PROBE_RINGS = [
    [blk(0, 0, 3, 3) - {(1, 1)}, blk(3, 0, 4, 2)],
    [blk(0, 0, 3, 3) - {(1, 1)}, {(1, 1)}],
    [blk(0, 0, 4, 4) - blk(1, 1, 3, 3), blk(1, 1, 3, 2)],
    [blk(0, 0, 5, 5) - blk(1, 1, 4, 4), blk(1, 1, 4, 4) - {(2, 2)}],
    [blk(0, 0, 5, 3) - {(1, 1), (3, 1)}, {(3, 1)}, blk(5, 1, 6, 3)],
    [blk(0, 0, 5, 5) - blk(1, 1, 4, 4), {(2, 1)}],
]
PROBE_PLANES = [((0.0, 0.0, 1.0), (0.0, 0.0, 0.0)), ((1.0, 0.0, 0.0), (2.0, -1.0, 0.5)),
                ((2 / 7.0, -3 / 7.0, 6 / 7.0), (-3.25, 4.0, 1.5))]
S2D = 'Polygon2D.joined_intersected_boundary'
S3D = 'Face3D.join_coplanar_faces'


def tiling_cfg(kind, lps):
    """Configuration part of a failure signature."""
    if any(isinstance(t, dict) for t in lps):
        return 'tiles with holes'
    if kind in ('comb', 'ring', 'polypart'):
        return 'polyomino tiles'
    return 'polyomino' if kind in ('solid', 'void') else 'pinched-or-disconnected'


# ================================================================== run
def run(ctx):
    seed = ctx.seed
    thorough = ctx.tier == 'thorough' or bool(ctx.broken)
    t_end = min(ctx.deadline, time.time() + (500 if thorough else 30))
    evaluations = 0
    nontrivial = set()
    failures = {}
    samples = []
    hist = {'soup_stream': {}, 'soup_segments': {}, 'soup_source_chains': {}, 'soup_closed_loops': 0,
            'soup_with_junction(deg>=3)': 0, 'soup_jittered': 0, 'soup_uncertified': 0,
            'tiling_kind': {}, 'tiling_rects': {}, 'tiling_cells': {},
            'tiling_tjunctions': {}, 'tiling_rotated': 0, 'tiling_plane': {}, 'tiling_voids': {},
            'faces_densified': 0, 'generator_rejects': 0, 'probe_collinear_walls': 0,
            'probe_comb_presentations': 0, 'probe_holed_tiles': 0,
            'poly_kind': {}, 'poly_tiles': {}, 'poly_modes': {}, 'poly_presentations': 0,
            'poly_max_tvertices_on_one_edge': {}, 'poly_cases_with_run>=3': 0,
            'poly_presentations_with_run>=3': 0,
            'poly_presentations_run_listed_non_monotone': 0,
            'poly_cases_all_cyclic_starts_both_orientations': 0,
            'poly_cases_with_holed_tile': 0, 'poly_holed_tiles_fed_to_faces': 0,
            'poly_holed_tiles_fed_as_loops_2d': 0, 'poly_ring_split_into_simple_tiles': 0,
            'poly_enclosed_voids': {}, 'poly_seconds': 0.0}

    def bump(d, k, n=1):
        d[k] = d.get(k, 0) + n

    def add_failure(sig, rec):
        if sig in failures:
            failures[sig]['hits'] += 1
        else:
            rec['signature'] = sig
            rec['hits'] = 1
            failures[sig] = rec

    # ---- deterministic probe (every seed): voids whose walls are collinear with walls of an outer
    # notch, under many rotations (near-parallel segment pairs in the hole matching)
    for pi, rects in enumerate(PROBE_TILINGS):
        lps = [[(x0, y0), (x1, y0), (x1, y1), (x0, y1)] for x0, y0, x1, y1 in rects]
        cells = sorted(cells_of(lps))
        for k in range(0, 126, 1 if thorough else 2):
            fr = Frame(8.0 if pi % 2 == 0 else 1.0, 0.0, 0.0, k * 0.05)
            for site, plane in (('Polygon2D.joined_intersected_boundary', None),
                                ('Face3D.join_coplanar_faces', ((0.0, 0.0, 1.0), (0.0, 0.0, 0.0)))):
                r = judge_tiling(site, lps, cells, fr, 0.01, plane)
                evaluations += 1
                bump(hist, 'probe_collinear_walls')
                nontrivial.add((site, 'probe', pi, k))
                for clause, detail in r[:1]:
                    add_failure('%s|%s|polyomino' % (site, clause), {
                        'what': '%s(%d rectangles %r, cell %g, rotation %.4g, tol=0.01): %s'
                        % (site.split('.')[1], len(lps), [list(map(list, q)) for q in lps], fr.s,
                           fr.theta, detail),
                        'kind': 'tiling', 'site': site, 'lat_polys': [list(map(list, q)) for q in lps],
                        'frame': fr.as_list(), 'frame_hex': [float(x).hex() for x in fr.as_list()],
                        'tol_hex': float(0.01).hex(), 'clause': clause,
                        'plane': None if plane is None else [[float(c).hex() for c in plane[0]],
                                                             [float(c).hex() for c in plane[1]]],
                        'seed_info': {'probe': pi, 'k': k}})

    def tiling_failure(site, kind, lps, fr, tol, plane, clause, detail, seed_info, island=False):
        small = lps
        if not clause.startswith('raises'):
            small = shrink_tiling(site, lps, fr, tol, plane, clause, min(t_end, time.time() + 8))
            r2 = judge_tiling(site, small, cells_of(small), fr, tol, plane)
            d2 = [b for b in r2 if b[0] == clause]
            detail = d2[0][1] if d2 else detail
        sig = '%s|%s|%s' % (site, clause, tiling_cfg(kind, small))
        if island and clause == 'region' and site.startswith('Face3D') and \
                not judge_tiling(site, small, cells_of(small), fr, tol, plane, face_sem=False):
            # right by even-odd nesting, wrong as faces: the island became a hole
            sig = 'Face3D.join_coplanar_faces|island inside a void merged as hole'
        add_failure(sig, {
            'what': '%s(%d tiles %r, cell %g, rotation %.4g, tol=%r): %s'
            % (site.split('.')[1], len(small), [tile_json(p) for p in small][:6],
               fr.s, fr.theta, tol, detail),
            'kind': 'tiling', 'site': site, 'lat_polys': [tile_json(p) for p in small],
            'frame': fr.as_list(), 'frame_hex': [float(x).hex() for x in fr.as_list()],
            'tol_hex': float(tol).hex(), 'clause': clause,
            'plane': None if plane is None else [[float(c).hex() for c in plane[0]],
                                                 [float(c).hex() for c in plane[1]]],
            'seed_info': seed_info})

    # ---- deterministic probes (every seed) of the T-junction runs and of tiles with holes
    prng = random.Random('%s/c18/probe' % seed)
    for pi, tcells in enumerate(PROBE_COMBS):
        base = [make_tile(t) for t in tcells]
        cells = sorted(cells_of(base))
        nb = len(base[1])
        for rev in (False, True):
            for k in range(nb):
                if not thorough and pi == 1 and (k + rev) % 2:
                    continue
                lps = [present(prng, t) for t in base]
                lps[1] = present_loop(base[1], rev, k)
                order = list(range(len(lps)))
                prng.shuffle(order)
                if (k + rev) % 2 != (order.index(0) < order.index(1)):
                    i0, i1 = order.index(0), order.index(1)
                    order[i0], order[i1] = order[i1], order[i0]
                lps = [lps[i] for i in order]
                fr = Frame(1.0 if pi == 0 else 2.5, 0.0, 0.0, 0.0 if k % 3 else 0.3 * (k + 1))
                for site, plane in ((S2D, None), (S3D, PROBE_PLANES[(k + pi) % 3])):
                    r = judge_tiling(site, lps, cells, fr, 0.01, plane)
                    evaluations += 1
                    bump(hist, 'probe_comb_presentations')
                    nontrivial.add((site, 'probe-comb', pi, rev, k))
                    for clause, detail in r[:1]:
                        tiling_failure(site, 'comb', lps, fr, 0.01, plane, clause, detail,
                                       {'probe_comb': pi, 'rev': rev, 'k': k})
    for pi, tcells in enumerate(PROBE_RINGS):
        base = [make_tile(t) for t in tcells]
        cells = sorted(cells_of(base))
        for k in range(6 if thorough else 3):
            lps = [present(prng, t) for t in base]
            lps = lps[k % len(lps):] + lps[:k % len(lps)]       # every tile first / last
            fr = Frame(3.0 if pi % 2 else 0.5, 1.25, -2.0, 0.0 if k % 2 == 0 else 0.7 * k + pi)
            fl = lps if k % 3 else [densify_tile(prng, t) for t in lps]
            for site, plane, q in ((S2D, None, lps), (S3D, PROBE_PLANES[k % 3], fl)):
                r = judge_tiling(site, q, cells, fr, 0.01, plane)
                evaluations += 1
                bump(hist, 'probe_holed_tiles')
                nontrivial.add((site, 'probe-ring', pi, k))
                for clause, detail in r[:1]:
                    tiling_failure(site, 'ring', q, fr, 0.01, plane, clause, detail,
                                   {'probe_ring': pi, 'k': k})

    case_no = 0
    while time.time() < t_end:
        rng = random.Random('%s/c18/%d' % (seed, case_no))
        case_no += 1
        if case_no % 3 != 0:
            # ------------------------------ segment soups
            dim = 2 if case_no % 2 else 3
            stream = rng.choice(['real', 'real', 'lattice', 'near'])
            soup = gen_soup(rng, dim, stream)
            if soup is None:
                bump(hist, 'generator_rejects')
                continue
            tol = soup['tol']
            segs = [(c[0], c[1]) for c in soup['copies']]
            r = judge_join(dim, segs, tol, soup['jit'])
            if r is None:
                bump(hist, 'soup_uncertified')
                continue
            evaluations += 1
            bump(hist['soup_stream'], stream)
            bump(hist['soup_segments'], '%d-%d' % (len(segs) // 5 * 5, len(segs) // 5 * 5 + 4))
            bump(hist['soup_source_chains'], len(soup['chains']))
            hist['soup_closed_loops'] += sum(1 for c in soup['chains'] if c['closed'])
            deg = {}
            for c in soup['copies']:
                for v in (c[2], c[3]):
                    deg[v] = deg.get(v, 0) + 1
            if any(d >= 3 for d in deg.values()):
                hist['soup_with_junction(deg>=3)'] += 1
            if soup['jit']:
                hist['soup_jittered'] += 1
            if len(segs) >= 2:
                nontrivial.add(('soup', dim, tuple(segs)))
            if len(samples) < 2:
                samples.append({'kind': 'soup', 'dim': dim, 'tol': tol,
                                'segments': [[list(a), list(b)] for a, b in segs]})
            for clause, detail in r[:1]:
                small = segs
                if not clause.startswith('raises'):
                    small = shrink_soup(dim, segs, tol, soup['jit'], clause,
                                        min(t_end, time.time() + 5))
                    r2 = judge_join(dim, small, tol, soup['jit']) or []
                    d2 = [b for b in r2 if b[0] == clause]
                    detail = d2[0][1] if d2 else detail
                sig = 'Polyline%dD.join_segments|%s' % (dim, clause)
                add_failure(sig, {
                    'what': 'join_segments(%d segments, tol=%r): %s' % (len(small), tol, detail),
                    'kind': 'soup', 'dim': dim, 'tol_hex': float(tol).hex(), 'jit': soup['jit'],
                    'segments': [[hexpts([a])[0], hexpts([b])[0]] for a, b in small],
                    'segments_repr': [[list(a), list(b)] for a, b in small],
                    'clause': clause, 'seed_info': {'seed': seed, 'case': case_no - 1}})
            continue
        # ------------------------------ tilings
        kind = rng.choice(['solid', 'solid', 'void', 'void', 'pinch', 'two', 'island',
                           'comb', 'comb', 'ring', 'ring', 'polypart'])
        if kind in ('comb', 'ring', 'polypart'):
            # ------------------------------ tilings by polyomino tiles (T-junction runs, holes)
            t0 = time.time()
            tl = gen_polytiling(rng, kind)
            if tl is None:
                bump(hist, 'generator_rejects')
                continue
            fr, tol, cells, tiles = tl['frame'], tl['tol'], tl['cells'], tl['tiles']
            bump(hist['poly_kind'], kind)
            bump(hist['poly_tiles'], '%d-%d' % (len(tiles) // 4 * 4, len(tiles) // 4 * 4 + 3))
            bump(hist['poly_enclosed_voids'], min(tl['voids'], 5))
            for m, c in tl['modes'].items():
                bump(hist['poly_modes'], '%s:%s' % (kind, m), c)
            if 'ring-split' in tl['modes']:
                hist['poly_ring_split_into_simple_tiles'] += 1
            if tl['holed']:
                hist['poly_cases_with_holed_tile'] += 1
            if fr.theta != 0.0:
                hist['tiling_rotated'] += 1
            pk, pl = rand_plane(rng)
            bump(hist['tiling_plane'], pk)
            # presentations of the tile that carries the run: all cyclic starts and both
            # orientations for small tiles, else a sample that contains starts inside the run
            ci = tl['carrier']
            pres = [None]
            if ci is not None:
                nb = len(tile_parts(tiles[ci])[0])
                allp = [(rev, k) for rev in (False, True) for k in range(nb)]
                u = rng.random()
                if (thorough and u < (0.5 if nb <= 12 else 0.12 if nb <= 28 else 0.0)) or \
                        (not thorough and u < (0.5 if nb <= 8 else 0.12 if nb <= 12 else 0.0)):
                    pres = allp
                    hist['poly_cases_all_cyclic_starts_both_orientations'] += 1
                else:
                    mid = mid_run_starts(tiles, ci)
                    ns = 4 if thorough else 2
                    pres = rng.sample(mid, min(len(mid), ns - ns // 2)) if mid else []
                    pres += rng.sample(allp, ns - len(pres))
            elif kind == 'ring' and rng.random() < 0.5:
                pres = [None, None]
            best_all = 0
            for pr in pres:
                lps = [present(rng, t) for t in tiles]
                if pr is not None:
                    lps[ci] = present_loop(tiles[ci], pr[0], pr[1])
                rng.shuffle(lps)
                best, runs, nonmono = trun_stats(lps)
                best_all = max(best_all, best)
                hist['poly_presentations'] += 1
                if best >= 3:
                    hist['poly_presentations_with_run>=3'] += 1
                if nonmono:
                    hist['poly_presentations_run_listed_non_monotone'] += 1
                fl = lps
                if rng.random() < 0.4:
                    fl = [densify_tile(rng, t) for t in lps]
                    hist['faces_densified'] += 1
                hist['poly_holed_tiles_fed_to_faces'] += tl['holed']
                hist['poly_holed_tiles_fed_as_loops_2d'] += tl['holed']
                if len(samples) < 8 and (best >= 3 or tl['holed']) and \
                        sum(1 for q in samples if q.get('kind') == 'polyomino tiling') < 3:
                    samples.append({'kind': 'polyomino tiling', 'generator': kind,
                                    'tiles': [tile_json(t) for t in lps], 'frame': fr.as_list(),
                                    'tol': tol, 'max_tvertices_on_one_edge': best,
                                    'run_listed_non_monotone': bool(nonmono)})
                for site, q, plane in ((S2D, lps, None), (S3D, fl, pl)):
                    r = judge_tiling(site, q, cells, fr, tol, plane)
                    evaluations += 1
                    if best >= 3 or tl['holed'] or tl['voids']:
                        nontrivial.add((site, tuple(tile_key(t) for t in q), fr.as_list()[3]))
                    for clause, detail in r[:1]:
                        tiling_failure(site, kind, q, fr, tol, plane, clause, detail,
                                       {'seed': seed, 'case': case_no - 1}, tl['island'])
            bump(hist['poly_max_tvertices_on_one_edge'], min(best_all, 8))
            if best_all >= 3:
                hist['poly_cases_with_run>=3'] += 1
            hist['poly_seconds'] = round(hist['poly_seconds'] + time.time() - t0, 3)
            continue
        tl = gen_tiling(rng, kind)
        if tl is None:
            bump(hist, 'generator_rejects')
            continue
        fr, tol, cells = tl['frame'], tl['tol'], tl['cells']
        bump(hist['tiling_kind'], kind)
        bump(hist['tiling_rects'], '%d-%d' % (len(tl['rects']) // 4 * 4, len(tl['rects']) // 4 * 4 + 3))
        bump(hist['tiling_cells'], '%d-%d' % (len(cells) // 5 * 5, len(cells) // 5 * 5 + 4))
        bump(hist['tiling_tjunctions'], min(tl['tj'], 10))
        bump(hist['tiling_voids'], min(tl['voids'], 5))
        if fr.theta != 0.0:
            hist['tiling_rotated'] += 1
        if len(samples) < 4:
            samples.append({'kind': 'tiling', 'cells': [list(c) for c in cells],
                            'rects': [list(r) for r in tl['rects']], 'frame': fr.as_list(),
                            'tol': tol})
        pk, pl = rand_plane(rng)
        bump(hist['tiling_plane'], pk)
        jobs = [('Polygon2D.joined_intersected_boundary', tl['lat_polys'], None)]
        fpolys = tl['lat_polys']
        if rng.random() < 0.4:
            fpolys = [densify(rng, lp) for lp in fpolys]
            hist['faces_densified'] += 1
        jobs.append(('Face3D.join_coplanar_faces', fpolys, pl))
        for site, lps, plane in jobs:
            r = judge_tiling(site, lps, cells, fr, tol, plane)
            evaluations += 1
            if tl['tj'] > 0 or tl['voids'] > 0:
                nontrivial.add((site, tuple(map(tuple, lps)), fr.as_list()[3]))
            for clause, detail in r[:1]:
                small = lps
                if not clause.startswith('raises'):
                    small = shrink_tiling(site, lps, fr, tol, plane, clause,
                                          min(t_end, time.time() + 8))
                    r2 = judge_tiling(site, small, cells_of(small), fr, tol, plane)
                    d2 = [b for b in r2 if b[0] == clause]
                    detail = d2[0][1] if d2 else detail
                cfg = 'polyomino' if kind in ('solid', 'void') else 'pinched-or-disconnected'
                sig = '%s|%s|%s' % (site, clause, cfg)
                if kind == 'island' and clause == 'region' and site.startswith('Face3D') and \
                        not judge_tiling(site, small, cells_of(small), fr, tol, plane,
                                         face_sem=False):
                    # right by even-odd nesting, wrong as faces: the island became a hole
                    sig = 'Face3D.join_coplanar_faces|island inside a void merged as hole'
                add_failure(sig, {
                    'what': '%s(%d rectangles %r, cell %g, rotation %.4g, tol=%r): %s'
                    % (site.split('.')[1], len(small), [list(map(list, p)) for p in small][:6],
                       fr.s, fr.theta, tol, detail),
                    'kind': 'tiling', 'site': site, 'lat_polys': [list(map(list, p)) for p in small],
                    'frame': fr.as_list(), 'frame_hex': [float(x).hex() for x in fr.as_list()],
                    'tol_hex': float(tol).hex(), 'clause': clause,
                    'plane': None if plane is None else [[float(c).hex() for c in plane[0]],
                                                         [float(c).hex() for c in plane[1]]],
                    'seed_info': {'seed': seed, 'case': case_no - 1}})
    return {'evaluations': evaluations, 'distinct_nontrivial': len(nontrivial),
            'rule': 'segment soups (2D/3D; 1..6 polylines/loops cut, shuffled, flipped, jitter < '
                    'tol/4; streams real/lattice/near) -- non-trivial = at least 2 segments; '
                    'lattice tilings (solid/void/pinch/two components/island, cut into rectangles, '
                    'random tile orientation and start, dyadic or rotated frame, planes '
                    'horizontal/vertical/tilted) -- non-trivial = at least one T-junction or '
                    'enclosed void; tilings by polyomino tiles (comb against a long wall tile / '
                    'tiles with holes / branchy polyomino partition; the run-carrying tile in all '
                    'cyclic starts and both orientations or a sample with mid-run starts) -- '
                    'non-trivial = >= 3 vertices of one tile on one edge of another, a tile with '
                    'holes, or an enclosed void',
            'samples': samples, 'failures': sorted(failures.values(), key=lambda f: f['signature']),
            'extra': {'histograms': hist}}


def replay(ctx, fl):
    tol = float.fromhex(fl['tol_hex'])
    if fl['kind'] == 'soup':
        segs = [(tuple(float.fromhex(c) for c in a), tuple(float.fromhex(c) for c in b))
                for a, b in fl['segments']]
        r = judge_join(fl['dim'], segs, tol, fl['jit']) or []
    else:
        s, ox, oy, th = [float.fromhex(x) for x in fl['frame_hex']]
        fr = Frame(s, ox, oy, th)
        lps = [tile_from_json(lp) for lp in fl['lat_polys']]
        pl = None
        if fl.get('plane'):
            pl = (tuple(float.fromhex(c) for c in fl['plane'][0]),
                  tuple(float.fromhex(c) for c in fl['plane'][1]))
        r = judge_tiling(fl['site'], lps, cells_of(lps), fr, tol, pl)
    r = [b for b in r if b[0] == fl['clause']]
    if not r:
        return None
    out = dict(fl)
    out['what'] = fl['what'].split('): ')[0] + '): ' + r[0][1]
    return out
