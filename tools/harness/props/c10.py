"""C10 -- bounding boxes contain the geometry and are tight.

Property oracle on the REAL code.  Every object is described by a JSON-able *spec* (class +
defining numbers); `build` makes the real object and, independently, a description of the
point set it stands for (vertex clouds, circular arcs `o + r(cos t * ex + sin t * ey)`,
spheres).  The exact box of that point set along any direction is its support function
(analytic extremum of `A cos t + B sin t` on the arc's span, end points otherwise); the
reported `min`/`max` must agree with it within the tolerance (containment if the reported side
is too far in, tightness if it is too far out), densely sampled points must lie inside, for
full circles the closed form `o_i +- r*sqrt(1 - n_i^2)` is used as a second oracle, and
`center` must be the exact rational midpoint of the reported corners.

The collection helpers of `ladybug_geometry.bounding` are compared with the hull of the member
boxes (literally, for axis_angle = 0) and with the support functions of the united point set in
the frame rotated by axis_angle (the world position of the corner of an oriented bounding
rectangle does not depend on the rotation centre the implementation picks).  The overlap
predicates are compared with the exact rational gap test on the reported boxes and with
themselves with the arguments swapped; on the dyadic-lattice stream float arithmetic is exact
and the threshold case gap == distance is decided too, elsewhere a band of 1e-9 around the
threshold is left undecided."""
import json
import math
import random
import time
from fractions import Fraction

from ladybug_geometry.geometry2d.pointvector import Point2D, Vector2D
from ladybug_geometry.geometry3d.pointvector import Point3D, Vector3D
from ladybug_geometry.geometry2d.line import LineSegment2D
from ladybug_geometry.geometry2d.ray import Ray2D
from ladybug_geometry.geometry3d.line import LineSegment3D
from ladybug_geometry.geometry3d.ray import Ray3D
from ladybug_geometry.geometry2d.arc import Arc2D
from ladybug_geometry.geometry3d.arc import Arc3D
from ladybug_geometry.geometry2d.polyline import Polyline2D
from ladybug_geometry.geometry3d.polyline import Polyline3D
from ladybug_geometry.geometry2d.polygon import Polygon2D
from ladybug_geometry.geometry2d.mesh import Mesh2D
from ladybug_geometry.geometry3d.mesh import Mesh3D
from ladybug_geometry.geometry3d.face import Face3D
from ladybug_geometry.geometry3d.polyface import Polyface3D
from ladybug_geometry.geometry3d.plane import Plane
from ladybug_geometry.geometry3d.sphere import Sphere
from ladybug_geometry.geometry3d.cone import Cone
from ladybug_geometry.geometry3d.cylinder import Cylinder
from ladybug_geometry import bounding

TOL = 1e-9
TWO_PI = 2 * math.pi
GRID = 64                      # arcs: every start/end pair on a 1/64-turn grid

# A circle whose unit normal is within ~1e-6 rad of a coordinate axis (but not exactly on it)
# is reported with a box that is off by up to 1.5e-8 * r along that axis, because the
# implementation evaluates sin(acos(n_i)) (acos is ill-conditioned at 1).  The generators keep
# normals either exactly axis-aligned or >= 1e-4 rad away unless this switch is set.
CHECK_NEAR_AXIS_NORMALS = False

ASSUMPTIONS = [
    'tolerance 1e-9 relative to max(1, largest coordinate magnitude, radius) of the object / '
    'collection',
    'rays are the segment p .. p+v; Vector2D/Vector3D/Plane min/max are placeholders and are '
    'not examined',
    '`center` is examined where it is documented as the centre of the bounding rectangle/box '
    '(segments, rays, polylines, polygons, meshes, faces, polyfaces) and for Sphere; '
    'Cylinder.center is the centre of the bottom base (a defining datum) and Arc/Cone have no '
    'center: not examined, and such objects are not passed to the overlap predicates',
    'meshes reference every vertex; Face3D holes lie strictly inside the boundary (by '
    'construction of the generator)',
    'circle / cone / cylinder normals are exactly axis-aligned or at least 1e-4 rad away from '
    'every coordinate axis (see CHECK_NEAR_AXIS_NORMALS)',
    'bounding helpers with axis_angle != 0 are called the way they are documented: first '
    'member has `vertices`, all members are 2D (bounding_rectangle) or all 3D; mixed 2D/3D '
    'collections only with axis_angle = 0',
    'overlap predicates: distance >= 0; outside the dyadic-lattice stream cases with '
    '|gap - distance| <= 1e-9*scale on a deciding axis are not judged',
]
TRUSTED = [
    'C10 oracle is a Python oracle (no Lean specification): comparisons of floats and the '
    'midpoint / gap tests are exact (fractions.Fraction); the support function of an arc uses '
    'math.cos/sin/atan2 in double precision, with errors (~1e-15 relative) far below the 1e-9 '
    'tolerance',
    'the point set of an Arc3D is read off its plane as o + r(cos t * plane.x + sin t * '
    'plane.y), t from a1 counter-clockwise to a2; of a cone as vertex + base circle of radius '
    '|axis|*tan(angle) at vertex+axis; of a cylinder as the two end circles',
]


# ------------------------------------------------------------------ small vector algebra
def dot(a, b):
    return a[0] * b[0] + a[1] * b[1] + a[2] * b[2]


def add(a, b):
    return (a[0] + b[0], a[1] + b[1], a[2] + b[2])


def sub(a, b):
    return (a[0] - b[0], a[1] - b[1], a[2] - b[2])


def mul(a, k):
    return (a[0] * k, a[1] * k, a[2] * k)


def cross(a, b):
    return (a[1] * b[2] - a[2] * b[1], a[2] * b[0] - a[0] * b[2], a[0] * b[1] - a[1] * b[0])


def norm(a):
    return math.sqrt(dot(a, a))


def unit(a):
    n = norm(a)
    return (a[0] / n, a[1] / n, a[2] / n)


def ortho_basis(n):
    """Two unit vectors spanning the plane orthogonal to n."""
    n = unit(n)
    ax = [abs(n[0]), abs(n[1]), abs(n[2])]
    i = ax.index(min(ax))
    h = [(1.0, 0.0, 0.0), (0.0, 1.0, 0.0), (0.0, 0.0, 1.0)][i]
    ex = unit(cross(n, h))
    ey = cross(n, ex)
    return ex, ey


def p3(p):
    return (float(p[0]), float(p[1]), float(p[2]) if len(p) > 2 else 0.0)


def span(a1, a2):
    """Counter-clockwise angle from a1 to a2 (0 .. 2*pi)."""
    return a2 - a1 if a2 >= a1 else a2 - a1 + TWO_PI


def arc_point(o, ex, ey, r, t):
    c, s = math.cos(t) * r, math.sin(t) * r
    return (o[0] + c * ex[0] + s * ey[0], o[1] + c * ex[1] + s * ey[1],
            o[2] + c * ex[2] + s * ey[2])


# ------------------------------------------------------------------ exact box of a point set
def support(prims, d):
    """max of d . p over the point set described by prims."""
    best = -float('inf')
    for pr in prims:
        k = pr[0]
        if k == 'P':
            for p in pr[1]:
                v = p[0] * d[0] + p[1] * d[1] + p[2] * d[2]
                if v > best:
                    best = v
        elif k == 'A':
            _, o, ex, ey, r, a1, ang = pr
            A, B, base = r * dot(ex, d), r * dot(ey, d), dot(o, d)
            a_end = a1 + ang
            v = max(A * math.cos(a1) + B * math.sin(a1),
                    A * math.cos(a_end) + B * math.sin(a_end))
            if A != 0 or B != 0:
                t0 = math.atan2(B, A)
                t = t0 + TWO_PI * math.ceil((a1 - t0) / TWO_PI)
                if t <= a_end:
                    v = max(v, math.hypot(A, B))
            if base + v > best:
                best = base + v
        elif k == 'S':
            _, c, r = pr
            v = dot(c, d) + r * norm(d)
            if v > best:
                best = v
    return best


AXES = ((1.0, 0.0, 0.0), (0.0, 1.0, 0.0), (0.0, 0.0, 1.0))
NAXES = ((-1.0, 0.0, 0.0), (0.0, -1.0, 0.0), (0.0, 0.0, -1.0))


def exact_box(prims, dim):
    lo = [-support(prims, NAXES[i]) for i in range(dim)]
    hi = [support(prims, AXES[i]) for i in range(dim)]
    return lo, hi


def prim_scale(prims):
    m = 1.0
    for pr in prims:
        if pr[0] == 'P':
            for p in pr[1]:
                m = max(m, abs(p[0]), abs(p[1]), abs(p[2]))
        elif pr[0] == 'A':
            o, r = pr[1], pr[4]
            m = max(m, abs(o[0]) + r, abs(o[1]) + r, abs(o[2]) + r)
        else:
            c, r = pr[1], pr[2]
            m = max(m, abs(c[0]) + r, abs(c[1]) + r, abs(c[2]) + r)
    return m


# ------------------------------------------------------------------ specs -> real objects
class Built(object):
    __slots__ = ('obj', 'prims', 'samples', 'dim', 'scale', 'slack', 'circles', 'cls')


def _pts2(pts):
    return [Point2D(p[0], p[1]) for p in pts]


def _pts3(pts):
    return [Point3D(p[0], p[1], p[2]) for p in pts]


def _edge_samples(pts, closed):
    out = []
    n = len(pts)
    for i in range(n if closed else n - 1):
        a, b = pts[i], pts[(i + 1) % n]
        out.append(((a[0] + b[0]) / 2, (a[1] + b[1]) / 2, (a[2] + b[2]) / 2))
    return out


def _tup(x):
    return tuple(_tup(y) for y in x) if isinstance(x, (list, tuple)) else x


def build(spec, n_arc=64):
    """Real object + independent description of its point set."""
    c = spec['cls']
    b = Built()
    b.cls = c
    b.slack = 0.0
    b.circles = []
    b.dim = 2 if c.endswith('2D') else 3
    if c in ('Point2D', 'Point3D'):
        b.obj = Point2D(*spec['p']) if c == 'Point2D' else Point3D(*spec['p'])
        b.prims = [('P', [p3(spec['p'])])]
        b.samples = list(b.prims[0][1])
    elif c in ('LineSegment2D', 'Ray2D', 'LineSegment3D', 'Ray3D'):
        p, v = spec['p'], spec['v']
        if b.dim == 2:
            k = LineSegment2D if c == 'LineSegment2D' else Ray2D
            b.obj = k(Point2D(*p), Vector2D(*v))
        else:
            k = LineSegment3D if c == 'LineSegment3D' else Ray3D
            b.obj = k(Point3D(*p), Vector3D(*v))
        P, V = p3(p), p3(v)
        b.prims = [('P', [P, add(P, V)])]
        b.samples = [add(P, mul(V, i / 16.0)) for i in range(17)]
    elif c == 'Arc2D':
        b.obj = Arc2D(Point2D(*spec['c']), spec['r'], spec['a1'], spec['a2'])
        o = p3(spec['c'])
        b.prims = [('A', o, AXES[0], AXES[1], spec['r'], spec['a1'],
                    span(spec['a1'], spec['a2']))]
    elif c == 'Arc3D':
        x = None if spec.get('x') is None else Vector3D(*spec['x'])
        pl = Plane(Vector3D(*spec['n']), Point3D(*spec['o']), x)
        b.obj = Arc3D(pl, spec['r'], spec['a1'], spec['a2'])
        b.prims = [('A', tuple(pl.o), tuple(pl.x), tuple(pl.y), spec['r'], spec['a1'],
                    span(spec['a1'], spec['a2']))]
        if spec['a1'] == 0 and spec['a2'] == TWO_PI:
            b.circles = [(tuple(pl.o), tuple(pl.n), spec['r'])]
    elif c in ('Polyline2D', 'Polygon2D'):
        k = Polyline2D if c == 'Polyline2D' else Polygon2D
        b.obj = k(_pts2(spec['pts']))
        P = [p3(p) for p in spec['pts']]
        b.prims = [('P', P)]
        b.samples = P + _edge_samples(P, c == 'Polygon2D')
    elif c == 'Polyline3D':
        b.obj = Polyline3D(_pts3(spec['pts']))
        P = [p3(p) for p in spec['pts']]
        b.prims = [('P', P)]
        b.samples = P + _edge_samples(P, False)
    elif c in ('Mesh2D', 'Mesh3D'):
        faces = [tuple(f) for f in spec['faces']]
        b.obj = Mesh2D(_pts2(spec['pts']), faces) if c == 'Mesh2D' else \
            Mesh3D(_pts3(spec['pts']), faces)
        P = [p3(p) for p in spec['pts']]
        b.prims = [('P', P)]
        b.samples = list(P)
        for f in faces:
            b.samples.append(tuple(sum(P[i][j] for i in f) / len(f) for j in range(3)))
    elif c == 'Face3D':
        holes = [_pts3(h) for h in spec.get('holes') or []]
        b.obj = Face3D(_pts3(spec['pts']), None, holes if holes else None)
        P = [p3(p) for p in spec['pts']]
        H = [p3(p) for h in (spec.get('holes') or []) for p in h]
        b.prims = [('P', P + H)]
        b.samples = P + H + _edge_samples(P, True)
    elif c == 'Polyface3D':
        b.obj = Polyface3D(_pts3(spec['pts']), _tup(spec['face_indices']))
        P = [p3(p) for p in spec['pts']]
        b.prims = [('P', P)]
        b.samples = list(P)
    elif c == 'Sphere':
        b.obj = Sphere(Point3D(*spec['c']), spec['r'])
        o, r = p3(spec['c']), spec['r']
        b.prims = [('S', o, r)]
        b.samples = [add(o, mul(a, r)) for a in AXES + NAXES]
        rng = random.Random(repr(spec['c']))
        for _ in range(24):
            u = unit((rng.gauss(0, 1), rng.gauss(0, 1), rng.gauss(0, 1) + 1e-9))
            b.samples.append(add(o, mul(u, r)))
    elif c == 'Cone':
        b.obj = Cone(Point3D(*spec['p']), Vector3D(*spec['axis']), spec['angle'])
        v, ax = p3(spec['p']), p3(spec['axis'])
        r = norm(ax) * math.tan(spec['angle'])
        ex, ey = ortho_basis(ax)
        o = add(v, ax)
        b.prims = [('P', [v]), ('A', o, ex, ey, r, 0.0, TWO_PI)]
        b.circles = [(o, unit(ax), r)]
    elif c == 'Cylinder':
        b.obj = Cylinder(Point3D(*spec['p']), Vector3D(*spec['axis']), spec['r'])
        o, ax = p3(spec['p']), p3(spec['axis'])
        ex, ey = ortho_basis(ax)
        b.prims = [('A', o, ex, ey, spec['r'], 0.0, TWO_PI),
                   ('A', add(o, ax), ex, ey, spec['r'], 0.0, TWO_PI)]
        b.circles = [(o, unit(ax), spec['r']), (add(o, ax), unit(ax), spec['r'])]
    else:
        raise ValueError('unknown class %r' % (c,))
    if any(pr[0] == 'A' for pr in b.prims):
        smp = [p for pr in b.prims if pr[0] == 'P' for p in pr[1]]
        arcs = [pr for pr in b.prims if pr[0] == 'A']
        for (_, o, ex, ey, r, a1, ang) in arcs:
            for i in range(n_arc + 1):
                smp.append(arc_point(o, ex, ey, r, a1 + ang * i / n_arc))
            # the sampled maximum is below the true one by at most r(1 - cos(step/2))
            b.slack = max(b.slack, r * (ang / n_arc) ** 2 / 8 * 1.01)
        if c == 'Cone':      # rulings of the cone surface
            v = b.prims[0][1][0]
            for q in list(smp[1:9]):
                smp.append(add(mul(v, 0.5), mul(q, 0.5)))
        if c == 'Cylinder':
            ax = p3(spec['axis'])
            for q in list(smp[:8]):
                smp.append(add(q, mul(ax, 0.37)))
        b.samples = smp
    b.scale = prim_scale(b.prims)
    return b


def config_of(spec):
    c = spec['cls']
    if c == 'Arc2D' or c == 'Arc3D':
        a1, a2 = spec['a1'], spec['a2']
        if a1 == 0 and a2 == TWO_PI:
            return 'circle'
        inv = 'inverted' if a2 < a1 else 'direct'
        if c == 'Arc3D':
            return 'partial-' + inv
        q1, q2 = min(3, int(a1 // (math.pi / 2))), min(3, int(a2 // (math.pi / 2)))
        if q1 == q2:
            return inv + '-same-quadrant'
        return 'q%d->q%d' % (q1, q2)
    return 'box'


def short(spec):
    s = json.dumps(spec, sort_keys=True)
    return s if len(s) <= 400 else s[:400] + '...'


def _fail(sig, what, kind, spec, **kw):
    d = {'signature': sig, 'what': what, 'kind': kind, 'spec': spec}
    d.update(kw)
    return d


# ------------------------------------------------------------------ single object
def check_object(spec, n_arc=64):
    """-> list of failure dicts (empty = property holds on this object)."""
    cls = spec['cls']
    cfg = config_of(spec)
    sig = '%s.min/max|%s' % (cls, cfg)
    try:
        b = build(spec, n_arc)
    except Exception as e:
        return [_fail('%s|construct raises %s' % (cls, type(e).__name__),
                      '%s: constructor raises %s: %s' % (short(spec), type(e).__name__, e),
                      'object', spec)]
    try:
        mn, mx = b.obj.min, b.obj.max
        mn = [float(mn[i]) for i in range(b.dim)]
        mx = [float(mx[i]) for i in range(b.dim)]
    except Exception as e:
        return [_fail('%s.min/max|raises %s' % (cls, type(e).__name__),
                      '%s: min/max raises %s: %s' % (short(spec), type(e).__name__, e),
                      'object', spec)]
    out = []
    tol = TOL * b.scale
    names = 'xyz'
    for i in range(b.dim):
        if not mn[i] <= mx[i]:
            out.append(_fail(sig, '%s: min.%s = %r > max.%s = %r' % (
                short(spec), names[i], mn[i], names[i], mx[i]), 'object', spec,
                clause='min<=max'))
            return out
    # densely sampled points are inside
    for p in b.samples:
        for i in range(b.dim):
            if p[i] < mn[i] - tol or p[i] > mx[i] + tol:
                out.append(_fail(sig, '%s: point %r of the geometry is outside the reported '
                                 'box %r .. %r (coordinate %s, by %.3g)' % (
                                     short(spec), p[:b.dim], mn, mx, names[i],
                                     max(mn[i] - p[i], p[i] - mx[i])), 'object', spec,
                                 clause='contains'))
                return out
    # each side is touched: exact extremum of the point set
    lo, hi = exact_box(b.prims, b.dim)
    for i in range(b.dim):
        for (rep, ex, side, sgn) in ((mn[i], lo[i], 'min', 1), (mx[i], hi[i], 'max', -1)):
            if abs(rep - ex) > tol:
                inside = (rep - ex) * sgn > 0
                out.append(_fail(sig, '%s: %s.%s reported %r, exact extremum of the geometry '
                                 '%r (%s)' % (short(spec), side, names[i], rep, ex,
                                              'geometry sticks out' if inside else
                                              'side not touched'), 'object', spec,
                                 clause='contains' if inside else 'tight'))
                return out
    # sampled tightness (independent of the analytic extremum)
    for i in range(b.dim):
        smin = min(p[i] for p in b.samples)
        smax = max(p[i] for p in b.samples)
        if smin - mn[i] > tol + b.slack or mx[i] - smax > tol + b.slack:
            out.append(_fail(sig, '%s: no sampled point within %.3g of side %s of the '
                             'reported box %r .. %r (samples span %r .. %r)' % (
                                 short(spec), tol + b.slack, names[i], mn, mx, smin, smax),
                             'object', spec, clause='tight'))
            return out
    # closed form for full circles: o_i +- r sqrt(1 - n_i^2), hull over the circles (+ apex)
    if b.circles:
        for i in range(b.dim):
            los = [o[i] - r * math.sqrt(max(0.0, 1 - n[i] * n[i])) for (o, n, r) in b.circles]
            his = [o[i] + r * math.sqrt(max(0.0, 1 - n[i] * n[i])) for (o, n, r) in b.circles]
            for pr in b.prims:
                if pr[0] == 'P':
                    los += [p[i] for p in pr[1]]
                    his += [p[i] for p in pr[1]]
            if abs(min(los) - mn[i]) > tol or abs(max(his) - mx[i]) > tol:
                out.append(_fail(sig, '%s: box side %s reported %r .. %r, closed form '
                                 'o +- r*sqrt(1-n^2) gives %r .. %r' % (
                                     short(spec), names[i], mn[i], mx[i], min(los), max(his)),
                                 'object', spec, clause='tight'))
                return out
    # center is the midpoint
    if has_center(cls):
        try:
            ce = b.obj.center
            ce = [float(ce[i]) for i in range(b.dim)]
        except Exception as e:
            return [_fail('%s.center|raises %s' % (cls, type(e).__name__),
                          '%s: center raises %s' % (short(spec), e), 'object', spec)]
        ftol = Fraction(tol)
        for i in range(b.dim):
            mid = (Fraction(mn[i]) + Fraction(mx[i])) / 2
            if abs(Fraction(ce[i]) - mid) > ftol:
                out.append(_fail('%s.center|not-midpoint' % cls,
                                 '%s: center.%s = %r, midpoint of min/max = %r' % (
                                     short(spec), names[i], ce[i], float(mid)), 'object', spec,
                                 clause='center'))
                return out
    return out


def has_center(cls):
    return cls in ('LineSegment2D', 'Ray2D', 'LineSegment3D', 'Ray3D', 'Polyline2D',
                   'Polygon2D', 'Polyline3D', 'Mesh2D', 'Mesh3D', 'Face3D', 'Polyface3D',
                   'Sphere')


HAS_VERTICES = ('LineSegment2D', 'LineSegment3D', 'Polyline2D', 'Polygon2D', 'Polyline3D',
                'Mesh2D', 'Mesh3D', 'Face3D', 'Polyface3D')


# ------------------------------------------------------------------ collections
def _call(f, *a):
    try:
        return ('ok', f(*a))
    except Exception as e:          # noqa
        return ('err', '%s: %s' % (type(e).__name__, e))


_MEMBER_OK = {}


def check_collection(spec, only=None):
    """spec = {'members': [...], 'axis_angle': a}.  -> list of failures."""
    a = spec['axis_angle']
    try:
        ms = [build(s, 32) for s in spec['members']]
    except Exception as e:
        return [_fail('bounding|member construct raises %s' % type(e).__name__,
                      '%s: %s' % (short(spec), e), 'collection', spec)]
    objs = [m.obj for m in ms]
    # a member whose own box is wrong is reported by the object checks, not once more here
    geometric = True
    for sp in spec['members']:
        key = json.dumps(sp, sort_keys=True)
        if key not in _MEMBER_OK:
            if len(_MEMBER_OK) > 20000:
                _MEMBER_OK.clear()
            _MEMBER_OK[key] = not check_object(sp, 32)
        if not _MEMBER_OK[key]:
            geometric = False
    dims = set(m.dim for m in ms)
    all3 = dims == {3}
    all2 = dims == {2}
    prims = [pr for m in ms for pr in m.prims]
    scale = max(m.scale for m in ms)
    tol = TOL * scale * 4
    classes = '+'.join(sorted(set(m.cls for m in ms)))
    rot = 'axis_angle=0' if a == 0 else 'rotated'
    u = (math.cos(a), math.sin(a), 0.0)
    w = (-math.sin(a), math.cos(a), 0.0)
    nu, nw = mul(u, -1.0), mul(w, -1.0)
    x0, x1 = -support(prims, nu), support(prims, u)
    y0, y1 = -support(prims, nw), support(prims, w)
    z0, z1 = -support(prims, NAXES[2]), support(prims, AXES[2])
    out = []

    def bad(fn, what, **kw):
        out.append(_fail('bounding.%s|%s|%s' % (fn, rot, classes),
                         'bounding.%s(%s): %s' % (fn, short(spec), what), 'collection', spec,
                         fn=fn, **kw))

    def want(fn):
        return only is None or only == fn

    def close(obs, exp):
        if not geometric:
            return True
        return len(obs) == len(exp) and all(abs(float(o) - e) <= tol for o, e in zip(obs, exp))

    # literal hull of the reported member boxes (no arithmetic involved: exact)
    try:
        mns = [m.obj.min for m in ms]
        mxs = [m.obj.max for m in ms]
    except Exception as e:
        return [_fail('bounding|member min/max raises %s' % type(e).__name__,
                      '%s: %s' % (short(spec), e), 'collection', spec)]

    def hull(i):
        lo = min((p[i] if i < len(p) else 0.0) for p in mns)
        hi = max((p[i] if i < len(p) else 0.0) for p in mxs)
        return lo, hi
    if a == 0:
        doms = [('bounding_domain_x', 0), ('bounding_domain_y', 1)]
        if all3:
            doms.append(('bounding_domain_z', 2))
        doms.append(('bounding_domain_z_2d_safe', 2))
        for fn, i in doms:
            if not want(fn):
                continue
            r = _call(getattr(bounding, fn), objs)
            if r[0] == 'err':
                bad(fn, 'raises ' + r[1])
            elif tuple(r[1]) != hull(i):
                bad(fn, 'returns %r, hull of the member boxes is %r' % (r[1], hull(i)))
            elif not close(r[1], ((x0, x1), (y0, y1), (z0, z1))[i]):
                bad(fn, 'returns %r, extent of the geometry is %r' % (
                    r[1], ((x0, x1), (y0, y1), (z0, z1))[i]))
    # rectangle
    if (all2 or all3 or a == 0):
        if want('bounding_rectangle'):
            r = _call(bounding.bounding_rectangle, objs, a)
            emin = (x0 * u[0] + y0 * w[0], x0 * u[1] + y0 * w[1])
            emax = (x1 * u[0] + y1 * w[0], x1 * u[1] + y1 * w[1])
            if r[0] == 'err':
                bad('bounding_rectangle', 'raises ' + r[1])
            else:
                mn, mx = r[1]
                if not (close(tuple(mn), emin) and close(tuple(mx), emax)):
                    bad('bounding_rectangle', 'axis_angle %r returns %r, %r; the oriented '
                        'rectangle of the geometry has corners %r, %r' % (
                            a, tuple(mn), tuple(mx), emin, emax))
                elif a == 0 and (tuple(mn), tuple(mx)) != (
                        (hull(0)[0], hull(1)[0]), (hull(0)[1], hull(1)[1])):
                    bad('bounding_rectangle', 'returns %r, %r which is not the hull of the '
                        'member boxes' % (tuple(mn), tuple(mx)))
        if want('bounding_rectangle_extents'):
            r = _call(bounding.bounding_rectangle_extents, objs, a)
            if r[0] == 'err':
                bad('bounding_rectangle_extents', 'raises ' + r[1])
            elif not close(r[1], (x1 - x0, y1 - y0)):
                bad('bounding_rectangle_extents', 'axis_angle %r returns %r, extents of the '
                    'geometry in the rotated frame are %r' % (a, r[1], (x1 - x0, y1 - y0)))
    # box
    if all3 or a == 0:
        if want('bounding_box'):
            r = _call(bounding.bounding_box, objs, a)
            emin = (x0 * u[0] + y0 * w[0], x0 * u[1] + y0 * w[1], z0)
            emax = (x1 * u[0] + y1 * w[0], x1 * u[1] + y1 * w[1], z1)
            if r[0] == 'err':
                bad('bounding_box', 'raises ' + r[1])
            else:
                mn, mx = r[1]
                if not (close(tuple(mn), emin) and close(tuple(mx), emax)):
                    bad('bounding_box', 'axis_angle %r returns %r, %r; the oriented box of '
                        'the geometry has corners %r, %r' % (
                            a, tuple(mn), tuple(mx), emin, emax))
                elif a == 0 and (tuple(mn), tuple(mx)) != (
                        tuple(hull(i)[0] for i in range(3)),
                        tuple(hull(i)[1] for i in range(3))):
                    bad('bounding_box', 'returns %r, %r which is not the hull of the member '
                        'boxes' % (tuple(mn), tuple(mx)))
        if want('bounding_box_extents'):
            r = _call(bounding.bounding_box_extents, objs, a)
            if r[0] == 'err':
                bad('bounding_box_extents', 'raises ' + r[1])
            elif not close(r[1], (x1 - x0, y1 - y0, z1 - z0)):
                bad('bounding_box_extents', 'axis_angle %r returns %r, extents of the geometry '
                    'in the rotated frame are %r' % (a, r[1], (x1 - x0, y1 - y0, z1 - z0)))
    return out


_C2 = [{'cls': 'LineSegment2D', 'p': [0.0, 0.0], 'v': [1.0, 2.0]},
       {'cls': 'LineSegment2D', 'p': [3.0, -1.0], 'v': [1.0, 1.0]},
       {'cls': 'LineSegment2D', 'p': [-2.0, 5.0], 'v': [1.0, -1.0]}]
_C3 = [{'cls': 'LineSegment3D', 'p': [0.0, 0.0, 0.0], 'v': [1.0, 2.0, 3.0]},
       {'cls': 'LineSegment3D', 'p': [3.0, -1.0, 5.0], 'v': [1.0, 1.0, 1.0]},
       {'cls': 'LineSegment3D', 'p': [-2.0, 5.0, -4.0], 'v': [1.0, -1.0, -1.0]}]
_CM = [[{'cls': 'LineSegment3D', 'p': [0.0, 0.0, -5.0], 'v': [1.0, 2.0, 3.0]}, _C2[1]],
       [{'cls': 'LineSegment3D', 'p': [0.0, 0.0, 2.0], 'v': [1.0, 2.0, 3.0]}, _C2[1]],
       [_C2[1], {'cls': 'LineSegment3D', 'p': [0.0, 0.0, 2.0], 'v': [1.0, 2.0, 3.0]}]]


def shrink_collection(spec, fn):
    """Drop members while the same helper keeps failing.  If the helper already fails on a
    canonical collection of segments the defect is not tied to a member class."""
    a = spec['axis_angle']
    for mem in [[_C2[0]], _C2, [_C3[0]], _C3] + (_CM if a == 0 else []):
        for ang in ((0,) if a == 0 else (0.5, a)):
            cand = {'members': mem, 'axis_angle': ang}
            fs = [f for f in check_collection(cand, fn) if f.get('fn') == fn]
            if fs:
                f = fs[0]
                f['signature'] = '|'.join(f['signature'].split('|')[:2])
                return f
    cur = spec
    changed = True
    while changed and len(cur['members']) > 1:
        changed = False
        for i in range(len(cur['members']) - 1, -1, -1):
            mem = cur['members'][:i] + cur['members'][i + 1:]
            if cur['axis_angle'] != 0 and mem[0]['cls'] not in HAS_VERTICES:
                continue
            cand = {'members': mem, 'axis_angle': cur['axis_angle']}
            fs = [f for f in check_collection(cand, fn) if f.get('fn') == fn]
            if fs:
                cur = cand
                changed = True
                break
    for ang in (round(cur['axis_angle'], 1), round(cur['axis_angle'], 3)):
        if ang != 0 and ang != cur['axis_angle']:
            cand = {'members': cur['members'], 'axis_angle': ang}
            if [f for f in check_collection(cand, fn) if f.get('fn') == fn]:
                cur = cand
                break
    # members that can be replaced by a canonical segment are not the culprit
    for i in range(len(cur['members'])):
        m = cur['members'][i]
        canon = _C2[0] if m['cls'].endswith('2D') else _C3[0]
        if m == canon:
            continue
        cand = {'members': cur['members'][:i] + [canon] + cur['members'][i + 1:],
                'axis_angle': cur['axis_angle']}
        if [f for f in check_collection(cand, fn) if f.get('fn') == fn]:
            cur = cand
    fs = [f for f in check_collection(cur, fn) if f.get('fn') == fn]
    if not fs:
        return None
    f = fs[0]
    culprits = sorted(set(m['cls'] for m in cur['members'] if m not in (_C2[0], _C3[0])))
    f['signature'] = '|'.join(f['signature'].split('|')[:2] + (['+'.join(culprits)] if culprits
                                                                else []))
    return f


# ------------------------------------------------------------------ overlap predicates
OVERLAP_FUNCS = {
    'bounding.overlapping_bounding_rect': (bounding.overlapping_bounding_rect, 2),
    'bounding.overlapping_bounding_boxes': (bounding.overlapping_bounding_boxes, 3),
    'Polygon2D.overlapping_bounding_rect': (Polygon2D.overlapping_bounding_rect, 2),
    'Polyface3D.overlapping_bounding_boxes': (Polyface3D.overlapping_bounding_boxes, 3),
}


def check_overlap(spec):
    """spec = {'fn', 'a', 'b', 'd', 'exact'} -> (failures, label)."""
    f, nax = OVERLAP_FUNCS[spec['fn']]
    try:
        A, B = build(spec['a'], 8), build(spec['b'], 8)
        boxes = []
        for o in (A.obj, B.obj):
            boxes.append(([Fraction(float(o.min[i])) for i in range(nax)],
                          [Fraction(float(o.max[i])) for i in range(nax)]))
    except Exception as e:
        return [_fail('%s|operand raises %s' % (spec['fn'], type(e).__name__),
                      '%s: %s' % (short(spec), e), 'overlap', spec)], 'error'
    d = Fraction(spec['d'])
    (mn1, mx1), (mn2, mx2) = boxes
    gaps = [max(mn1[i] - mx2[i], mn2[i] - mx1[i]) for i in range(nax)]
    band = Fraction(0) if spec.get('exact') else Fraction(TOL * max(A.scale, B.scale, spec['d']))
    if any(g > d + band for g in gaps):
        exp = False
    elif all(g < d - band or (band == 0 and g <= d) for g in gaps):
        exp = True
    else:
        return [], 'threshold-band (not judged)'
    label = ('overlap' if exp else 'apart') + \
        ('-touching' if any(g == d for g in gaps) and exp else '')
    r1 = _call(f, A.obj, B.obj, spec['d'])
    r2 = _call(f, B.obj, A.obj, spec['d'])
    out = []
    for r in (r1, r2):
        if r[0] == 'err':
            out.append(_fail('%s|raises %s' % (spec['fn'], r[1].split(':')[0]),
                             '%s: raises %s' % (short(spec), r[1]), 'overlap', spec))
            return out, label
    if r1[1] is not exp and r1[1] != exp or r2[1] != exp:
        if r1[1] != r2[1]:
            out.append(_fail('%s|asymmetric' % spec['fn'],
                             '%s: f(a,b) = %r but f(b,a) = %r; gaps per axis %r, distance %r '
                             '(exact gap test: %r)' % (short(spec), r1[1], r2[1],
                                                       [float(g) for g in gaps], spec['d'], exp),
                             'overlap', spec))
        else:
            out.append(_fail('%s|differs-from-gap-test' % spec['fn'],
                             '%s: returns %r; boxes %r / %r have gaps %r per axis, distance %r '
                             '=> %r' % (short(spec), r1[1],
                                        ([float(x) for x in mn1], [float(x) for x in mx1]),
                                        ([float(x) for x in mn2], [float(x) for x in mx2]),
                                        [float(g) for g in gaps], spec['d'], exp),
                             'overlap', spec))
    return out, label


# ------------------------------------------------------------------ generators
def rot2(p, th):
    c, s = math.cos(th), math.sin(th)
    return (p[0] * c - p[1] * s, p[0] * s + p[1] * c)


class G(object):
    def __init__(self, rng):
        self.r = rng

    def mag(self):
        return self.r.choice([1.0, 10.0, 10.0, 1e3])

    def lat(self, lo=-16, hi=16):
        return self.r.randint(lo * 4, hi * 4) / 4.0

    def coord(self, stream):
        if stream == 'lattice':
            return self.lat()
        m = self.mag()
        return self.r.uniform(-m, m)

    def pt(self, dim, stream):
        return [self.coord(stream) for _ in range(dim)]

    def vec(self, dim, stream):
        r = self.r
        while True:
            if stream == 'lattice':
                v = [self.lat(-8, 8) for _ in range(dim)]
            elif stream == 'neardeg':
                v = [r.choice([0.0, 0.0, r.uniform(-5, 5), 1e-7, -1e3]) for _ in range(dim)]
            else:
                m = r.choice([0.5, 5.0, 50.0])
                v = [r.uniform(-m, m) for _ in range(dim)]
            if any(v):
                return v

    def normal(self, stream):
        r = self.r
        ax = [[1.0, 0.0, 0.0], [0.0, 1.0, 0.0], [0.0, 0.0, 1.0], [-1.0, 0.0, 0.0],
              [0.0, -1.0, 0.0], [0.0, 0.0, -1.0]]
        if stream == 'lattice':
            return r.choice(ax + [[0.6, 0.8, 0.0], [0.0, 0.6, -0.8], [0.8, 0.0, 0.6],
                                  [1.0, 1.0, 0.0], [1.0, 1.0, 1.0], [2.0, -1.0, 2.0]])
        if stream == 'neardeg':
            base = r.choice(ax)
            tilt = r.choice([1e-4, 1e-3, 1e-2]) if not CHECK_NEAR_AXIS_NORMALS else \
                r.choice([1e-9, 1e-8, 1e-7, 1e-6, 1e-5])
            v = [b + tilt * r.choice([-1, 1]) * (b == 0) * r.random() for b in base]
            if [abs(x) for x in v] == [abs(x) for x in base]:
                v[(base.index(max(base, key=abs)) + 1) % 3] = tilt
            return v
        while True:
            v = [r.gauss(0, 1), r.gauss(0, 1), r.gauss(0, 1)]
            n = math.sqrt(sum(x * x for x in v))
            if n < 0.1:
                continue
            v = [x / n for x in v]
            # stay >= 1e-4 rad away from the axes (see CHECK_NEAR_AXIS_NORMALS)
            if all(math.sqrt(max(0.0, 1 - x * x)) > 1e-3 for x in v):
                k = r.choice([1.0, 1.0, 2.5])
                return [x * k for x in v]

    def frame(self, stream):
        """Orthonormal (o, ex, ey, ez) for placing planar shapes in space."""
        if stream == 'lattice':      # signed permutation of the world axes: stays dyadic
            i = self.r.randrange(3)
            sg = self.r.choice([-1.0, 1.0])
            fx = tuple(sg if k == i else 0.0 for k in range(3))
            fy = tuple(1.0 if k == (i + 1) % 3 else 0.0 for k in range(3))
            return (tuple(self.pt(3, stream)), fx, fy, cross(fx, fy))
        n = p3(self.normal(stream if stream != 'neardeg' else 'real'))
        ex, ey = ortho_basis(n)
        th = self.r.uniform(0, TWO_PI) if stream != 'lattice' else 0.0
        c, s = math.cos(th), math.sin(th)
        fx = add(mul(ex, c), mul(ey, s))
        fy = add(mul(ex, -s), mul(ey, c))
        return (tuple(self.pt(3, stream)), fx, fy, unit(n))

    def angle_pair(self, stream):
        r = self.r
        if stream == 'lattice':
            return r.randint(0, GRID) * TWO_PI / GRID, r.randint(0, GRID) * TWO_PI / GRID
        if stream == 'neardeg':
            def near():
                a = r.randint(0, 4) * (math.pi / 2) + \
                    r.choice([-1, 1]) * r.choice([0.0, 1e-15, 1e-12, 1e-9, 1e-6, 1e-3])
                return min(TWO_PI, max(0.0, a))
            a1 = near()
            a2 = near() if r.random() < 0.7 else min(TWO_PI, max(
                0.0, a1 + r.choice([-1, 1]) * r.choice([1e-12, 1e-9, 1e-6, 1e-3])))
            return a1, a2
        return r.uniform(0, TWO_PI), r.uniform(0, TWO_PI)

    def radius(self, stream):
        r = self.r
        if stream == 'lattice':
            return r.randint(1, 32) / 4.0
        if stream == 'neardeg':
            return r.choice([1e-3, 0.5, 1.0, 1e3])
        return r.choice([r.uniform(0.05, 2), r.uniform(1, 20), r.uniform(20, 500)])

    # ---- planar shapes in local coordinates
    def poly_local(self, stream):
        r = self.r
        kind = r.choice(['star', 'convex', 'rectilinear', 'concave-notch']) \
            if stream != 'lattice' else r.choice(['rectilinear', 'lattice-star'])
        if kind == 'star':
            n = r.randint(3, 10)
            pts = []
            for k in range(n):
                t = (k + r.uniform(-0.3, 0.3)) * TWO_PI / n
                rad = r.uniform(2.0, 5.0)
                pts.append((rad * math.cos(t), rad * math.sin(t)))
        elif kind == 'convex':
            n = r.randint(3, 9)
            ax, by = r.uniform(1, 5), r.uniform(1, 5)
            pts = []
            for k in range(n):
                t = (k + r.uniform(-0.3, 0.3)) * TWO_PI / n
                pts.append((ax * math.cos(t), by * math.sin(t)))
        elif kind == 'concave-notch':
            w, h = r.uniform(3, 8), r.uniform(3, 8)
            nx, nd = r.uniform(0.2, 0.8) * w, r.uniform(0.2, 0.9) * h
            pts = [(0, 0), (w, 0), (w, h), (nx + 0.1 * w, h), (nx, h - nd),
                   (nx - 0.1 * w, h), (0, h)]
        elif kind == 'lattice-star':
            ring = [(4, 0), (4, 1), (3, 2), (2, 3), (1, 4), (0, 4), (-1, 4), (-2, 3), (-3, 2),
                    (-4, 1), (-4, 0), (-4, -1), (-3, -2), (-2, -3), (-1, -4), (0, -4),
                    (1, -4), (2, -3), (3, -2), (4, -1)]
            idx = sorted(r.sample(range(20), r.randint(3, 9)))
            k = r.choice([0.5, 1.0, 1.5])
            pts = [(ring[i][0] * k, ring[i][1] * k) for i in idx]
        else:
            s = (lambda: r.randint(1, 6) / 2.0) if stream == 'lattice' else \
                (lambda: r.uniform(0.5, 3.0))
            shape = r.choice(['L', 'U', 'T', 'stairs', 'rect'])
            if shape == 'rect':
                a, b_ = s(), s()
                pts = [(0, 0), (a, 0), (a, b_), (0, b_)]
            elif shape == 'L':
                a, b_, c, d = s(), s(), s(), s()
                pts = [(0, 0), (a + c, 0), (a + c, b_), (a, b_), (a, b_ + d), (0, b_ + d)]
            elif shape == 'U':
                a, b_, c, d = s(), s(), s(), s()
                pts = [(0, 0), (2 * a + c, 0), (2 * a + c, b_ + d), (a + c, b_ + d), (a + c, b_),
                       (a, b_), (a, b_ + d), (0, b_ + d)]
            elif shape == 'T':
                a, b_, c, d = s(), s(), s(), s()
                pts = [(a, 0), (a + c, 0), (a + c, b_), (2 * a + c, b_), (2 * a + c, b_ + d),
                       (0, b_ + d), (0, b_), (a, b_)]
            else:
                k = r.randint(2, 4)
                xs, ys = [0.0], [0.0]
                for _ in range(k):
                    xs.append(xs[-1] + s())
                    ys.append(ys[-1] + s())
                pts = [(0.0, 0.0), (xs[-1], 0.0)]
                for i in range(k, 0, -1):
                    pts.append((xs[i], ys[k - i + 1]))
                    pts.append((xs[i - 1], ys[k - i + 1]))
                pts = pts[:-1] + [(0.0, ys[k])] if pts[-1][0] != 0.0 else pts
        if r.random() < 0.5:
            pts = pts[::-1]
        k = r.randrange(len(pts))
        pts = pts[k:] + pts[:k]
        return kind, [(float(x), float(y)) for x, y in pts]

    def holes_local(self, kind, pts):
        """Small convex holes strictly inside a star polygon with >= 6 vertices."""
        r = self.r
        if kind != 'star' or len(pts) < 6 or r.random() < 0.4:
            return []
        phi = r.uniform(0, TWO_PI)
        out = []
        for j in range(r.randint(1, 2)):
            cx, cy = 0.55 * math.cos(phi + j * math.pi), 0.55 * math.sin(phi + j * math.pi)
            n = r.randint(3, 5)
            t0 = r.uniform(0, TWO_PI)
            h = [(cx + 0.3 * math.cos(t0 + k * TWO_PI / n), cy + 0.3 * math.sin(
                t0 + k * TWO_PI / n)) for k in range(n)]
            if r.random() < 0.5:
                h.reverse()
            out.append(h)
        return out

    def place2(self, pts, stream):
        r = self.r
        if stream == 'lattice':
            q = r.randint(0, 3)
            dx, dy = self.lat(), self.lat()
            rt = [lambda p: p, lambda p: (-p[1], p[0]), lambda p: (-p[0], -p[1]),
                  lambda p: (p[1], -p[0])][q]
            return lambda p: [rt(p)[0] + dx, rt(p)[1] + dy]
        th = r.choice([0.0, r.uniform(0, TWO_PI), r.uniform(0, TWO_PI)])
        dx, dy = self.coord(stream), self.coord(stream)
        return lambda p: [rot2(p, th)[0] + dx, rot2(p, th)[1] + dy]

    def mesh_local(self, stream):
        r = self.r
        if r.random() < 0.5:
            nx, ny = r.randint(1, 4), r.randint(1, 4)
            dx = r.randint(1, 4) / 2.0 if stream == 'lattice' else r.uniform(0.3, 2)
            dy = r.randint(1, 4) / 2.0 if stream == 'lattice' else r.uniform(0.3, 2)
            pts = [(i * dx, j * dy) for i in range(nx + 1) for j in range(ny + 1)]
            faces = []
            for i in range(nx):
                for j in range(ny):
                    a = i * (ny + 1) + j
                    quad = (a, a + ny + 1, a + ny + 2, a + 1)
                    if r.random() < 0.25:
                        faces += [(quad[0], quad[1], quad[2]), (quad[2], quad[3], quad[0])]
                    else:
                        faces.append(quad)
            return pts, faces
        kind, ring = self.poly_local('real' if stream != 'lattice' else 'lattice')
        cx = sum(p[0] for p in ring) / len(ring)
        cy = sum(p[1] for p in ring) / len(ring)
        if stream == 'lattice':
            cx, cy = round(cx * 4) / 4.0, round(cy * 4) / 4.0
        pts = [(cx, cy)] + ring
        n = len(ring)
        faces = [(0, 1 + i, 1 + (i + 1) % n) for i in range(n)]
        return pts, faces

    # ---- specs
    def spec(self, cls, stream):
        r = self.r
        if cls in ('Point2D', 'Point3D'):
            return {'cls': cls, 'p': self.pt(2 if cls == 'Point2D' else 3, stream)}
        if cls in ('LineSegment2D', 'Ray2D', 'LineSegment3D', 'Ray3D'):
            d = 2 if cls.endswith('2D') else 3
            return {'cls': cls, 'p': self.pt(d, stream), 'v': self.vec(d, stream)}
        if cls == 'Arc2D':
            a1, a2 = self.angle_pair(stream)
            if stream != 'neardeg' and r.random() < 0.08:
                a1, a2 = 0, TWO_PI
            return {'cls': cls, 'c': self.pt(2, stream), 'r': self.radius(stream),
                    'a1': a1, 'a2': a2}
        if cls == 'Arc3D':
            a1, a2 = self.angle_pair(stream if stream != 'neardeg' or r.random() < 0.5
                                     else 'real')
            if r.random() < 0.15:
                a1, a2 = 0, TWO_PI
            n = self.normal(stream)
            x = None
            if r.random() < 0.4:
                ex, ey = ortho_basis(p3(n))
                th = r.uniform(0, TWO_PI) if stream != 'lattice' else 0.0
                x = list(add(mul(ex, math.cos(th)), mul(ey, math.sin(th))))
            return {'cls': cls, 'n': n, 'o': self.pt(3, 'real' if stream == 'neardeg'
                                                     else stream), 'x': x,
                    'r': self.radius(stream), 'a1': a1, 'a2': a2}
        if cls == 'Polygon2D':
            kind, pts = self.poly_local(stream)
            pl = self.place2(pts, stream)
            return {'cls': cls, 'pts': [pl(p) for p in pts], 'shape': kind}
        if cls == 'Polyline2D':
            n = r.randint(3, 8)
            if r.random() < 0.3:
                kind, pts = self.poly_local(stream)
                pts = pts[:max(3, n)]
            else:
                pts = [(0.0, 0.0)]
                for _ in range(n - 1):
                    v = self.vec(2, stream if stream != 'real' else r.choice(['real', 'neardeg']))
                    pts.append((pts[-1][0] + v[0], pts[-1][1] + v[1]))
            pl = self.place2(pts, stream)
            return {'cls': cls, 'pts': [pl(p) for p in pts]}
        if cls == 'Polyline3D':
            n = r.randint(3, 8)
            p = self.pt(3, stream)
            pts = [p]
            for _ in range(n - 1):
                v = self.vec(3, stream if stream != 'real' else r.choice(['real', 'neardeg']))
                pts.append([pts[-1][i] + v[i] for i in range(3)])
            return {'cls': cls, 'pts': pts}
        if cls == 'Mesh2D':
            pts, faces = self.mesh_local(stream)
            pl = self.place2(pts, stream)
            return {'cls': cls, 'pts': [pl(p) for p in pts], 'faces': [list(f) for f in faces]}
        if cls == 'Mesh3D':
            pts, faces = self.mesh_local(stream)
            o, fx, fy, fz = self.frame(stream)
            bump = 0.0 if stream == 'lattice' or r.random() < 0.5 else 0.3
            out = []
            for p in pts:
                q = add(add(o, mul(fx, p[0])), add(mul(fy, p[1]), mul(fz, r.uniform(-bump, bump))))
                out.append(list(q))
            return {'cls': cls, 'pts': out, 'faces': [list(f) for f in faces]}
        if cls == 'Face3D':
            if stream == 'lattice':
                p = self.pt(3, 'lattice')
                while True:
                    a, b_ = self.vec(3, 'lattice'), self.vec(3, 'lattice')
                    if any(cross(p3(a), p3(b_))):
                        break
                if r.random() < 0.5:
                    pts = [p, [p[i] + a[i] for i in range(3)], [p[i] + b_[i] for i in range(3)]]
                else:
                    pts = [p, [p[i] + a[i] for i in range(3)],
                           [p[i] + a[i] + b_[i] for i in range(3)],
                           [p[i] + b_[i] for i in range(3)]]
                return {'cls': cls, 'pts': pts, 'holes': []}
            kind, pts = self.poly_local('real')
            holes = self.holes_local(kind, pts)
            o, fx, fy, fz = self.frame(stream)

            def up(q):
                return list(add(o, add(mul(fx, q[0]), mul(fy, q[1]))))
            return {'cls': cls, 'pts': [up(q) for q in pts],
                    'holes': [[up(q) for q in h] for h in holes], 'shape': kind}
        if cls == 'Polyface3D':
            try:
                if stream == 'lattice':
                    pf = Polyface3D.from_box(r.randint(1, 12) / 2.0, r.randint(1, 12) / 2.0,
                                             r.randint(1, 12) / 2.0)
                    mv = self.pt(3, 'lattice')
                    verts = [[v.x + mv[0], v.y + mv[1], v.z + mv[2]] for v in pf.vertices]
                    return {'cls': cls, 'pts': verts, 'face_indices': _lst(pf.face_indices),
                            'shape': 'box'}
                o, fx, fy, fz = self.frame(stream)
                pl = Plane(Vector3D(*fz), Point3D(*o), Vector3D(*fx))
                how = r.choice(['box', 'offset', 'offset-holes', 'open'])
                if how == 'box' or how == 'open':
                    pf = Polyface3D.from_box(r.uniform(0.5, 6), r.uniform(0.5, 6),
                                             r.uniform(0.5, 6), pl)
                    if how == 'open':
                        fcs = list(pf.faces)
                        del fcs[r.randrange(len(fcs))]
                        pf = Polyface3D.from_faces(fcs, 1e-6)
                else:
                    kind, pts = self.poly_local('real')
                    holes = self.holes_local(kind, pts) if how == 'offset-holes' else []
                    f = Face3D([pl.xy_to_xyz(Point2D(*q)) for q in pts], None,
                               [[pl.xy_to_xyz(Point2D(*q)) for q in h] for h in holes] or None)
                    pf = Polyface3D.from_offset_face(f, r.uniform(0.3, 4))
                return {'cls': cls, 'pts': [list(v) for v in pf.vertices],
                        'face_indices': _lst(pf.face_indices), 'shape': how}
            except Exception:
                return None           # a factory problem is not C10's business
        if cls == 'Sphere':
            return {'cls': cls, 'c': self.pt(3, stream), 'r': self.radius(stream)}
        if cls == 'Cone':
            n = unit(p3(self.normal(stream)))
            h = self.radius(stream)
            return {'cls': cls, 'p': self.pt(3, stream if stream != 'neardeg' else 'real'),
                    'axis': [x * h for x in n],
                    'angle': r.choice([r.uniform(0.05, 1.3), 0.5, math.pi / 4])}
        if cls == 'Cylinder':
            n = unit(p3(self.normal(stream)))
            h = self.radius(stream)
            return {'cls': cls, 'p': self.pt(3, stream if stream != 'neardeg' else 'real'),
                    'axis': [x * h for x in n], 'r': self.radius(stream)}
        raise ValueError(cls)


def _lst(x):
    return [_lst(y) for y in x] if isinstance(x, (list, tuple)) else x


CLASSES_2D = ['Point2D', 'LineSegment2D', 'Ray2D', 'Arc2D', 'Polyline2D', 'Polygon2D', 'Mesh2D']
CLASSES_3D = ['Point3D', 'LineSegment3D', 'Ray3D', 'Arc3D', 'Polyline3D', 'Face3D', 'Mesh3D',
              'Polyface3D', 'Sphere', 'Cone', 'Cylinder']


def is_dyadic(x):
    """Every number in the spec is a multiple of 1/8 below 2**12 (float arithmetic exact)."""
    if isinstance(x, dict):
        return all(is_dyadic(v) for k, v in x.items() if k not in ('cls', 'shape'))
    if isinstance(x, (list, tuple)):
        return all(is_dyadic(v) for v in x)
    if isinstance(x, bool) or x is None or isinstance(x, str):
        return True
    if isinstance(x, int):
        return abs(x) < 4096
    return abs(x) < 4096 and float(x * 8).is_integer()


def translate_spec(spec, vec):
    s = json.loads(json.dumps(spec))
    for k in ('p', 'c', 'o'):
        if k in s:
            s[k] = [s[k][i] + vec[i] for i in range(len(s[k]))]
    if 'pts' in s:
        s['pts'] = [[p[i] + vec[i] for i in range(len(p))] for p in s['pts']]
    if s.get('holes'):
        s['holes'] = [[[p[i] + vec[i] for i in range(len(p))] for p in h] for h in s['holes']]
    return s


# ------------------------------------------------------------------ shrinking single objects
def shrink_object(spec, sig):
    """Try simpler specs that keep failing with the same signature."""
    def fails(s):
        try:
            fs = check_object(s)
        except Exception:
            return None
        for f in fs:
            if f['signature'] == sig:
                return f
        return None
    cur = spec
    cands = []
    c = spec['cls']
    if c == 'Arc2D':
        cands = [dict(spec, c=[0.0, 0.0]), dict(spec, r=1.0), dict(spec, c=[0.0, 0.0], r=1.0)]
    elif c == 'Arc3D':
        cands = [dict(spec, o=[0.0, 0.0, 0.0]), dict(spec, r=1.0), dict(spec, x=None),
                 dict(spec, n=[round(v, 1) for v in spec['n']]),
                 dict(spec, n=[1.0, 1.0, 1.0])]
    elif c in ('Sphere',):
        cands = [dict(spec, c=[0.0, 0.0, 0.0]), dict(spec, r=1.0)]
    elif c in ('Cone', 'Cylinder'):
        cands = [dict(spec, p=[0.0, 0.0, 0.0]), dict(spec, axis=[round(v, 1) for v in
                                                                 spec['axis']])]
    for cand in cands:
        try:
            m = dict(cur)
            m.update(dict((k, cand[k]) for k in cand if cand[k] != spec.get(k)))
            if fails(m):
                cur = m
        except Exception:
            pass
    if c in ('Arc2D', 'Arc3D') and config_of(cur) != 'circle':
        for nd in (1, 2, 3, 6):
            m = dict(cur, a1=min(TWO_PI, round(cur['a1'], nd)), a2=min(TWO_PI, round(cur['a2'], nd)))
            if span(m['a1'], m['a2']) < 0.01 <= span(cur['a1'], cur['a2']):
                continue
            if config_of(m) == config_of(cur) and fails(m):
                cur = m
                break
    if 'pts' in cur and c in ('Polyline2D', 'Polyline3D', 'Polygon2D', 'Face3D'):
        lo = 3 if c in ('Polygon2D', 'Face3D') else 2
        if c == 'Face3D' and cur.get('holes'):
            m = dict(cur, holes=[])
            if fails(m):
                cur = m
        changed = True
        while changed and len(cur['pts']) > lo:
            changed = False
            for i in range(len(cur['pts'])):
                m = dict(cur, pts=cur['pts'][:i] + cur['pts'][i + 1:])
                if fails(m):
                    cur = m
                    changed = True
                    break
    return fails(cur) or fails(spec)


# ------------------------------------------------------------------ run
def run(ctx):
    seed = ctx.seed
    thorough = ctx.tier == 'thorough' or bool(ctx.broken)
    t_start = time.time()
    budget = 600.0 if thorough else 36.0
    deadline = min(getattr(ctx, 'deadline', t_start + budget), t_start + budget)
    K = 25 if thorough else 1
    evaluations = 0
    nontrivial = set()
    failures = {}
    hist = {'objects_per_class': {}, 'streams': {}, 'arc2d_config': {}, 'arc3d_config': {},
            'polygon_shapes': {}, 'collections_size': {}, 'collections_kind': {},
            'collections_axis_angle': {}, 'overlap_fn': {}, 'overlap_outcome': {},
            'skipped': {}}
    samples = []

    def bump(h, k, n=1):
        hist[h][k] = hist[h].get(k, 0) + n

    shrinks = {}

    def record(f, shrinker=None, resign=False):
        sig = f['signature']
        if sig in failures:
            failures[sig]['hits'] += 1
            return
        g = None
        if resign:
            # the signature of a collection failure names the classes of the *minimal* failing
            # sub-collection; shrink a few per helper, count the others on the first of them
            pre = '|'.join(sig.split('|')[:2])
            if shrinks.get(pre, 0) >= 3:
                for k in sorted(failures):
                    if k.startswith(pre):
                        failures[k]['hits'] += 1
                        return
            shrinks[pre] = shrinks.get(pre, 0) + 1
        if shrinker is not None:
            try:
                g = shrinker(f)
            except Exception as e:
                g = dict(f, shrink_error='%s: %s' % (type(e).__name__, e))
        g = dict(g or f)
        if resign:
            sig = g['signature']
            if sig in failures:
                failures[sig]['hits'] += 1
                return
        g['signature'] = sig
        g['seed'] = seed
        g['hits'] = 1
        failures[sig] = g

    def do_object(spec, stream):
        nonlocal evaluations
        if spec is None:
            bump('skipped', 'factory-raised')
            return
        evaluations += 1
        cls = spec['cls']
        bump('objects_per_class', cls)
        bump('streams', stream)
        cfg = config_of(spec)
        if cls == 'Arc2D':
            bump('arc2d_config', cfg)
        elif cls == 'Arc3D':
            bump('arc3d_config', cfg)
        if spec.get('shape'):
            bump('polygon_shapes', '%s:%s' % (cls, spec['shape']))
        try:
            fs = check_object(spec)
        except Exception as e:       # never crash: an oracle problem is reported as such
            fs = [_fail('%s|harness error %s' % (cls, type(e).__name__),
                        '%s: %s' % (short(spec), e), 'object', spec)]
        if cls not in ('Point2D', 'Point3D'):
            nontrivial.add(json.dumps(spec, sort_keys=True))
        for f in fs:
            record(f, lambda f: shrink_object(f['spec'], f['signature']))

    # ---- 1. arcs: every start/end pair on the 1/64-turn grid
    g0 = G(random.Random('%s/c10/grid' % seed))
    planes = [{'n': [0.0, 0.0, 1.0], 'o': [0.0, 0.0, 0.0], 'x': None},
              {'n': [1.0, 1.0, 1.0], 'o': [1.0, -2.0, 0.5], 'x': None}]
    extra = [{'n': g0.normal('real'), 'o': g0.pt(3, 'real'), 'x': None},
             {'n': g0.normal('lattice'), 'o': g0.pt(3, 'lattice'), 'x': None},
             {'n': g0.normal('neardeg'), 'o': g0.pt(3, 'real'), 'x': None},
             {'n': g0.normal('real'), 'o': g0.pt(3, 'real'), 'x': None}]
    if not thorough:
        planes = [planes[seed % 2], extra[0], extra[1 + seed % 2], extra[3]]
    else:
        planes = planes + extra + [{'n': g0.normal('real'), 'o': g0.pt(3, 'real'), 'x': None}
                                   for _ in range(10)]
    c2 = g0.pt(2, 'real')
    r2 = g0.radius('real')
    for i in range(GRID + 1):
        for j in range(GRID + 1):
            a1, a2 = i * TWO_PI / GRID, j * TWO_PI / GRID
            do_object({'cls': 'Arc2D', 'c': [0.0, 0.0] if (i + j) % 2 else c2,
                       'r': 1.0 if (i + j) % 2 else r2, 'a1': a1, 'a2': a2}, 'grid')
        if time.time() > deadline:
            break
    for pl in planes:
        rr = g0.radius('real')
        for i in range(GRID + 1):
            for j in range(GRID + 1):
                do_object({'cls': 'Arc3D', 'n': pl['n'], 'o': pl['o'], 'x': pl['x'], 'r': rr,
                           'a1': i * TWO_PI / GRID, 'a2': j * TWO_PI / GRID}, 'grid')
            if time.time() > deadline:
                break
    samples.append({'cls': 'Arc2D', 'c': c2, 'r': r2, 'a1': 17 * TWO_PI / GRID,
                    'a2': 3 * TWO_PI / GRID})

    # ---- 2. random objects of every class, three streams
    per = {'Arc2D': 2400, 'Arc3D': 2400}
    for cls in CLASSES_2D + CLASSES_3D:
        g = G(random.Random('%s/c10/obj/%s' % (seed, cls)))
        n = per.get(cls, 400) * K
        for k in range(n):
            stream = ('real', 'real', 'lattice', 'neardeg')[k % 4]
            if stream == 'neardeg' and cls in ('Polygon2D', 'Mesh2D', 'Mesh3D', 'Face3D',
                                               'Polyface3D', 'Point2D', 'Point3D'):
                stream = 'real'
            sp = g.spec(cls, stream)
            do_object(sp, stream)
            if k == 1 and sp is not None and len(samples) < 12:
                samples.append(sp if len(json.dumps(sp)) < 600 else {'cls': cls, 'note': 'large'})
            if (k & 63) == 0 and time.time() > deadline:
                break

    # ---- 3. collections
    g = G(random.Random('%s/c10/coll' % seed))
    n_coll = 700 * K
    for k in range(n_coll):
        if (k & 15) == 0 and time.time() > deadline:
            break
        kind = ('2d', '3d', '2d', '3d', 'mixed')[k % 5]
        size = 1 + (k * 7 + g.r.randint(0, 7)) % 8
        stream = g.r.choice(['real', 'real', 'lattice'])
        a = 0 if kind == 'mixed' or g.r.random() < 0.25 else g.r.choice(
            [g.r.uniform(0, TWO_PI), g.r.uniform(0, TWO_PI), math.pi / 2, math.pi,
             3 * math.pi / 2, 1e-9, TWO_PI - 1e-6, math.pi / 4])
        pool = CLASSES_2D if kind == '2d' else CLASSES_3D if kind == '3d' else \
            CLASSES_2D + CLASSES_3D
        members = []
        for m in range(size):
            cands = pool
            if m == 0 and a != 0:
                cands = [c for c in pool if c in HAS_VERTICES]
            sp = None
            while sp is None:
                sp = g.spec(g.r.choice(cands), stream)
            # keep the collection together (not 1e3 apart) half of the time
            members.append(sp)
        spec = {'members': members, 'axis_angle': a}
        evaluations += 1
        bump('collections_size', str(size))
        bump('collections_kind', kind)
        bump('collections_axis_angle', 'zero' if a == 0 else 'nonzero')
        if size > 1:
            nontrivial.add(json.dumps(spec, sort_keys=True))
        try:
            fs = check_collection(spec)
        except Exception as e:
            fs = [_fail('bounding|harness error %s' % type(e).__name__,
                        '%s: %s' % (short(spec), e), 'collection', spec)]
        for f in fs:
            record(f, lambda f: shrink_collection(f['spec'], f['fn']) if f.get('fn') else None,
                   resign=bool(f.get('fn')))
        if k == 3:
            samples.append({'collection_classes': [m['cls'] for m in members], 'axis_angle': a})

    # ---- 4. overlap predicates
    g = G(random.Random('%s/c10/overlap' % seed))
    rect_cls = ['LineSegment2D', 'Ray2D', 'Polyline2D', 'Polygon2D', 'Mesh2D',
                'LineSegment3D', 'Polyline3D', 'Face3D', 'Mesh3D', 'Polyface3D', 'Sphere']
    box_cls = ['LineSegment3D', 'Ray3D', 'Polyline3D', 'Face3D', 'Mesh3D', 'Polyface3D',
               'Sphere']
    n_ov = 3000 * K
    for k in range(n_ov):
        if (k & 63) == 0 and time.time() > deadline:
            break
        fn = sorted(OVERLAP_FUNCS)[k % 4]
        exact = (k // 4) % 2 == 0
        stream = 'lattice' if exact else 'real'
        if fn == 'Polygon2D.overlapping_bounding_rect':
            ca = cb = 'Polygon2D'
        elif fn == 'Polyface3D.overlapping_bounding_boxes':
            ca = cb = 'Polyface3D'
        elif fn == 'bounding.overlapping_bounding_rect':
            ca, cb = g.r.choice(rect_cls), g.r.choice(rect_cls)
        else:
            ca, cb = g.r.choice(box_cls), g.r.choice(box_cls)
        sa = sb = None
        while sa is None:
            sa = g.spec(ca, stream)
        while sb is None:
            sb = g.spec(cb, stream)
        nax = OVERLAP_FUNCS[fn][1]
        try:
            A, B = build(sa, 4), build(sb, 4)
            amn, amx, bmn, bmx = A.obj.min, A.obj.max, B.obj.min, B.obj.max
        except Exception:
            bump('skipped', 'overlap-operand-raised')
            continue
        d = g.r.choice([0.0, 0.25, 1.0, 0.5]) if exact else \
            g.r.choice([0.0, 0.01, 1e-3, g.r.uniform(0, 3)])
        # place b so that on one axis the gap is d + delta, on the others random
        axis = g.r.randrange(nax)
        scale = max(A.scale, B.scale)
        if exact:
            delta = g.r.choice([0.0, 0.0, 0.25, -0.25, -1.0, 2.0, -8.0])
        else:
            delta = g.r.choice([-1, 1]) * g.r.choice([1e-7, 1e-5, 1e-2, 1.0, 10.0]) * \
                g.r.choice([1.0, scale])
        side = g.r.choice([-1, 1])
        shift = [0.0] * len(sb.get('p', sb.get('c', sb['pts'][0] if 'pts' in sb else [0, 0, 0])))
        for i in range(min(nax, len(shift), B.dim, A.dim)):
            if i == axis:
                # gap_i = bmn+shift - amx (b to the right) or amn - (bmx+shift)
                shift[i] = (amx[i] + d + delta - bmn[i]) if side > 0 else \
                    (amn[i] - d - delta - bmx[i])
            else:
                mode = g.r.random()
                if mode < 0.6:       # overlapping on this axis
                    shift[i] = (amn[i] + amx[i]) / 2 - (bmn[i] + bmx[i]) / 2
                    if exact:
                        shift[i] = round(shift[i] * 4) / 4.0
                elif mode < 0.8:     # touching / just within the distance
                    shift[i] = amx[i] + d - bmn[i]
                    if not exact:
                        shift[i] -= 1e-3 * scale
                else:
                    shift[i] = (amx[i] - bmn[i]) + d + (g.r.choice([-1.0, 1.0, 4.0]) if exact
                                                       else g.r.uniform(-2, 2) * scale * 0.01)
        sb2 = translate_spec(sb, shift)
        if exact and not (is_dyadic(dict(sa, faces=0, face_indices=0)) and
                          is_dyadic(dict(sb2, faces=0, face_indices=0))):
            exact = False
            bump('skipped', 'lattice-pair-not-dyadic (judged with band)')
        spec = {'fn': fn, 'a': sa, 'b': sb2, 'd': d, 'exact': exact}
        evaluations += 1
        bump('overlap_fn', fn)
        try:
            fs, label = check_overlap(spec)
        except Exception as e:
            fs, label = [_fail('%s|harness error %s' % (fn, type(e).__name__),
                               '%s: %s' % (short(spec), e), 'overlap', spec)], 'error'
        bump('overlap_outcome', ('lattice:' if exact else 'real:') + label)
        if 'band' not in label:
            nontrivial.add(json.dumps(spec, sort_keys=True))
        for f in fs:
            record(f)
        if k == 5:
            samples.append({'overlap': fn, 'a': sa['cls'], 'b': sb2['cls'], 'd': d,
                            'outcome': label})

    fl = sorted(failures.values(), key=lambda f: f['signature'])
    return {
        'evaluations': evaluations,
        'distinct_nontrivial': len(nontrivial),
        'rule': 'objects: Arc2D/Arc3D for all 65x65 start/end pairs on the 1/64-turn grid '
                '(incl. a1=a2, end<start, circles) plus random / near-quadrant-boundary pairs; '
                'every other class with min/max from lattice, real and near-degenerate streams in '
                'random rigid placement (polygons: star, convex, notch, rectilinear; faces with '
                'holes; meshes; polyfaces from box/offset/open); collections of 1..8 mixed '
                'objects with axis_angle 0, special and random; overlap pairs placed at gap = '
                'distance + delta on one axis.  Non-trivial = any object other than a bare '
                'point, a collection with >= 2 members, an overlap pair outside the threshold '
                'band; distinct by spec',
        'samples': samples,
        'failures': fl,
        'extra': {'histograms': hist, 'wall_s': round(time.time() - t_start, 1)},
    }


def replay(ctx, failure):
    kind = failure.get('kind')
    spec = failure.get('spec')
    if spec is None:
        return None
    if kind == 'object':
        fs = check_object(spec)
    elif kind == 'collection':
        fs = check_collection(spec)
    elif kind == 'overlap':
        fs, _ = check_overlap(spec)
    else:
        return None
    for f in fs:
        if f['signature'] == failure.get('signature'):
            return f
    return fs[0] if fs else None
