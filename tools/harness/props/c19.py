"""C19 - offsets and generated sub-faces have the stated size and stay inside.

Property oracle on the REAL code, exact rational arithmetic on the returned float coordinates.

A'. Polyline2D.offset(d) / LineSegment2D.offset(d) (documented: to the left): same count, every
   returned edge on the parallel line at signed distance d, end vertices moved perpendicular.
A. Polygon2D.offset(d): same vertex count; every returned edge lies on the line parallel to its
   original edge at signed distance d (inside for d > 0, outside for d < 0; |dist - |d|| <= 1e-9
   relative, decided exactly on squared quantities); for inputs certified valid (the exact
   mitre offset is simple, keeps every edge direction and stays |d| away from the original)
   also: same orientation, simple, strictly inside (d > 0) / strictly enclosing (d < 0).
B. Polygon2D.perimeter_core_by_offset(polygon, d, holes): one quad per edge of polygon and
   holes; quads are simple; sum|quad| + core = polygon - holes (exact area identity); sample
   points of the plane lie in exactly one piece iff they lie in the original region.
C. Face3D.sub_faces_by_ratio / _rectangle / _sub_rectangle / sub_faces_by_dimension_rectangle and
   the static sub_rects_from_rect_ratio / _dimensions: every returned face lies in the parent
   plane, has the parent normal, lies inside the parent boundary and outside its holes, the
   faces do not overlap, and (ratio based ones) their areas total ratio * parent area.
"""
import math
import random
import time
from fractions import Fraction as F

from ladybug_geometry.geometry2d.pointvector import Point2D, Vector2D
from ladybug_geometry.geometry3d.pointvector import Point3D, Vector3D
from ladybug_geometry.geometry2d.polygon import Polygon2D
from ladybug_geometry.geometry3d.face import Face3D
from ladybug_geometry.geometry3d.plane import Plane

ASSUMPTIONS = [
    'offset: polygons without duplicate vertices, edges >= 1e-2, |d| in [1e-3, 0.4*inradius]; '
    'a (polygon, d) pair is "valid" when the exact mitre offset keeps every edge direction (edge '
    'keeps >= 2% of its length), is simple and stays >= 0.999|d| from the original outline; '
    'convex polygons that are not valid are only judged on "edges parallel at distance |d| on '
    'the correct side", concave ones are skipped',
    'numeric agreement within 1e-9 * max(1, coordinate magnitude); area totals within that times '
    '(perimeter + 1); sub_faces_by_ratio_rectangle / _sub_rectangle may drop sub-faces whose '
    'area is below the given tolerance (their docstring filter), so their total may fall short '
    'by at most tolerance * (number of parent vertices) and - edges within tolerance of '
    'horizontal count as horizontal - exceed by at most tolerance * perimeter',
    'perimeter_core_by_offset: holes strictly inside, all offset loops certified disjoint; a '
    'None result on such an input is reported',
    'sub-rectangle parameters: ratio in [0.01, 0.95], heights / widths / separations > 0, sill '
    'and vertical separation >= 0 (documented ranges)',
]
TRUSTED = [
    'C19 oracle: Python Fraction arithmetic on the exact values of the float coordinates (no '
    'Lean specification); edge lengths inside tolerance bands and the reference mitre offset '
    'used to classify inputs are computed in double precision',
]

REL = 1e-9


# ------------------------------------------------------------------ exact 2D helpers
def fpt(p):
    return tuple(F(c) for c in p)


def scaled(*lists):
    """Lists of float tuples -> the same lists with integer coordinates, and the common
    denominator D (a power of two): point = ints / D exactly."""
    D = 1
    for lst in lists:
        for p in lst:
            for c in p:
                d = float(c).as_integer_ratio()[1]
                if d > D:
                    D = d
    out = []
    for lst in lists:
        o = []
        for p in lst:
            q = []
            for c in p:
                n, d = float(c).as_integer_ratio()
                q.append(n * (D // d))
            o.append(tuple(q))
        out.append(o)
    return out, D


def sub(a, b):
    return tuple(x - y for x, y in zip(a, b))


def dot(a, b):
    return sum(x * y for x, y in zip(a, b))


def cross(a, b):
    return a[0] * b[1] - a[1] * b[0]


def orient(a, b, c):
    return (b[0] - a[0]) * (c[1] - a[1]) - (b[1] - a[1]) * (c[0] - a[0])


def sgn(x):
    return (x > 0) - (x < 0)


def area2(P):
    return sum(cross(P[i - 1], P[i]) for i in range(len(P)))


def segs_touch(a, b, c, d):
    o1, o2 = sgn(orient(a, b, c)), sgn(orient(a, b, d))
    o3, o4 = sgn(orient(c, d, a)), sgn(orient(c, d, b))
    if o1 != o2 and o3 != o4:
        return True

    def on(p, q, r):
        return min(p[0], q[0]) <= r[0] <= max(p[0], q[0]) and \
            min(p[1], q[1]) <= r[1] <= max(p[1], q[1])
    return (o1 == 0 and on(a, b, c)) or (o2 == 0 and on(a, b, d)) or \
        (o3 == 0 and on(c, d, a)) or (o4 == 0 and on(c, d, b))


def is_simple(P):
    n = len(P)
    if n < 3 or area2(P) == 0:
        return False
    for i in range(n):
        a, b = P[i], P[(i + 1) % n]
        if a == b:
            return False
        for j in range(i + 1, n):
            c, d = P[j], P[(j + 1) % n]
            if j == i + 1 or (j + 1) % n == i:
                # adjacent edges: only the shared vertex
                if j == i + 1:
                    if orient(a, b, d) == 0 and dot(sub(a, b), sub(d, b)) > 0:
                        return False
                else:
                    if orient(c, d, b) == 0 and dot(sub(c, d), sub(b, d)) > 0:
                        return False
                continue
            if segs_touch(a, b, c, d):
                return False
    return True


def pip(p, poly):
    """Exact even-odd: 1 inside, 0 on the boundary, -1 outside."""
    inside = False
    n = len(poly)
    for i in range(n):
        a, b = poly[i - 1], poly[i]
        if orient(a, b, p) == 0 and min(a[0], b[0]) <= p[0] <= max(a[0], b[0]) and \
                min(a[1], b[1]) <= p[1] <= max(a[1], b[1]):
            return 0
        if (a[1] > p[1]) != (b[1] > p[1]):
            o = orient(a, b, p)
            if (b[1] > a[1]) == (o > 0):
                inside = not inside
    return 1 if inside else -1


def pt_seg_d2(x, a, b):
    ab, ax = sub(b, a), sub(x, a)
    L, t = dot(ab, ab), dot(ax, ab)
    if L == 0 or t <= 0:
        return dot(ax, ax)
    if t >= L:
        bx = sub(x, b)
        return dot(bx, bx)
    return dot(ax, ax) - F(t * t, L)


def seg_seg_d2(a, b, c, d):
    if segs_touch(a, b, c, d):
        return 0
    return min(pt_seg_d2(a, c, d), pt_seg_d2(b, c, d), pt_seg_d2(c, a, b), pt_seg_d2(d, a, b))


def loops_d2(P, Q):
    best = None
    for i in range(len(P)):
        for j in range(len(Q)):
            v = seg_seg_d2(P[i - 1], P[i], Q[j - 1], Q[j])
            if best is None or v < best:
                best = v
    return best


def pt_loop_d2(x, P):
    return min(pt_seg_d2(x, P[i - 1], P[i]) for i in range(len(P)))


def ge_scaled(c, k, e2):
    """Exact: c >= k * sqrt(e2)."""
    if k <= 0:
        return c >= 0 or c * c <= k * k * e2
    return c >= 0 and c * c >= k * k * e2


def fsqrt(x):
    return F(math.sqrt(float(x)))


def magnitude(pts):
    return max([1.0] + [abs(float(c)) for p in pts for c in p])


# ------------------------------------------------------------------ A. offset
def ref_offset(P, d):
    """Mitre offset of the float polygon P in double precision (inward for d > 0)."""
    n = len(P)
    a2 = sum(P[i - 1][0] * P[i][1] - P[i - 1][1] * P[i][0] for i in range(n))
    s = 1.0 if a2 > 0 else -1.0
    nrm = []
    for i in range(n):
        a, b = P[i], P[(i + 1) % n]
        ex, ey = b[0] - a[0], b[1] - a[1]
        ln = math.hypot(ex, ey)
        nrm.append((-ey / ln * s, ex / ln * s))       # inward unit normal of edge i
    out = []
    for i in range(n):
        n0, n1 = nrm[i - 1], nrm[i]
        den = 1.0 + n0[0] * n1[0] + n0[1] * n1[1]
        if den < 1e-12:
            return None
        out.append((P[i][0] + d * (n0[0] + n1[0]) / den, P[i][1] + d * (n0[1] + n1[1]) / den))
    return out


def classify_offset(P, d):
    """'full' when (P, d) is certified valid, else 'lines' (only the parallel/distance clause)."""
    R = ref_offset(P, d)
    if R is None:
        return 'lines', None
    n = len(P)
    for i in range(n):
        e = (P[(i + 1) % n][0] - P[i][0], P[(i + 1) % n][1] - P[i][1])
        f = (R[(i + 1) % n][0] - R[i][0], R[(i + 1) % n][1] - R[i][1])
        if e[0] * f[0] + e[1] * f[1] < 0.02 * (e[0] * e[0] + e[1] * e[1]):
            return 'lines', R
    (PF, RF), D = scaled(P, R)
    if not is_simple(RF):
        return 'lines', R
    if loops_d2(PF, RF) < (F(999, 1000) * F(abs(d)) * D) ** 2:
        return 'lines', R
    return 'full', R


def judge_offset(P, d, Q, klass, label='offset'):
    """P, Q float tuples.  Returns [(clause, detail)]."""
    n = len(P)
    if len(Q) != n:
        return [('count', '%s(%r): %d vertices in, %d out' % (label, d, n, len(Q)))]
    (PF, QF), D = scaled(P, Q)
    aP, aQ = area2(PF), area2(QF)
    s = sgn(aP)
    tau = F(REL) * F(magnitude(P)) * D
    dd = F(d) * D

    def edge_ok(i, k):
        a, b = PF[i], PF[(i + 1) % n]
        e = sub(b, a)
        e2 = dot(e, e)
        for q in (QF[(i + k) % n], QF[(i + k + 1) % n]):
            c = s * cross(e, sub(q, a))
            if not (ge_scaled(c, dd - tau, e2) and ge_scaled(-c, -(dd + tau), e2)):
                return False
        return True
    shift = None
    for k in range(n):
        if all(edge_ok(i, k) for i in range(n)):
            shift = k
            break
    bad = []
    if shift is None:
        worst = (0.0, 0)
        for i in range(n):
            a, b = P[i], P[(i + 1) % n]
            ln = math.dist(a, b)
            for q in (Q[i], Q[(i + 1) % n]):
                c = float(s) * ((b[0] - a[0]) * (q[1] - a[1]) - (b[1] - a[1]) * (q[0] - a[0])) / ln
                if abs(c - d) > worst[0]:
                    worst = (abs(c - d), i, c)
        bad.append(('distance', '%s(%r) of %d-gon (%s): edge %d of the result is at signed '
                    'distance %.12g from its original, expected %.12g'
                    % (label, d, n, 'cw' if s < 0 else 'ccw', worst[1], worst[2], d)))
        return bad
    if klass == 'full':
        if sgn(aQ) != s:
            bad.append(('orientation', '%s(%r): orientation changed' % (label, d)))
        for i in range(n):
            e = sub(PF[(i + 1) % n], PF[i])
            f = sub(QF[(i + 1 + shift) % n], QF[(i + shift) % n])
            if dot(e, f) <= 0:
                bad.append(('distance', '%s(%r): edge %d reversed its direction' % (label, d, i)))
                break
        if not is_simple(QF):
            bad.append(('simple', '%s(%r): result is self-intersecting on a valid input'
                        % (label, d)))
        else:
            inner, outer = (QF, PF) if d > 0 else (PF, QF)
            if any(pip(v, outer) != 1 for v in inner) or loops_d2(PF, QF) == 0:
                bad.append(('side', '%s(%r): result is not strictly %s the original'
                            % (label, d, 'inside' if d > 0 else 'around')))
    return bad


def judge_open_offset(P, d, Q, label):
    """Open chain P offset to the LEFT by d (documented): every returned edge on the parallel
    line at signed distance d, both end vertices moved perpendicular to their segment."""
    n = len(P)
    if len(Q) != n:
        return [('count', '%s(%r): %d vertices in, %d out' % (label, d, n, len(Q)))]
    (PF, QF), D = scaled(P, Q)
    tau = F(REL) * F(magnitude(P)) * D
    dd = F(d) * D
    for i in range(n - 1):
        a, b = PF[i], PF[i + 1]
        e = sub(b, a)
        e2 = dot(e, e)
        for q in (QF[i], QF[i + 1]):
            c = cross(e, sub(q, a))
            if not (ge_scaled(c, dd - tau, e2) and ge_scaled(-c, -(dd + tau), e2)):
                return [('distance', '%s(%r): edge %d of the result is at signed distance %.12g '
                         'to the left of its original, expected %.12g'
                         % (label, d, i, float(c) / math.sqrt(float(e2)) / D, d))]
    for (pi, qi, a, b) in ((0, 0, 0, 1), (n - 1, n - 1, n - 2, n - 1)):
        e = sub(PF[b], PF[a])
        e2 = dot(e, e)
        c = dot(e, sub(QF[qi], PF[pi]))
        if not (ge_scaled(c, -tau, e2) and ge_scaled(-c, -tau, e2)):
            return [('distance', '%s(%r): end vertex %d is not moved perpendicular to its '
                     'segment' % (label, d, pi))]
    return []


def run_open_offsets(P, d):
    """Polyline2D.offset on the open chain P and LineSegment2D.offset on its first segment."""
    from ladybug_geometry.geometry2d.polyline import Polyline2D
    from ladybug_geometry.geometry2d.line import LineSegment2D
    out = []
    try:
        res = Polyline2D([Point2D(*p) for p in P]).offset(d)
        out += [('Polyline2D.offset', c, t) for c, t in
                judge_open_offset(P, d, verts2(res), 'Polyline2D.offset')]
    except Exception as e:
        out.append(('Polyline2D.offset', 'raises ' + type(e).__name__, str(e)[:120]))
    try:
        sg = LineSegment2D.from_end_points(Point2D(*P[0]), Point2D(*P[1]))
        r = sg.offset(d)
        Q = [(float(r.p1.x), float(r.p1.y)), (float(r.p2.x), float(r.p2.y))]
        out += [('LineSegment2D.offset', c, t) for c, t in
                judge_open_offset(P[:2], d, Q, 'LineSegment2D.offset')]
    except Exception as e:
        out.append(('LineSegment2D.offset', 'raises ' + type(e).__name__, str(e)[:120]))
    return out


def verts2(poly):
    return [(float(v.x), float(v.y)) for v in poly.vertices]


def run_offset(P, d):
    """-> failures of Polygon2D.offset on the float polygon P."""
    klass, R = classify_offset(P, d)
    try:
        poly = Polygon2D([Point2D(*p) for p in P])
        res = poly.offset(d)
        Q = verts2(res)
    except Exception as e:
        return klass, [('raises ' + type(e).__name__, 'Polygon2D.offset(%r): %s' % (d, str(e)[:120]))]
    bad = judge_offset(P, d, Q, klass)
    if klass == 'full' and not bad:
        try:
            res2 = poly.offset(d, True)
            if res2 is None:
                bad.append(('check_intersection', 'offset(%r, check_intersection=True) returns '
                            'None on a valid input' % d))
            elif verts2(res2) != Q:
                bad.append(('check_intersection', 'offset(%r, True) differs from offset(%r)'
                            % (d, d)))
            if bool(res.is_clockwise) != bool(poly.is_clockwise):
                bad.append(('orientation', 'offset(%r): is_clockwise %r -> %r'
                            % (d, poly.is_clockwise, res.is_clockwise)))
        except Exception as e:
            bad.append(('raises ' + type(e).__name__, 'offset(%r, True): %s' % (d, str(e)[:120])))
    return klass, bad


# ------------------------------------------------------------------ 2D shape generators (floats)
def rot(pts, th, ox=0.0, oy=0.0):
    c, s = math.cos(th), math.sin(th)
    return [(ox + c * x - s * y, oy + s * x + c * y) for x, y in pts]


def gen_convex(rng):
    n = rng.randint(3, 9)
    kind = rng.choice(['random', 'random', 'regular', 'rect', 'thin'])
    R = rng.choice([1.0, 3.0, 10.0, 40.0])
    if kind == 'regular':
        pts = [(R * math.cos(2 * math.pi * i / n), R * math.sin(2 * math.pi * i / n))
               for i in range(n)]
    elif kind == 'rect':
        w, h = rng.uniform(0.3, 2) * R, rng.uniform(0.3, 2) * R
        pts = [(0, 0), (w, 0), (w, h), (0, h)]
    elif kind == 'thin':
        pts = [(0, 0), (R * rng.uniform(2, 6), 0), (R * rng.uniform(0.5, 3), R * rng.uniform(0.2, 0.6))]
    else:
        angs = sorted(rng.uniform(0, 2 * math.pi) for _ in range(n))
        sq = rng.uniform(0.4, 1.0)
        pts = [(R * math.cos(a), R * sq * math.sin(a)) for a in angs]
    return pts, 'convex/' + kind


def gen_concave(rng):
    kind = rng.choice(['star', 'L', 'U', 'T', 'notch'])
    R = rng.choice([1.0, 3.0, 10.0, 40.0])
    if kind == 'star':
        n = rng.randint(5, 10)
        pts = []
        for i in range(n):
            a = 2 * math.pi * (i + rng.uniform(0.25, 0.75)) / n
            r = R * rng.uniform(0.7, 1.0)
            pts.append((r * math.cos(a), r * math.sin(a)))
    elif kind == 'L':
        w, h = rng.uniform(1, 3) * R, rng.uniform(1, 3) * R
        a, b = rng.uniform(0.3, 0.7) * w, rng.uniform(0.3, 0.7) * h
        pts = [(0, 0), (w, 0), (w, b), (a, b), (a, h), (0, h)]
    elif kind == 'U':
        w, h = rng.uniform(2, 4) * R, rng.uniform(1, 3) * R
        a, b, c = 0.3 * w, 0.7 * w, rng.uniform(0.3, 0.6) * h
        pts = [(0, 0), (w, 0), (w, h), (b, h), (b, c), (a, c), (a, h), (0, h)]
    elif kind == 'T':
        w, h = rng.uniform(2, 4) * R, rng.uniform(2, 3) * R
        a, b, c = 0.35 * w, 0.65 * w, 0.6 * h
        pts = [(a, 0), (b, 0), (b, c), (w, c), (w, h), (0, h), (0, c), (a, c)]
    else:
        w, h = rng.uniform(1, 3) * R, rng.uniform(1, 3) * R
        pts = [(0, 0), (w, 0), (w, h), (0.6 * w, h), (0.5 * w, rng.uniform(0.5, 0.8) * h),
               (0.4 * w, h), (0, h)]
    return pts, 'concave/' + kind


def place(rng, pts):
    th = rng.choice([0.0, rng.uniform(0, 2 * math.pi)])
    mag = rng.choice([0.0, 5.0, 100.0, 2000.0])
    pts = rot(pts, th, rng.uniform(-mag, mag), rng.uniform(-mag, mag))
    if rng.random() < 0.5:
        pts = pts[::-1]
    k = rng.randrange(len(pts))
    return pts[k:] + pts[:k]


def inradius_convex(P):
    """Chebyshev radius of a convex float polygon (double precision)."""
    n = len(P)
    a2 = sum(P[i - 1][0] * P[i][1] - P[i - 1][1] * P[i][0] for i in range(n))
    s = 1.0 if a2 > 0 else -1.0
    lines = []
    for i in range(n):
        a, b = P[i], P[(i + 1) % n]
        ex, ey = b[0] - a[0], b[1] - a[1]
        ln = math.hypot(ex, ey)
        nx, ny = -ey / ln * s, ex / ln * s
        lines.append((nx, ny, nx * a[0] + ny * a[1]))
    best = 0.0
    for i in range(n):
        for j in range(i + 1, n):
            for k in range(j + 1, n):
                # n.p - r = c for the three lines
                A = [[lines[m][0], lines[m][1], -1.0] for m in (i, j, k)]
                c = [lines[m][2] for m in (i, j, k)]
                det = (A[0][0] * (A[1][1] * A[2][2] - A[1][2] * A[2][1]) -
                       A[0][1] * (A[1][0] * A[2][2] - A[1][2] * A[2][0]) +
                       A[0][2] * (A[1][0] * A[2][1] - A[1][1] * A[2][0]))
                if abs(det) < 1e-12:
                    continue

                def d3(col):
                    B = [row[:] for row in A]
                    for r in range(3):
                        B[r][col] = c[r]
                    return (B[0][0] * (B[1][1] * B[2][2] - B[1][2] * B[2][1]) -
                            B[0][1] * (B[1][0] * B[2][2] - B[1][2] * B[2][0]) +
                            B[0][2] * (B[1][0] * B[2][1] - B[1][1] * B[2][0]))
                x, y, r = d3(0) / det, d3(1) / det, d3(2) / det
                if r <= best:
                    continue
                if all(l[0] * x + l[1] * y - l[2] >= r * (1 - 1e-9) - 1e-12 for l in lines):
                    best = r
    return best


def inradius_any(P):
    """Lower estimate of the inradius of a simple float polygon: best of a grid of interior
    points (double precision; only bounds the generator)."""
    xs, ys = [p[0] for p in P], [p[1] for p in P]
    PF = None
    best = 0.0
    n = len(P)

    def dist(x, y):
        m = 1e300
        for i in range(n):
            a, b = P[i - 1], P[i]
            ex, ey = b[0] - a[0], b[1] - a[1]
            t = ((x - a[0]) * ex + (y - a[1]) * ey) / (ex * ex + ey * ey)
            t = 0.0 if t < 0 else (1.0 if t > 1 else t)
            m = min(m, math.hypot(x - a[0] - t * ex, y - a[1] - t * ey))
        return m

    def inside(x, y):
        c = False
        for i in range(n):
            a, b = P[i - 1], P[i]
            if (a[1] > y) != (b[1] > y) and x < a[0] + (y - a[1]) * (b[0] - a[0]) / (b[1] - a[1]):
                c = not c
        return c
    G = 14
    for i in range(1, G):
        for j in range(1, G):
            x = min(xs) + (max(xs) - min(xs)) * i / G
            y = min(ys) + (max(ys) - min(ys)) * j / G
            if inside(x, y):
                best = max(best, dist(x, y))
    return best


def valid_input(P):
    (PF,), D = scaled(P)
    if not is_simple(PF):
        return False
    for i in range(len(P)):
        if math.dist(P[i - 1], P[i]) < 1e-2:
            return False
    return True


def pick_d(rng, r):
    hi = 0.4 * r
    if hi <= 1.2e-3:
        return None
    d = math.exp(rng.uniform(math.log(1e-3), math.log(hi)))
    if rng.random() < 0.15:
        d = hi
    return d if rng.random() < 0.5 else -d


# ------------------------------------------------------------------ B. perimeter / core
def run_perimeter(P, d, holes):
    """P float polygon, holes list of float polygons (or None)."""
    site = 'Polygon2D.perimeter_core_by_offset'
    try:
        poly = Polygon2D([Point2D(*p) for p in P])
        hs = None if holes is None else [Polygon2D([Point2D(*p) for p in h]) for h in holes]
        perims, cores = Polygon2D.perimeter_core_by_offset(poly, d, hs)
    except Exception as e:
        return [('raises ' + type(e).__name__, '%s(%r): %s' % (site, d, str(e)[:120]))]
    hl = holes or []
    hdesc = '%d holes (%s)' % (len(hl), ','.join('cw' if area2([fpt(p) for p in h]) < 0 else 'ccw'
                                                 for h in hl))
    if perims is None or cores is None:
        return [('none', '%s(d=%r, %s) returns None on a shallow offset' % (site, d, hdesc))]
    bad = []
    try:
        quads = [verts2(q) for q in perims]
        cl = [verts2(c) for c in cores]
    except Exception as e:
        return [('raises ' + type(e).__name__, '%s result: %s' % (site, str(e)[:120]))]
    n_edges = len(P) + sum(len(h) for h in hl)
    if len(quads) != n_edges:
        bad.append(('count', '%s(d=%r, %s): %d perimeter polygons for %d edges'
                    % (site, d, hdesc, len(quads), n_edges)))
    if len(cl) != 1 + len(hl):
        bad.append(('count', '%s: %d core loops for 1 boundary + %d holes' % (site, len(cl), len(hl))))
        return bad
    # the core loops are the offsets
    b0 = judge_offset(P, d, cl[0], 'full', 'core boundary = offset')
    for hi, h in enumerate(hl):
        b0 += judge_offset(h, -d, cl[1 + hi], 'full', 'core hole %d = hole.offset' % hi)
    bad += [(c, '%s: %s' % (site, t)) for c, t in b0[:1]]
    rng = random.Random(repr((P[0], d)))
    xs, ys = [p[0] for p in P], [p[1] for p in P]
    pad = 2 * abs(d)
    samples = [(rng.uniform(min(xs) - pad, max(xs) + pad), rng.uniform(min(ys) - pad, max(ys) + pad))
               for _ in range(24)]
    for q in quads:
        samples.append((sum(p[0] for p in q) / len(q), sum(p[1] for p in q) / len(q)))
    sc, D = scaled(*([P] + list(hl) + quads + cl + [samples]))
    PF = sc[0]
    HF = sc[1:1 + len(hl)]
    QF = sc[1 + len(hl):1 + len(hl) + len(quads)]
    CF = sc[1 + len(hl) + len(quads):-1]
    SF = sc[-1]
    for qi, q in enumerate(QF):
        if not is_simple(q):
            bad.append(('quad', '%s(d=%r, %s): perimeter polygon %d %r is degenerate or '
                        'self-intersecting' % (site, d, hdesc, qi, quads[qi])))
            break
    want = abs(area2(PF)) - sum(abs(area2(h)) for h in HF)
    got = sum(abs(area2(q)) for q in QF) + abs(area2(CF[0])) - sum(abs(area2(c)) for c in CF[1:])
    per = sum(math.dist(P[i - 1], P[i]) for i in range(len(P)))
    tol_a = 2 * F(REL) * F(magnitude(P)) * F(per + 1.0) * D * D
    if abs(want - got) > tol_a:
        bad.append(('area', '%s(d=%r, %s): perimeter polygons + core have area %.12g, the '
                    'polygon with its holes has %.12g' % (site, d, hdesc, float(got) / 2 / D / D,
                                                          float(want) / 2 / D / D)))
    # membership of sample points
    for smp, x in zip(samples, SF):
        r0 = pip(x, PF)
        rh = [pip(x, h) for h in HF]
        if r0 == 0 or 0 in rh:
            continue
        in_orig = r0 == 1 and all(r == -1 for r in rh)
        rq = [pip(x, q) for q in QF]
        rc = [pip(x, c) for c in CF]
        if 0 in rq or 0 in rc:
            continue
        cnt = sum(1 for r in rq if r == 1) + (1 if (rc[0] == 1 and all(r == -1 for r in rc[1:])) else 0)
        if cnt != (1 if in_orig else 0):
            bad.append(('partition', '%s(d=%r, %s): the point %r (%s the region) lies in %d pieces'
                        % (site, d, hdesc, smp, 'inside' if in_orig else 'outside', cnt)))
            break
    return bad


def gen_perimeter_case(rng):
    """-> (P, d, holes or None, descr) with every offset loop certified valid and disjoint."""
    for _ in range(20):
        pts, fam = gen_convex(rng) if rng.random() < 0.6 else gen_concave(rng)
        P = place(rng, pts)
        if not valid_input(P):
            continue
        r = inradius_convex(P) if fam.startswith('convex') else inradius_any(P)
        d = pick_d(rng, r * 0.6)
        if d is None:
            continue
        d = abs(d)
        klass, R = classify_offset(P, d)
        if klass != 'full':
            continue
        nh = rng.choice([None, 0, 1, 1, 2])
        if nh is None:
            return P, d, None, fam
        holes, refs = [], []
        xs, ys = [p[0] for p in R], [p[1] for p in R]
        for _h in range(nh):
            for _t in range(25):
                hp, hf = gen_convex(rng)
                sz = max(max(p[0] for p in hp) - min(p[0] for p in hp),
                         max(p[1] for p in hp) - min(p[1] for p in hp))
                k = rng.uniform(0.08, 0.3) * min(max(xs) - min(xs), max(ys) - min(ys)) / sz
                cx, cy = rng.uniform(min(xs), max(xs)), rng.uniform(min(ys), max(ys))
                H = rot([(x * k, y * k) for x, y in hp], rng.uniform(0, 6.3), cx, cy)
                if rng.random() < 0.5:
                    H = H[::-1]
                if not valid_input(H):
                    continue
                kl, HR = classify_offset(H, -d)
                if kl != 'full':
                    continue
                sc, D = scaled(*([R, HR] + refs))
                RF, HRF, others = sc[0], sc[1], sc[2:]
                g2 = (F(abs(d)) / 4 * D) ** 2
                if any(pip(v, RF) != 1 for v in HRF) or loops_d2(RF, HRF) < g2:
                    continue
                if any(pip(HRF[0], o) != -1 or pip(o[0], HRF) != -1 or loops_d2(o, HRF) < g2
                       for o in others):
                    continue
                holes.append(H)
                refs.append(HR)
                break
        return P, d, holes, fam
    return None


# ------------------------------------------------------------------ C. sub-faces (3D)
def newell(pts):
    n = [F(0), F(0), F(0)]
    for i in range(len(pts)):
        a, b = pts[i - 1], pts[i]
        n[0] += a[1] * b[2] - a[2] * b[1]
        n[1] += a[2] * b[0] - a[0] * b[2]
        n[2] += a[0] * b[1] - a[1] * b[0]
    return tuple(n)


def area3(pts):
    n = newell([fpt(p) for p in pts])
    return math.sqrt(float(dot(n, n))) / 2


def drop_axis(nrm):
    k = max(range(3), key=lambda i: abs(nrm[i]))
    return k


def proj(p, k):
    return (p[(k + 1) % 3], p[(k + 2) % 3])


def ccw(K):
    return K if area2(K) > 0 else K[::-1]


def is_convex(K):
    s = 0
    n = len(K)
    for i in range(n):
        o = sgn(orient(K[i - 2], K[i - 1], K[i]))
        if o != 0:
            if s != 0 and o != s:
                return False
            s = o
    return s != 0


def penetrates(a, b, K, Ls, tau):
    """Exact: does the segment ab have a point deeper than tau inside the ccw convex K?"""
    lo, hi = F(0), F(1)
    n = len(K)
    for k in range(n):
        p, q = K[k], K[(k + 1) % n]
        oa = orient(p, q, a) - tau * Ls[k]
        ob = orient(p, q, b) - tau * Ls[k]
        if oa <= 0 and ob <= 0:
            return False
        if oa > 0 and ob > 0:
            continue
        t = oa / (oa - ob)
        if oa <= 0:
            lo = max(lo, t)
        else:
            hi = min(hi, t)
        if lo >= hi:
            return False
    return lo < hi


def convex_overlap(K1, L1, K2, L2, tau):
    """Exact SAT: do the ccw convex polygons overlap by more than tau?"""
    for (A, LA, B) in ((K1, L1, K2), (K2, L2, K1)):
        n = len(A)
        for k in range(n):
            p, q = A[k], A[(k + 1) % n]
            if all(orient(p, q, v) <= tau * LA[k] for v in B):
                return False
    return True


def edge_lengths(K):
    return [fsqrt(dot(sub(K[(k + 1) % len(K)], K[k]), sub(K[(k + 1) % len(K)], K[k])))
            for k in range(len(K))]


def judge_subfaces(site, parent, subs, ratio=None, short_allow=0.0, args_desc='',
                   excess_tol=0.0):
    """parent: dict(boundary [3D float tuples], holes [[...]], n (float normal), o (float origin)).
    subs: list of dict(pts [3D float tuples], normal (float tuple)).  Returns [(clause, detail)]."""
    bad = []
    nrm = parent['n']
    allp = parent['boundary'] + [p for h in parent['holes'] for p in h]
    M = magnitude(allp)
    sc, D = scaled(*([parent['boundary'], [parent['o']]] + parent['holes'] +
                     [sf['pts'] for sf in subs]))
    tau = F(REL) * F(M) * D
    nf, of = fpt(nrm), sc[1][0]
    k = drop_axis(nrm)
    B2 = [proj(p, k) for p in sc[0]]
    H2 = [[proj(p, k) for p in h] for h in sc[2:2 + len(parent['holes'])]]
    SUB = sc[2 + len(parent['holes']):]
    tau2 = tau            # tolerance used in the projected plane (projection never enlarges)
    Ks = []
    head = '%s%s' % (site, args_desc)
    for si, sf in enumerate(subs):
        pts = sf['pts']
        ipts = SUB[si]
        if len(pts) < 3:
            bad.append(('degenerate', '%s: sub-face %d has %d vertices' % (head, si, len(pts))))
            continue
        # in the parent plane
        for p, ip in zip(pts, ipts):
            dist = dot(nf, sub(ip, of))
            # (the rectangle methods build corners from edges that are horizontal only within
            # `tolerance`: up to that far off the plane is inside their stated precision)
            if abs(dist) > tau * F(1000001, 1000000) + F(excess_tol) * D:
                bad.append(('plane', '%s: vertex %r of sub-face %d is %.3g off the parent plane'
                            % (head, p, si, float(dist) / D)))
                break
        # parent normal
        sn = sf['normal']
        cr = (sn[1] * nrm[2] - sn[2] * nrm[1], sn[2] * nrm[0] - sn[0] * nrm[2],
              sn[0] * nrm[1] - sn[1] * nrm[0])
        if math.sqrt(sum(c * c for c in cr)) > 1e-9 or sum(a * b for a, b in zip(sn, nrm)) <= 0:
            bad.append(('normal', '%s: sub-face %d has normal %r, parent %r' % (head, si, sn, nrm)))
        K = [proj(ip, k) for ip in ipts]
        if area2(K) == 0:
            continue        # a degenerate (zero area) sub-face encloses nothing: not a violation
        K = ccw(K)
        conv = is_convex(K) and is_simple(K)
        Ls = edge_lengths(K)
        Ks.append((si, K, Ls, conv))
        # containment
        t2 = tau2 * tau2
        out = None
        for v in K:
            if pip(v, B2) == -1 and pt_loop_d2(v, B2) > t2:
                out = ('outside the parent boundary', v)
                break
            for h in H2:
                if pip(v, h) == 1 and pt_loop_d2(v, h) > t2:
                    out = ('inside a hole of the parent', v)
                    break
            if out:
                break
        if out is None:
            for loop, what in [(B2, 'the parent boundary')] + [(h, 'a hole of the parent') for h in H2]:
                for i in range(len(loop)):
                    a, b = loop[i - 1], loop[i]
                    if conv:
                        hit = penetrates(a, b, K, Ls, tau2)
                    else:
                        hit = any(sgn(orient(a, b, K[j - 1])) * sgn(orient(a, b, K[j])) < 0 and
                                  sgn(orient(K[j - 1], K[j], a)) * sgn(orient(K[j - 1], K[j], b)) < 0
                                  for j in range(len(K)))
                    if hit:
                        out = ('crossed by ' + what, a)
                        break
                if out:
                    break
            if out is None and conv:
                # a hole entirely inside the sub-face
                for h in H2:
                    if all(all(orient(K[j], K[(j + 1) % len(K)], v) > tau2 * Ls[j]
                               for j in range(len(K))) for v in h):
                        out = ('around a hole of the parent', h[0])
                        break
        if out is not None:
            bad.append(('inside', '%s: sub-face %d %r is %s'
                        % (head, si, [tuple(round(c, 6) for c in p) for p in pts][:6], out[0])))
    # pairwise overlap
    done = False
    for i in range(len(Ks)):
        for j in range(i + 1, len(Ks)):
            (si, K1, L1, c1), (sj, K2, L2, c2) = Ks[i], Ks[j]
            if c1 and c2:
                ov = convex_overlap(K1, L1, K2, L2, tau2)
            else:
                ov = any(pip(v, K2) == 1 for v in K1) or any(pip(v, K1) == 1 for v in K2)
            if ov:
                bad.append(('overlap', '%s: sub-faces %d and %d overlap' % (head, si, sj)))
                done = True
                break
        if done:
            break
    # area
    if ratio is not None:
        pa = area3(parent['boundary']) - sum(area3(h) for h in parent['holes'])
        tot = sum(area3(sf['pts']) for sf in subs if len(sf['pts']) >= 3)
        per = sum(math.dist(parent['boundary'][i - 1], parent['boundary'][i])
                  for i in range(len(parent['boundary'])))
        ta = REL * M * (per + 1.0) * 4
        # (the rectangle methods treat edges within `tolerance` of horizontal / vertical as
        # such: the extracted rectangle may reach up to `tolerance` beyond the outline along
        # its sides, i.e. the total may exceed by at most tolerance x perimeter)
        if tot > ratio * pa + ta + excess_tol * per or tot < ratio * pa - ta - short_allow:
            bad.append(('area', '%s: sub-faces total %.12g, ratio * parent area = %.12g * %.12g = '
                        '%.12g' % (head, tot, ratio, pa, ratio * pa)))
    return bad


def face_record(f):
    pl = f.plane
    return {'boundary': [(float(v.x), float(v.y), float(v.z)) for v in f.boundary],
            'holes': [[(float(v.x), float(v.y), float(v.z)) for v in h] for h in (f.holes or ())],
            'n': (float(pl.n.x), float(pl.n.y), float(pl.n.z)),
            'o': (float(pl.o.x), float(pl.o.y), float(pl.o.z))}


def sub_records(res):
    out = []
    for f in res:
        out.append({'pts': [(float(v.x), float(v.y), float(v.z)) for v in f.vertices],
                    'normal': (float(f.normal.x), float(f.normal.y), float(f.normal.z))})
    return out


# 2D wall shapes in (u, v): u horizontal, v up
def gen_wall_shape(rng):
    kind = rng.choice(['rect', 'rect', 'L', 'L', 'U', 'T', 'gable', 'trapezoid', 'parallelogram',
                       'convex', 'star', 'notch', 'side-dent', 'side-dent'])
    W, H = rng.uniform(2, 20), rng.uniform(2, 8)
    if kind == 'side-dent':
        # a dent in one vertical side that does not reach across: the bounding rectangle is not
        # inside the face although its bottom and top edges are complete
        d, h1 = rng.uniform(0.1, 0.45) * W, rng.uniform(0.3, 0.7) * H
        if rng.random() < 0.5:
            pts = [(0, 0), (W, 0), (W - d, h1), (W, H), (0, H)]
        else:
            pts = [(0, 0), (W, 0), (W, H), (0, H), (d, h1)]
    elif kind == 'rect':
        pts = [(0, 0), (W, 0), (W, H), (0, H)]
    elif kind == 'L':
        a, b = rng.uniform(0.3, 0.7) * W, rng.uniform(0.3, 0.7) * H
        pts = rng.choice([[(0, 0), (W, 0), (W, b), (a, b), (a, H), (0, H)],
                          [(0, 0), (W, 0), (W, H), (a, H), (a, b), (0, b)]])
    elif kind == 'U':
        a, b, c = 0.3 * W, 0.7 * W, rng.uniform(0.3, 0.6) * H
        pts = [(0, 0), (W, 0), (W, H), (b, H), (b, c), (a, c), (a, H), (0, H)]
    elif kind == 'T':
        a, b, c = 0.35 * W, 0.65 * W, 0.6 * H
        pts = [(a, 0), (b, 0), (b, c), (W, c), (W, H), (0, H), (0, c), (a, c)]
    elif kind == 'gable':
        pts = [(0, 0), (W, 0), (W, 0.6 * H), (rng.uniform(0.3, 0.7) * W, H), (0, 0.6 * H)]
    elif kind == 'trapezoid':
        a, b = rng.uniform(0, 0.3) * W, rng.uniform(0.6, 1.0) * W
        pts = [(0, 0), (W, 0), (b, H), (a, H)]
    elif kind == 'parallelogram':
        s = rng.uniform(0.1, 0.5) * W
        pts = [(0, 0), (W, 0), (W + s, H), (s, H)]
    elif kind == 'convex':
        pts, _ = gen_convex(rng)
    elif kind == 'star':
        n = rng.randint(5, 9)
        pts = []
        for i in range(n):
            a = 2 * math.pi * (i + rng.uniform(0.25, 0.75)) / n
            r = H * rng.uniform(0.6, 1.0)
            pts.append((r * math.cos(a), r * math.sin(a)))
    else:
        pts = [(0, 0), (W, 0), (W, H), (0.6 * W, H), (0.5 * W, rng.uniform(0.5, 0.8) * H),
               (0.4 * W, H), (0, H)]
    pts = [(float(x), float(y)) for x, y in pts]
    return pts, kind


def gen_holes_in(rng, pts, nh):
    """Small convex holes strictly inside the float polygon pts, pairwise disjoint (exact)."""
    PF = [fpt(p) for p in pts]
    xs, ys = [p[0] for p in pts], [p[1] for p in pts]
    size = min(max(xs) - min(xs), max(ys) - min(ys))
    holes, hf = [], []
    g2 = F(size * 0.02) ** 2
    for _ in range(nh):
        for _t in range(30):
            hp, _f = gen_convex(rng)
            sz = max(max(p[0] for p in hp) - min(p[0] for p in hp),
                     max(p[1] for p in hp) - min(p[1] for p in hp))
            k = rng.uniform(0.08, 0.3) * size / sz
            H = rot([(x * k, y * k) for x, y in hp], rng.choice([0.0, rng.uniform(0, 6.3)]),
                    rng.uniform(min(xs), max(xs)), rng.uniform(min(ys), max(ys)))
            if rng.random() < 0.5:
                H = H[::-1]
            HF = [fpt(p) for p in H]
            if not is_simple(HF) or any(pip(v, PF) != 1 for v in HF) or loops_d2(PF, HF) < g2:
                continue
            if any(pip(HF[0], o) != -1 or pip(o[0], HF) != -1 or loops_d2(o, HF) < g2 for o in hf):
                continue
            holes.append(H)
            hf.append(HF)
            break
    return holes


def gen_plane(rng):
    kind = rng.choice(['vertical', 'vertical', 'tilted', 'tilted', 'horizontal'])
    a = rng.choice([0.0, math.pi / 2, rng.uniform(0, 2 * math.pi)])
    if kind == 'vertical':
        n = (math.cos(a), math.sin(a), 0.0)
    elif kind == 'horizontal':
        n = rng.choice([(0.0, 0.0, 1.0), (0.0, 0.0, -1.0)])
    else:
        t = rng.uniform(0.2, 1.3) * rng.choice([1, -1])
        n = (math.cos(a) * math.cos(t), math.sin(a) * math.cos(t), math.sin(t))
    if kind == 'horizontal':
        x = (math.cos(a), math.sin(a), 0.0)
    else:
        # horizontal x axis: z cross n (normalised), so that y = n cross x points upwards
        x = (-n[1], n[0], 0.0)
        ln = math.hypot(x[0], x[1])
        x = (x[0] / ln, x[1] / ln, 0.0)
    mag = rng.choice([0.0, 10.0, 200.0])
    o = (rng.uniform(-mag, mag), rng.uniform(-mag, mag), rng.uniform(-mag, mag) if mag else 0.0)
    return kind, n, o, x


def build_face(shape2d, holes2d, n, o, x, mode):
    pl = Plane(Vector3D(*n), Point3D(*o), Vector3D(*x))
    b3 = [pl.xy_to_xyz(Point2D(*p)) for p in shape2d]
    h3 = [[pl.xy_to_xyz(Point2D(*p)) for p in h] for h in holes2d] or None
    if mode == 'auto':
        return Face3D(b3, None, h3)
    if mode == 'plane':
        return Face3D(b3, pl, h3)
    return Face3D(b3, pl, h3).flip()


def face_to_wire(f):
    return {'boundary': [[float(c).hex() for c in (v.x, v.y, v.z)] for v in f.boundary],
            'holes': [[[float(c).hex() for c in (v.x, v.y, v.z)] for v in h] for h in (f.holes or ())],
            'n': [float(c).hex() for c in (f.plane.n.x, f.plane.n.y, f.plane.n.z)],
            'o': [float(c).hex() for c in (f.plane.o.x, f.plane.o.y, f.plane.o.z)],
            'x': [float(c).hex() for c in (f.plane.x.x, f.plane.x.y, f.plane.x.z)]}


def face_from_wire(w):
    def p3(t):
        return Point3D(*[float.fromhex(c) for c in t])
    pl = Plane(Vector3D(*[float.fromhex(c) for c in w['n']]), p3(w['o']),
               Vector3D(*[float.fromhex(c) for c in w['x']]))
    holes = [[p3(p) for p in h] for h in w['holes']] or None
    return Face3D([p3(p) for p in w['boundary']], pl, holes, enforce_right_hand=False)


FACE_METHODS = {
    'sub_faces_by_ratio': ('ratio',),
    'sub_faces_by_ratio_rectangle': ('ratio', 'tolerance'),
    'sub_faces_by_ratio_sub_rectangle': ('ratio', 'sub_rect_height', 'sill_height',
                                         'horizontal_separation', 'vertical_separation',
                                         'tolerance'),
    'sub_faces_by_dimension_rectangle': ('sub_rect_height', 'sub_rect_width', 'sill_height',
                                         'horizontal_separation', 'tolerance'),
}


def run_face_method(face, meth, params):
    site = 'Face3D.' + meth
    args = [params[k] for k in FACE_METHODS[meth]]
    desc = '(%s)' % ', '.join('%s=%.6g' % (k, params[k]) for k in FACE_METHODS[meth])
    try:
        res = getattr(face, meth)(*args)
        subs = sub_records(res)
    except Exception as e:
        return [('raises ' + type(e).__name__, '%s%s: %s' % (site, desc, str(e)[:120]))]
    parent = face_record(face)
    ratio = params['ratio'] if 'ratio' in FACE_METHODS[meth] else None
    allow = 0.0
    if meth in ('sub_faces_by_ratio_rectangle', 'sub_faces_by_ratio_sub_rectangle'):
        allow = params['tolerance'] * (len(parent['boundary']) + 2)
    if ratio is not None and not subs:
        return [('area', '%s%s returns no sub-face' % (site, desc))]
    return judge_subfaces(site, parent, subs, ratio, allow, desc,
                          excess_tol=params['tolerance'] if allow else 0.0)


def run_static_rects(meth, plane_w, B, H, params):
    """sub_rects_from_rect_ratio / sub_rects_from_rect_dimensions on the rectangle B x H."""
    site = 'Face3D.' + meth
    n = tuple(float.fromhex(c) for c in plane_w['n'])
    o = tuple(float.fromhex(c) for c in plane_w['o'])
    x = tuple(float.fromhex(c) for c in plane_w['x'])
    pl = Plane(Vector3D(*n), Point3D(*o), Vector3D(*x))
    if meth == 'sub_rects_from_rect_ratio':
        keys = ('ratio', 'sub_rect_height', 'sill_height', 'horizontal_separation',
                'vertical_separation')
    else:
        keys = ('sub_rect_height', 'sub_rect_width', 'sill_height', 'horizontal_separation')
    desc = '(base=%.6g, height=%.6g, %s)' % (B, H, ', '.join('%s=%.6g' % (k, params[k])
                                                             for k in keys))
    try:
        res = getattr(Face3D, meth)(pl, B, H, *[params[k] for k in keys])
        subs = sub_records(res)
    except Exception as e:
        return [('raises ' + type(e).__name__, '%s%s: %s' % (site, desc, str(e)[:120]))]
    corners = [pl.xy_to_xyz(Point2D(u, v)) for u, v in ((0, 0), (B, 0), (B, H), (0, H))]
    parent = {'boundary': [(float(v.x), float(v.y), float(v.z)) for v in corners], 'holes': [],
              'n': (float(pl.n.x), float(pl.n.y), float(pl.n.z)),
              'o': (float(pl.o.x), float(pl.o.y), float(pl.o.z))}
    ratio = params['ratio'] if meth == 'sub_rects_from_rect_ratio' else None
    if not subs:
        return [('area', '%s%s returns no rectangle' % (site, desc))]
    return judge_subfaces(site, parent, subs, ratio, 0.0, desc)


def gen_params(rng, W, H, edge=False):
    p = {'ratio': rng.choice([0.01, 0.95, rng.uniform(0.01, 0.95), rng.uniform(0.1, 0.6)]),
         'tolerance': rng.choice([1e-3, 1e-2]),
         'sub_rect_height': rng.uniform(0.1, 1.5) * H,
         'sub_rect_width': rng.uniform(0.05, 1.2) * W,
         'sill_height': rng.choice([0.0, rng.uniform(0, 0.8) * H]),
         'horizontal_separation': rng.uniform(0.1, 2.0) * W,
         'vertical_separation': rng.choice([0.0, 0.0, rng.uniform(0, 0.5) * H])}
    if edge:
        p['sub_rect_height'] = rng.choice([0.985, 0.995, 0.999, 1.0, 1.2]) * H
        p['sill_height'] = rng.choice([0.0, 0.005, 0.1, 0.5, 0.99]) * H
        p['sub_rect_width'] = rng.choice([0.3, 0.49, 0.5, 0.99, 1.0, 1.3]) * W
        p['horizontal_separation'] = rng.choice([0.2, 0.36, 0.5, 1.0, 1.99, 2.0, 3.0]) * W
    return p


EDGE_GRID = [(sh, sl, sw, hs)
             for sh in (0.985, 0.995, 0.999, 1.0, 1.2)
             for sl in (0.0, 0.005, 0.5)
             for sw in (0.2, 0.5, 1.0)
             for hs in (0.3, 1.0, 2.5)]


# ------------------------------------------------------------------ run
def run(ctx):
    seed = ctx.seed
    thorough = ctx.tier == 'thorough' or bool(ctx.broken)
    t_end = min(ctx.deadline, time.time() + (560 if thorough else 34))
    evaluations = 0
    nontrivial = set()
    failures = {}
    samples = []
    hist = {'offset_family': {}, 'offset_class': {}, 'offset_sign': {'inward': 0, 'outward': 0},
            'offset_d_over_inradius': {}, 'offset_orientation': {'cw': 0, 'ccw': 0},
            'offset_skipped_concave_invalid': 0, 'perimeter_holes': {}, 'perimeter_hole_winding': {},
            'perimeter_family': {}, 'face_shape': {}, 'face_plane': {}, 'face_mode': {},
            'face_holes': {}, 'face_method': {}, 'face_convex': {'convex': 0, 'concave': 0},
            'rect_extracted': {'yes': 0, 'no': 0}, 'static_rects': {}, 'ratio': {},
            'generator_rejects': 0, 'open_chain_offsets': 0}

    def bump(d, k, n=1):
        d[k] = d.get(k, 0) + n

    def add(sig, rec):
        if sig in failures:
            failures[sig]['hits'] += 1
        else:
            rec['signature'] = sig
            rec['hits'] = 1
            failures[sig] = rec

    # ---- deterministic edge-parameter probe of the static rectangle generators (every seed)
    pw = {'n': [float(c).hex() for c in (0.0, -1.0, 0.0)], 'o': [float(c).hex() for c in (1.0, 2.0, 0.5)],
          'x': [float(c).hex() for c in (1.0, 0.0, 0.0)]}
    for (sh, sl, sw, hs) in EDGE_GRID:
        for (B, H) in ((10.0, 10.0), (4.0, 2.5)):
            prm = {'ratio': 0.4, 'sub_rect_height': sh * H, 'sill_height': sl * H,
                   'sub_rect_width': sw * B, 'horizontal_separation': hs * B,
                   'vertical_separation': 0.0}
            for meth in ('sub_rects_from_rect_dimensions', 'sub_rects_from_rect_ratio'):
                bad = run_static_rects(meth, pw, B, H, prm)
                evaluations += 1
                bump(hist['static_rects'], meth + '/edge-grid')
                nontrivial.add((meth, B, H, sh, sl, sw, hs))
                for clause, detail in bad[:1]:
                    add('Face3D.%s|%s' % (meth, clause),
                        {'what': detail, 'kind': 'static', 'meth': meth, 'plane': pw, 'B': B, 'H': H,
                         'params': prm, 'clause': clause})

    case_no = 0
    while time.time() < t_end:
        rng = random.Random('%s/c19/%d' % (seed, case_no))
        case_no += 1
        part = case_no % 4
        if part in (1,):
            # ---------------- A. offset
            concave = rng.random() < 0.4
            pts, fam = gen_concave(rng) if concave else gen_convex(rng)
            P = place(rng, pts)
            if not valid_input(P):
                bump(hist, 'generator_rejects')
                continue
            r = inradius_any(P) if concave else inradius_convex(P)
            for _rep in range(3):
                d = pick_d(rng, r)
                if d is None:
                    bump(hist, 'generator_rejects')
                    break
                klass, bad = run_offset(P, d)
                if klass != 'full' and concave:
                    hist['offset_skipped_concave_invalid'] += 1
                    continue
                evaluations += 1
                bump(hist['offset_family'], fam)
                bump(hist['offset_class'], klass)
                hist['offset_sign']['inward' if d > 0 else 'outward'] += 1
                bump(hist['offset_d_over_inradius'], '%.1f' % (min(abs(d) / r, 0.4)))
                hist['offset_orientation']['cw' if area2([fpt(p) for p in P]) < 0 else 'ccw'] += 1
                nontrivial.add(('offset', tuple(P), d))
                if len(samples) < 2:
                    samples.append({'kind': 'offset', 'polygon': [list(p) for p in P], 'd': d})
                if _rep == 0:
                    chain = P if rng.random() < 0.5 else P[:-1]
                    if len(chain) >= 3:
                        for site, clause, detail in run_open_offsets(chain, d)[:1]:
                            evaluations += 0
                            add('%s|%s' % (site, clause),
                                {'what': '%s of the open chain %r, d=%r: %s'
                                 % (site, [tuple(p) for p in chain], d, detail),
                                 'kind': 'open_offset', 'site': site,
                                 'polygon': [[c.hex() for c in p] for p in chain],
                                 'd_hex': float(d).hex(), 'clause': clause})
                        evaluations += 2
                        bump(hist, 'open_chain_offsets', 2)
                for clause, detail in bad[:1]:
                    cfg = 'cw' if area2([fpt(p) for p in P]) < 0 else 'ccw'
                    add('Polygon2D.offset|%s|%s' % (clause, cfg),
                        {'what': 'Polygon2D(%r).offset(%r): %s' % ([tuple(p) for p in P], d, detail),
                         'kind': 'offset', 'polygon': [[c.hex() for c in p] for p in P],
                         'd_hex': float(d).hex(), 'clause': clause})
            continue
        if part == 2:
            # ---------------- B. perimeter / core
            pc = gen_perimeter_case(rng)
            if pc is None:
                bump(hist, 'generator_rejects')
                continue
            P, d, holes, fam = pc
            bad = run_perimeter(P, d, holes)
            evaluations += 1
            bump(hist['perimeter_family'], fam)
            bump(hist['perimeter_holes'], 'None' if holes is None else len(holes))
            wind = ''
            for h in (holes or []):
                w = 'cw' if area2([fpt(p) for p in h]) < 0 else 'ccw'
                bump(hist['perimeter_hole_winding'], w)
                wind += w[0:2] + ' '
            nontrivial.add(('perimeter', tuple(P), d, len(holes or [])))
            if len(samples) < 4 and holes:
                samples.append({'kind': 'perimeter_core', 'polygon': [list(p) for p in P], 'd': d,
                                'holes': [[list(p) for p in h] for h in holes]})
            for clause, detail in bad[:1]:
                ws = sorted(set('cw' if area2([fpt(p) for p in h]) < 0 else 'ccw'
                                for h in (holes or [])))
                cfg = 'no holes' if not holes else ('holes cw' if 'cw' in ws else 'holes ccw')
                add('Polygon2D.perimeter_core_by_offset|%s|%s' % (clause, cfg),
                    {'what': detail + ' [polygon %r, holes %r]'
                     % ([tuple(p) for p in P], [[tuple(p) for p in h] for h in (holes or [])]),
                     'kind': 'perimeter', 'polygon': [[c.hex() for c in p] for p in P],
                     'd_hex': float(d).hex(),
                     'holes': None if holes is None else [[[c.hex() for c in p] for p in h]
                                                          for h in holes],
                     'clause': clause})
            continue
        # ---------------- C. faces
        shape, skind = gen_wall_shape(rng)
        if rng.random() < 0.5 and skind not in ('convex', 'star'):
            pass
        if not valid_input(shape):
            bump(hist, 'generator_rejects')
            continue
        nh = rng.choice([0, 0, 0, 1, 2])
        holes2d = gen_holes_in(rng, shape, nh) if nh else []
        if rng.random() < 0.5:
            shape = shape[::-1]
        pkind, n, o, x = gen_plane(rng)
        mode = rng.choice(['auto', 'plane', 'flipped'])
        try:
            face = build_face(shape, holes2d, n, o, x, mode)
        except Exception:
            bump(hist, 'generator_rejects')
            continue
        bump(hist['face_shape'], skind)
        bump(hist['face_plane'], pkind)
        bump(hist['face_mode'], mode)
        bump(hist['face_holes'], len(holes2d))
        for h in holes2d:
            bump(hist['face_holes'], 'cw' if area2([fpt(p) for p in h]) < 0 else 'ccw')
        try:
            hist['face_convex']['convex' if face.is_convex else 'concave'] += 1
            rect_ok = face.extract_rectangle(0.01) is not None
            hist['rect_extracted']['yes' if rect_ok else 'no'] += 1
        except Exception:
            pass
        us, vs = [p[0] for p in shape], [p[1] for p in shape]
        W, H = max(us) - min(us), max(vs) - min(vs)
        fw = face_to_wire(face)
        if len(samples) < 6:
            samples.append({'kind': 'face', 'shape': skind, 'plane': pkind, 'mode': mode,
                            'boundary': [list(v) for v in face_record(face)['boundary']],
                            'holes': len(holes2d)})
        for meth in FACE_METHODS:
            for _rep in range(2):
                prm = gen_params(rng, W, H, edge=rng.random() < 0.15)
                bad = run_face_method(face, meth, prm)
                evaluations += 1
                bump(hist['face_method'], meth)
                bump(hist['ratio'], '%.1f' % prm['ratio'])
                nontrivial.add((meth, case_no, _rep))
                for clause, detail in bad[:1]:
                    cfg = '%s/%s' % ('holes' if holes2d else ('rect' if skind == 'rect' else
                                                              ('convex' if skind in (
                                                                  'convex', 'trapezoid', 'gable',
                                                                  'parallelogram') else 'concave')),
                                     pkind)
                    add('Face3D.%s|%s' % (meth, clause),
                        {'what': detail + ' [%s face on a %s plane, %d holes, boundary %r]'
                         % (skind, pkind, len(holes2d),
                            [tuple(round(c, 6) for c in p) for p in face_record(face)['boundary']]),
                         'kind': 'face', 'meth': meth, 'face': fw, 'params': prm, 'clause': clause})
        # static generators on the bounding rectangle of this face
        for meth in ('sub_rects_from_rect_ratio', 'sub_rects_from_rect_dimensions'):
            prm = gen_params(rng, W, H, edge=rng.random() < 0.2)
            bad = run_static_rects(meth, fw, W, H, prm)
            evaluations += 1
            bump(hist['static_rects'], meth)
            nontrivial.add((meth, case_no))
            for clause, detail in bad[:1]:
                add('Face3D.%s|%s' % (meth, clause),
                    {'what': detail, 'kind': 'static', 'meth': meth, 'plane': fw, 'B': W, 'H': H,
                     'params': prm, 'clause': clause})
    return {'evaluations': evaluations, 'distinct_nontrivial': len(nontrivial),
            'rule': 'A: convex (random/regular/rectangle/thin) and mildly concave (star/L/U/T/notch) '
                    'polygons, random rigid placement, both windings, every start, d = +-[1e-3, '
                    '0.4 inradius] (log-uniform, 15%% at the upper end); B: certified shallow '
                    'perimeter/core cases with None/0/1/2 holes of both windings; C: wall shapes '
                    '(rect, L, U, T, gable, trapezoid, parallelogram, convex, star, notch), 0..2 holes '
                    'of both windings, vertical/tilted/horizontal planes, 3 construction modes, '
                    'ratio in [0.01, 0.95], sub-rectangle parameters over their documented ranges '
                    'plus an edge-value grid; non-trivial = every executed case (distinct inputs)',
            'samples': samples, 'failures': sorted(failures.values(), key=lambda f: f['signature']),
            'extra': {'histograms': hist}}


def replay(ctx, fl):
    kind = fl['kind']
    if kind == 'offset':
        P = [tuple(float.fromhex(c) for c in p) for p in fl['polygon']]
        d = float.fromhex(fl['d_hex'])
        klass, bad = run_offset(P, d)
    elif kind == 'perimeter':
        P = [tuple(float.fromhex(c) for c in p) for p in fl['polygon']]
        d = float.fromhex(fl['d_hex'])
        holes = None if fl['holes'] is None else \
            [[tuple(float.fromhex(c) for c in p) for p in h] for h in fl['holes']]
        bad = run_perimeter(P, d, holes)
    elif kind == 'open_offset':
        P = [tuple(float.fromhex(c) for c in p) for p in fl['polygon']]
        bad = [(c, t) for st, c, t in run_open_offsets(P, float.fromhex(fl['d_hex']))
               if st == fl['site']]
    elif kind == 'face':
        bad = run_face_method(face_from_wire(fl['face']), fl['meth'], fl['params'])
    else:
        bad = run_static_rects(fl['meth'], fl['plane'], fl['B'], fl['H'], fl['params'])
    bad = [b for b in bad if b[0] == fl['clause']]
    if not bad:
        return None
    out = dict(fl)
    out['what'] = bad[0][1]
    return out
