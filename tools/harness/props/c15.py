"""C15 - vertex clean-up keeps the shape, removes redundancy, is idempotent.

Property oracle on the REAL code.  `remove_colinear_vertices(tol)` / `remove_duplicate_vertices(tol)`
of Polygon2D, Face3D (boundary and holes), Polyline2D and Polyline3D are driven on base shapes
(every corner turns by 5..175 degrees, certified exactly) decorated with 0..3 points that are
EXACTLY on an edge (dyadic interpolation of dyadic coordinates, verified with exact integer
arithmetic), 0..2 exact duplicates per vertex and (separate stream) a jitter below tol/10 --
for EVERY cyclic rotation of the vertex list and both orientations.

Decided on the outputs, with exact integer arithmetic on the (dyadic) float coordinates:
  order     output vertices are input vertices in the input's cyclic (open chains: linear) order
  outline   every removed vertex is within tol of the output edge that replaces it
  area      |area(out) - area(in)| <= tol * perimeter(in), orientation unchanged
  redundant every vertex inserted on an edge / duplicated is gone (one representative per corner)
  corner    every genuine corner keeps exactly one representative, whatever the start vertex
  idempotent a second application returns the same cyclic (open: linear) sequence
"""
import math
import random
import time
from fractions import Fraction as F

from ladybug_geometry.geometry2d.pointvector import Point2D
from ladybug_geometry.geometry3d.pointvector import Point3D, Vector3D
from ladybug_geometry.geometry2d.polygon import Polygon2D
from ladybug_geometry.geometry2d.polyline import Polyline2D
from ladybug_geometry.geometry3d.polyline import Polyline3D
from ladybug_geometry.geometry3d.face import Face3D
from ladybug_geometry.geometry3d.plane import Plane

ASSUMPTIONS = [
    'valid inputs: simple base loops (exact test), 3..60 vertices after decoration, |c|<=1e4, '
    'base edges and gaps between non-adjacent edges >= 1e-3, holes strictly inside and disjoint',
    'a corner is "genuine" when every member of its duplicate cluster is farther than 1.25*tol '
    'from every chord between a vertex of the previous edge and a vertex of the next edge '
    '(exact); a vertex is "redundant" when it was inserted exactly on an edge or is a duplicate, '
    'moved by less than tol/10 and (exact) within tol/4 of every chord that can replace it; '
    'decorated loops that do not certify are counted as ambiguous and not judged',
    'remove_duplicate_vertices is judged only when cyclically adjacent distinct vertices are '
    'at least 2*tol apart in some coordinate',
    '"original cyclic order", "changes nothing" are statements about cyclic sequences; of the '
    'copies of a duplicated corner any one may survive; open polylines keep both end vertices',
]
TRUSTED = [
    'C15 oracle: Python integer arithmetic on the exact binary values of the float coordinates '
    '(no Lean specification); perimeter (only used as the bound tol*perimeter) in double '
    'precision with 1e-9 slack',
]

PRIORITY = ['raises', 'type', 'order', 'corner', 'redundant', 'outline', 'area', 'orientation',
            'idempotent']
COS2_5 = F(992403, 1000000)        # just below cos^2(5 deg) = 0.99240387...
GEN_MARGIN = F(5, 4)               # genuine corners: farther than 1.25 tol
RED_FRAC = F(1, 4)                 # redundant vertices: within tol/4


# ------------------------------------------------------------------ exact helpers (any dimension)
def sub(a, b):
    return tuple(x - y for x, y in zip(a, b))


def dot(a, b):
    return sum(x * y for x, y in zip(a, b))


def cross2(a, b):
    """squared norm of the cross product (2D: squared determinant)."""
    if len(a) == 2:
        c = a[0] * b[1] - a[1] * b[0]
        return c * c
    c0 = a[1] * b[2] - a[2] * b[1]
    c1 = a[2] * b[0] - a[0] * b[2]
    c2 = a[0] * b[1] - a[1] * b[0]
    return c0 * c0 + c1 * c1 + c2 * c2


def line_d2(x, p, n):
    """(num, den): squared distance of x from the line through p, n (den > 0 if p != n)."""
    d = sub(n, p)
    return cross2(d, sub(x, p)), dot(d, d)


def seg_d2(x, a, b):
    """(num, den): squared distance of x from the segment a b."""
    ab = sub(b, a)
    ax = sub(x, a)
    L = dot(ab, ab)
    t = dot(ax, ab)
    if L == 0 or t <= 0:
        return dot(ax, ax), 1
    if t >= L:
        bx = sub(x, b)
        return dot(bx, bx), 1
    return dot(ax, ax) * L - t * t, L


def scale_ints(pts):
    """float tuples -> (integer tuples, D) with pt = ints / D exactly."""
    D = 1
    for p in pts:
        for c in p:
            d = c.as_integer_ratio()[1]
            if d > D:
                D = d
    out = []
    for p in pts:
        q = []
        for c in p:
            n, d = c.as_integer_ratio()
            q.append(n * (D // d))
        out.append(tuple(q))
    return out, D


def orient(a, b, c):
    return (b[0] - a[0]) * (c[1] - a[1]) - (b[1] - a[1]) * (c[0] - a[0])


def sgn(x):
    return (x > 0) - (x < 0)


def segs_touch(a, b, c, d):
    """Exact: do the closed 2D segments ab and cd share a point?"""
    o1, o2 = sgn(orient(a, b, c)), sgn(orient(a, b, d))
    o3, o4 = sgn(orient(c, d, a)), sgn(orient(c, d, b))
    if o1 != o2 and o3 != o4:
        return True

    def on(p, q, r):
        return min(p[0], q[0]) <= r[0] <= max(p[0], q[0]) and \
            min(p[1], q[1]) <= r[1] <= max(p[1], q[1])
    if o1 == 0 and on(a, b, c):
        return True
    if o2 == 0 and on(a, b, d):
        return True
    if o3 == 0 and on(c, d, a):
        return True
    if o4 == 0 and on(c, d, b):
        return True
    return False


def point_in_poly(p, poly):
    """Exact even-odd: 1 inside, 0 on the boundary, -1 outside."""
    inside = False
    n = len(poly)
    for i in range(n):
        a, b = poly[i - 1], poly[i]
        if orient(a, b, p) == 0 and min(a[0], b[0]) <= p[0] <= max(a[0], b[0]) and \
                min(a[1], b[1]) <= p[1] <= max(a[1], b[1]):
            return 0
        if (a[1] > p[1]) != (b[1] > p[1]):
            # x of the crossing > p.x  <=>  orient sign test
            o = orient(a, b, p)
            if (b[1] > a[1]) == (o > 0):
                inside = not inside
    return 1 if inside else -1


def base_valid(base, min_len, min_gap):
    """Exact validity of a base loop of Fractions (2D): simple, corners turn 5..175 deg,
    edges >= min_len, non-adjacent edges >= min_gap apart."""
    n = len(base)
    if n < 3:
        return False
    ml2, mg2 = min_len * min_len, min_gap * min_gap
    for i in range(n):
        a, b, c = base[i - 1], base[i], base[(i + 1) % n]
        u, v = sub(b, a), sub(c, b)
        uu, vv = dot(u, u), dot(v, v)
        if uu < ml2 or vv < ml2:
            return False
        d = dot(u, v)
        if d * d > COS2_5 * uu * vv:
            return False
    for i in range(n):
        a, b = base[i], base[(i + 1) % n]
        for j in range(i + 1, n):
            if j == i or (j + 1) % n == i or (i + 1) % n == j:
                continue
            c, d = base[j], base[(j + 1) % n]
            if segs_touch(a, b, c, d):
                return False
            for (x, p, q) in ((a, c, d), (b, c, d), (c, a, b), (d, a, b)):
                nu, de = seg_d2(x, p, q)
                if nu < mg2 * de:
                    return False
    return True


def loops_apart(outer, inner, gap):
    """Exact: loop `inner` strictly inside loop `outer`, at least `gap` away."""
    g2 = gap * gap
    for p in inner:
        if point_in_poly(p, outer) != 1:
            return False
    return _edges_apart(outer, inner, g2)


def _edges_apart(l1, l2, g2):
    for i in range(len(l1)):
        a, b = l1[i - 1], l1[i]
        for j in range(len(l2)):
            c, d = l2[j - 1], l2[j]
            if segs_touch(a, b, c, d):
                return False
            for (x, p, q) in ((a, c, d), (b, c, d), (c, a, b), (d, a, b)):
                nu, de = seg_d2(x, p, q)
                if nu < g2 * de:
                    return False
    return True


def loops_disjoint(l1, l2, gap):
    if point_in_poly(l1[0], l2) != -1 or point_in_poly(l2[0], l1) != -1:
        return False
    return _edges_apart(l1, l2, gap * gap)


# ------------------------------------------------------------------ base shapes (dyadic Fractions)
def _q(x, den=8):
    return F(int(round(x * den)), den)


def gen_convex(rng, n):
    r = rng.choice([2.0, 5.0, 12.0])
    angs = sorted(rng.uniform(0, 2 * math.pi) for _ in range(n))
    return [(_q(r * math.cos(a)), _q(r * math.sin(a))) for a in angs]


def gen_star(rng, n):
    r = rng.choice([3.0, 6.0, 15.0])
    step = 2 * math.pi / n
    out = []
    for i in range(n):
        a = (i + rng.uniform(0.15, 0.85)) * step
        rr = r * rng.uniform(0.35, 1.0)
        out.append((_q(rr * math.cos(a)), _q(rr * math.sin(a))))
    return out


def gen_rectilinear(rng, n):
    cols = max(2, min(5, n // 2 - 1))
    xs = [0]
    for _ in range(cols):
        xs.append(xs[-1] + rng.randint(1, 4))
    hs = []
    for _ in range(cols):
        while True:
            h = rng.randint(1, 6)
            if not hs or h != hs[-1]:
                hs.append(h)
                break
    pts = [(F(0), F(0)), (F(xs[-1]), F(0))]
    for c in range(cols - 1, -1, -1):
        pts.append((F(xs[c + 1]), F(hs[c])))
        pts.append((F(xs[c]), F(hs[c])))
    return pts


def gen_shallow(rng, n):
    """Many corners, each turning only a little (near the 5 degree limit)."""
    r = rng.choice([8.0, 20.0, 60.0])
    step = 2 * math.pi / n
    out = []
    for i in range(n):
        a = (i + rng.uniform(0.3, 0.7)) * step
        rr = r * rng.uniform(0.97, 1.0)
        out.append((_q(rr * math.cos(a), 16), _q(rr * math.sin(a), 16)))
    return out


FAMILIES = {'convex': gen_convex, 'star': gen_star, 'rectilinear': gen_rectilinear,
            'shallow': gen_shallow}


def make_base(rng, family, near):
    """A certified base loop (list of Fraction pairs), or None."""
    for _ in range(40):
        if family == 'shallow':
            n = rng.randint(14, 30)
        elif family == 'rectilinear':
            n = rng.choice([6, 8, 10, 12])
        else:
            n = rng.randint(3, 10)
        pts = FAMILIES[family](rng, n)
        # integer shear / reflection (keeps dyadic coordinates, changes the directions)
        if rng.random() < 0.6:
            m = rng.choice([((1, 1), (0, 1)), ((1, 0), (1, 1)), ((2, 1), (1, 1)), ((1, -1), (1, 1)),
                            ((0, -1), (1, 0)), ((1, 2), (0, 1)), ((3, 1), (-1, 2))])
            pts = [(m[0][0] * x + m[0][1] * y, m[1][0] * x + m[1][1] * y) for x, y in pts]
        s = rng.choice([F(1, 4), F(1, 2), 1, 1, 2, 8, 32] if not near else [F(1, 16), F(1, 8), 1, 64])
        ox = F(rng.randint(-400, 400), 8) * rng.choice([1, 1, 16])
        oy = F(rng.randint(-400, 400), 8) * rng.choice([1, 1, 16])
        pts = [(x * s + ox, y * s + oy) for x, y in pts]
        if any(abs(c) > 9000 for p in pts for c in p):
            continue
        if len(set(pts)) != len(pts):
            continue
        gap = F(1, 1000) if near else F(1, 20)
        if base_valid(pts, gap, gap):
            return pts
    return None


LIFTS = {
    'horizontal': [((1, 0, 0), (0, 1, 0)), ((1, 1, 0), (-1, 1, 0)), ((0, 1, 0), (1, 0, 0))],
    'vertical': [((1, 0, 0), (0, 0, 1)), ((1, 1, 0), (0, 0, 1)), ((2, -1, 0), (0, 0, 1)),
                 ((0, 0, 1), (0, 1, 0))],
    'tilted': [((1, 0, 1), (0, 1, 1)), ((1, 1, 0), (0, 1, 2)), ((2, 0, -1), (1, 1, 1)),
               ((1, -1, 1), (1, 1, 0))],
}


def lift(rng, kind):
    u, v = rng.choice(LIFTS[kind])
    o = (F(rng.randint(-80, 80), 4), F(rng.randint(-80, 80), 4), F(rng.randint(-80, 80), 4))
    return u, v, o


def apply_lift(l, p):
    u, v, o = l
    return tuple(o[k] + p[0] * u[k] + p[1] * v[k] for k in range(3))


# ------------------------------------------------------------------ decoration
def decorate(rng, base, budget, heavy):
    """-> list of (point(Fractions), group) in loop order; groups ('c', k) / ('e', k, j)."""
    n = len(base)
    out = []
    for k in range(n):
        a, b = base[k], base[(k + 1) % n]
        nd = rng.choice([0, 1, 2] if not heavy else [1, 2, 2])
        out.append((a, ('c', k)))
        for _ in range(nd):
            out.append((a, ('c', k)))
        ne = rng.choice([0, 0, 1, 2, 3] if not heavy else [1, 2, 3, 3])
        m = rng.choice([1, 2, 3, 4])
        ts = sorted(rng.sample(range(1, 2 ** m), min(ne, 2 ** m - 1)))
        for j, t in enumerate(ts):
            tt = F(t, 2 ** m)
            out.append((tuple(x + tt * (y - x) for x, y in zip(a, b)), ('e', k, j)))
    # respect the vertex budget: drop random redundant vertices
    while len(out) > budget:
        cand = [i for i, (p, g) in enumerate(out)
                if g[0] == 'e' or (i > 0 and out[i - 1][1] == g)]
        if not cand:
            break
        del out[rng.choice(cand)]
    return out


def to_floats(pts):
    """Exact conversion of Fraction tuples to float tuples (asserted exact)."""
    out = []
    for p in pts:
        q = tuple(float(c) for c in p)
        if any(F(x) != c for x, c in zip(q, p)):
            return None
        out.append(q)
    return out


def jitter(rng, pts, tol, mode):
    """Move vertices by less than tol/10 (euclidean).  mode: 'none' | 'some' | 'all'."""
    if mode == 'none':
        return list(pts)
    dim = len(pts[0])
    out = []
    for p in pts:
        if mode == 'some' and rng.random() < 0.5:
            out.append(p)
            continue
        while True:
            v = [rng.gauss(0, 1) for _ in range(dim)]
            nv = math.sqrt(sum(x * x for x in v))
            if nv > 1e-6:
                break
        mag = rng.uniform(0.0, 0.097) * tol
        out.append(tuple(c + mag * x / nv for c, x in zip(p, v)))
    return out


# ------------------------------------------------------------------ certificate of a decorated loop
class Loop(object):
    """A decorated (and possibly jittered) loop with its exact certificate."""

    def __init__(self, pts, groups, tol):
        self.pts = [tuple(p) for p in pts]            # float tuples
        self.groups = list(groups)
        self.tol = tol
        self.ipts, self.D = scale_ints(self.pts)
        self.gmap = {}
        self.consistent = True
        for p, g in zip(self.pts, self.groups):
            key = g if g[0] == 'e' else ('c', g[1])
            if self.gmap.setdefault(p, key) != key:
                self.consistent = False          # two different groups share a coordinate
        self.ncorner = len(set(g[1] for g in self.groups if g[0] == 'c'))

    def certify(self):
        """Exact: every corner cluster genuine, every other vertex redundant, distinct
        neighbours separated.  Returns dict of booleans."""
        tol = F(self.tol)
        D = self.D
        n = len(self.pts)
        ip = self.ipts
        nc = self.ncorner
        members = [[] for _ in range(nc)]
        decos = [[] for _ in range(nc)]
        for i, g in enumerate(self.groups):
            if g[0] == 'c':
                members[g[1]].append(i)
            else:
                decos[g[1]].append(i)
        gen_thr2 = (GEN_MARGIN * tol * D) ** 2
        red_thr2 = (RED_FRAC * tol * D) ** 2
        genuine = True
        for k in range(nc):
            preds = members[k - 1] + decos[k - 1]
            succs = decos[k] + members[(k + 1) % nc]
            for x in members[k]:
                for p in preds:
                    for q in succs:
                        nu, de = line_d2(ip[x], ip[p], ip[q])
                        if de == 0 or nu <= gen_thr2 * de:
                            genuine = False
                            break
                    if not genuine:
                        break
                if not genuine:
                    break
            if not genuine:
                break
        redundant = True
        for k in range(nc):
            ms = members[k]
            for a in ms:
                for b in ms:
                    if a < b:
                        d = sub(ip[a], ip[b])
                        if dot(d, d) >= red_thr2:
                            redundant = False
            ds = decos[k]
            for j, x in enumerate(ds):
                before = members[k] + ds[:j]
                after = ds[j + 1:] + members[(k + 1) % nc]
                for p in before:
                    for q in after:
                        nu, de = seg_d2(ip[x], ip[p], ip[q])
                        if nu >= red_thr2 * de:
                            redundant = False
        # moved by less than tol/10 is by construction; separation of distinct neighbours:
        sep = True
        two = 2 * tol * D
        for i in range(n):
            if self._key(i) != self._key(i - 1):
                d = sub(ip[i], ip[i - 1])
                if max(abs(c) for c in d) < two:
                    sep = False
        return {'genuine': genuine and self.consistent, 'redundant': redundant, 'sep': sep}

    def _key(self, i):
        g = self.groups[i]
        return g if g[0] == 'e' else ('c', g[1])


# ------------------------------------------------------------------ the oracle
def cyc_embed(S, O):
    """Indices (unwrapped, increasing, within one turn) embedding O into the cyclic S."""
    n, m = len(S), len(O)
    if m == 0 or m > n:
        return None
    for p in range(n):
        if S[p] != O[0]:
            continue
        idx = [p]
        k = p
        ok = True
        for j in range(1, m):
            k += 1
            while k < p + n and S[k % n] != O[j]:
                k += 1
            if k >= p + n:
                ok = False
                break
            idx.append(k)
        if ok:
            return idx
    return None


def lin_embed(S, O):
    idx = []
    k = -1
    for o in O:
        k += 1
        while k < len(S) and S[k] != o:
            k += 1
        if k >= len(S):
            return None
        idx.append(k)
    return idx


def canon_cyc(O):
    if not O:
        return ()
    m = min(range(len(O)), key=lambda i: tuple(O[i:]) + tuple(O[:i]))
    return tuple(O[m:]) + tuple(O[:m])


def vec_area(ipts):
    """Twice the (vector) area in integer units."""
    if len(ipts[0]) == 2:
        return (sum(ipts[i - 1][0] * ipts[i][1] - ipts[i - 1][1] * ipts[i][0]
                    for i in range(len(ipts))),)
    n = [0, 0, 0]
    for i in range(len(ipts)):
        a, b = ipts[i - 1], ipts[i]
        n[0] += a[1] * b[2] - a[2] * b[1]
        n[1] += a[2] * b[0] - a[0] * b[2]
        n[2] += a[0] * b[1] - a[1] * b[0]
    return tuple(n)


def judge(S, O, gmap, tol, closed, op, ncorner_groups=None):
    """Judge one output O (float tuples) for the input S.  Returns list of (clause, detail)."""
    bad = []
    if any(o not in gmap for o in O):
        return [('order', 'output vertex that is not an input vertex: %r'
                 % ([o for o in O if o not in gmap][:1],))]
    idx = cyc_embed(S, O) if closed else lin_embed(S, O)
    if idx is None:
        return [('order', 'output is not a sub-sequence of the input in its %s order'
                 % ('cyclic' if closed else 'linear'))]
    n = len(S)
    allp, D = scale_ints(list(S))
    tol_f = F(tol)
    thr2 = (tol_f * D) ** 2
    # outline: removed vertices within tol of the replacing edge
    pairs = list(zip(idx[:-1], idx[1:]))
    if closed:
        pairs.append((idx[-1], idx[0] + n))
    else:
        if O[0] != S[0] or O[-1] != S[-1]:
            bad.append(('outline', 'an end vertex of the open polyline was removed'))
        else:
            idx[-1] = n - 1       # (exact duplicates of the end vertex: greedy match fix-up)
    worst = None
    for a, b in pairs:
        pa, pb = allp[a % n], allp[b % n]
        for k in range(a + 1, b):
            nu, de = seg_d2(allp[k % n], pa, pb)
            if nu > thr2 * de:
                r = math.sqrt(nu / de) / D / tol
                if worst is None or r > worst[0]:
                    worst = (r, k % n)
    if worst is not None:
        bad.append(('outline', 'removed input vertex #%d %r ends up %.3g*tol from the output '
                    'outline' % (worst[1], S[worst[1]], worst[0])))
    # area / orientation
    if closed and len(O) >= 3:
        ain = vec_area(allp)
        aout = vec_area([allp[i % n] for i in idx])
        per = sum(math.sqrt(dot(sub(allp[i], allp[i - 1]), sub(allp[i], allp[i - 1])))
                  for i in range(n)) / D
        if len(ain) == 1:
            d_area = abs(ain[0] - aout[0]) / 2.0 / D / D
            same = sgn(ain[0]) == sgn(aout[0]) and ain[0] != 0
        else:
            d_area = abs(math.sqrt(dot(ain, ain)) - math.sqrt(dot(aout, aout))) / 2.0 / D / D
            same = dot(ain, aout) > 0
        if d_area > tol * per * (1 + 1e-9):
            bad.append(('area', 'area changes by %.6g > tol*perimeter = %.6g' % (d_area, tol * per)))
        if not same:
            bad.append(('orientation', 'orientation of the loop changed'))
    # redundancy / corners
    keys = [gmap[o] for o in O]
    skeys = [gmap[s] for s in S]
    if closed:
        corners = set(k for k in skeys if k[0] == 'c')
        cnt = {}
        for k in keys:
            cnt[k] = cnt.get(k, 0) + 1
        lost = sorted(k for k in corners if cnt.get(k, 0) == 0)
        if lost:
            pos = [i for i, k in enumerate(skeys) if k == lost[0]]
            bad.append(('corner', 'genuine corner %r (input positions %r of %d) has no '
                        'representative in the output' % (lost[0], pos, n), _seam(pos, n)))
        extra = sorted(k for k in corners if cnt.get(k, 0) > 1)
        if extra:
            pos = [i for i, k in enumerate(skeys) if k == extra[0]]
            bad.append(('redundant', 'duplicated corner %r (input positions %r of %d) keeps %d '
                        'copies' % (extra[0], pos, n, cnt[extra[0]]), _seam(pos, n)))
        if op == 'remove_colinear_vertices':
            kept = sorted(k for k in cnt if k[0] == 'e')
            if kept:
                pos = [i for i, k in enumerate(skeys) if k == kept[0]]
                bad.append(('redundant', 'vertex inserted on an edge %r (input position %r of %d) '
                            'is kept' % (kept[0], pos, n), _seam(pos, n)))
        else:
            gone = sorted(set(k for k in skeys if k[0] == 'e' and cnt.get(k, 0) == 0))
            if gone:
                bad.append(('order', 'remove_duplicate_vertices removed the non-duplicate '
                            'vertex %r' % (gone[0],)))
    else:
        # open chain: groups are maximal runs of equal keys
        runs = []
        for i, k in enumerate(skeys):
            if runs and runs[-1][0] == k and k[0] == 'c':
                runs[-1][1].append(i)
            else:
                runs.append((k, [i]))
        kept_idx = set(idx)
        for ri, (k, pos) in enumerate(runs):
            got = [i for i in pos if i in kept_idx]
            is_end = (ri == 0 or ri == len(runs) - 1)
            where = 'end' if is_end else 'interior'
            if k[0] == 'c':
                if not got:
                    bad.append(('corner', 'genuine corner %r (input positions %r of %d) has '
                                'no representative in the output' % (k, pos, n), where))
                elif len(got) > 1:
                    bad.append(('redundant', 'duplicated corner %r (input positions %r of %d) '
                                'keeps %d copies' % (k, pos, n, len(got)), where))
            else:
                if got and not (pos[0] == 0 or pos[0] == n - 1):
                    bad.append(('redundant', 'vertex inserted on an edge %r (input position %r '
                                'of %d) is kept' % (k, pos, n), where))
    return bad


def _seam(pos, n):
    return 'seam' if (min(pos) <= 1 or max(pos) >= n - 2) else 'interior'


# ------------------------------------------------------------------ driving the real code
def pts_of(obj, what):
    if what == 'boundary':
        return [tuple(float(c) for c in (p.x, p.y, p.z)) for p in obj.boundary]
    v = obj.vertices
    if isinstance(v[0], (Point3D, Vector3D)):
        return [(p.x, p.y, p.z) for p in v]
    return [(p.x, p.y) for p in v]


def build(cls, S, extra=None):
    if cls == 'Polygon2D':
        return Polygon2D([Point2D(*p) for p in S])
    if cls == 'Polyline2D':
        return Polyline2D([Point2D(*p) for p in S])
    if cls == 'Polyline3D':
        return Polyline3D([Point3D(*p) for p in S])
    if cls == 'Face3D':
        extra = extra or {}
        holes = [[Point3D(*p) for p in h] for h in extra.get('holes', [])] or None
        mode = extra.get('mode', 'auto')
        pts = [Point3D(*p) for p in S]
        if mode == 'auto':
            return Face3D(pts, None, holes)
        n = Vector3D(*extra['normal'])
        if mode == 'flipped':
            n = n.reverse()
        return Face3D(pts, Plane(n, pts[0]), holes, enforce_right_hand=(mode == 'plane'))
    raise ValueError(cls)


def loops_of(cls, obj):
    """The loops of a real object as lists of float tuples: [boundary, hole...]."""
    if cls == 'Face3D':
        out = [[(p.x, p.y, p.z) for p in obj.boundary]]
        if obj.has_holes:
            for h in obj.holes:
                out.append([(p.x, p.y, p.z) for p in h])
        return out
    return [pts_of(obj, 'vertices')]


OPS = {'Polygon2D': ('remove_colinear_vertices', 'remove_duplicate_vertices'),
       'Face3D': ('remove_colinear_vertices', 'remove_duplicate_vertices'),
       'Polyline2D': ('remove_colinear_vertices',),
       'Polyline3D': ('remove_colinear_vertices',)}


def check_case(cls, op, S, gmap, tol, extra=None, cache=None):
    """Run op on the real class built from S (and extra holes); judge.  Returns
    (list of failures [(clause, detail, where)], n_outputs_judged)."""
    closed = cls in ('Polygon2D', 'Face3D')
    site = '%s.%s' % (cls, op)
    try:
        obj = build(cls, S, extra)
    except Exception as e:      # the constructor rejected a valid input
        return [('raises ' + type(e).__name__, 'constructing %s: %s' % (cls, str(e)[:120]), '')]
    try:
        res = getattr(obj, op)(tol)
        res2 = getattr(res, op)(tol)
    except Exception as e:
        return [('raises ' + type(e).__name__, '%s(%r) on a valid input: %s'
                 % (site, tol, str(e)[:160]), '')]
    if type(res).__name__ != cls:
        return [('type', '%s returned a %s' % (site, type(res).__name__), '')]
    ins, outs, outs2 = loops_of(cls, obj), loops_of(cls, res), loops_of(cls, res2)
    bad = []
    if len(ins) != len(outs):
        return [('order', '%d loops in, %d loops out' % (len(ins), len(outs)), '')]
    if cls in ('Polygon2D', 'Face3D'):
        try:
            if bool(obj.is_clockwise) != bool(res.is_clockwise):
                bad.append(('orientation', 'is_clockwise %r -> %r'
                            % (obj.is_clockwise, res.is_clockwise), ''))
        except Exception as e:
            bad.append(('raises ' + type(e).__name__, 'is_clockwise of the result', ''))
    for li, (Sin, O) in enumerate(zip(ins, outs)):
        key = (cls, op, li, tuple(Sin) if not closed else None,
               canon_cyc(O) if closed else tuple(O), canon_cyc(Sin) if closed else None)
        if cache is not None and key in cache:
            verdict = cache[key]
        else:
            verdict = judge(Sin, O, gmap, tol, closed, op)
            if cache is not None:
                cache[key] = verdict
        for v in verdict:
            bad.append((v[0], ('loop %d: ' % li if len(ins) > 1 else '') + v[1],
                        v[2] if len(v) > 2 else ''))
        O2 = outs2[li] if li < len(outs2) else None
        same = O2 is not None and (canon_cyc(O2) == canon_cyc(O) if closed else O2 == O)
        if not same:
            bad.append(('idempotent', 'second application changes the result: %d -> %d vertices'
                        % (len(O), len(O2) if O2 is not None else -1), ''))
    return bad


# ------------------------------------------------------------------ case generation
def make_case(rng, stream):
    """-> dict with everything needed to run/replay, or None.  stream: 'exact' | 'jitter' | 'near'."""
    near = stream == 'near'
    family = rng.choice(['convex', 'star', 'rectilinear', 'star', 'shallow'] if not near
                        else ['shallow', 'star', 'convex'])
    base = make_base(rng, family, near)
    if base is None:
        return None
    if rng.random() < 0.5:
        base = list(reversed(base))
    tol = rng.choice([1e-3, 2e-3, 5e-3, 1e-2, rng.uniform(1e-3, 1e-2)])
    deco = decorate(rng, base, 60, heavy=rng.random() < 0.3)
    plane_kind = rng.choice(['horizontal', 'vertical', 'tilted'])
    lf = lift(rng, plane_kind)
    pts2 = to_floats([p for p, g in deco])
    pts3 = to_floats([apply_lift(lf, p) for p, g in deco])
    if pts2 is None or pts3 is None or any(abs(c) > 1e4 for p in pts3 for c in p):
        return None
    groups = [g for p, g in deco]
    # exactness of the decoration (independent re-check on the float values, integer arithmetic)
    for pts in (pts2, pts3):
        ip, D = scale_ints(pts)
        nb = len(base)
        corner = {}
        for p, g in zip(ip, groups):
            if g[0] == 'c':
                if corner.setdefault(g[1], p) != p:
                    return None
        for p, g in zip(ip, groups):
            if g[0] == 'e':
                a, b = corner[g[1]], corner[(g[1] + 1) % nb]
                if cross2(sub(b, a), sub(p, a)) != 0 or not (0 < dot(sub(p, a), sub(b, a)) <
                                                            dot(sub(b, a), sub(b, a))):
                    return None
    jmode = 'none' if stream == 'exact' else rng.choice(['some', 'all'])
    j2 = jitter(rng, pts2, tol, jmode)
    j3 = jitter(rng, pts3, tol, jmode)
    # normal of the lifted plane (for explicit-plane construction of faces)
    u, v, o = lf
    nrm = (u[1] * v[2] - u[2] * v[1], u[2] * v[0] - u[0] * v[2], u[0] * v[1] - u[1] * v[0])
    ln = math.sqrt(sum(c * c for c in nrm))
    return {'family': family, 'stream': stream, 'tol': tol, 'groups': groups,
            'pts2': j2, 'pts3': j3, 'plane_kind': plane_kind, 'jitter': jmode,
            'normal': tuple(c / ln for c in nrm), 'nbase': len(base)}


def hexpts(pts):
    return [[c.hex() for c in p] for p in pts]


def unhex(pts):
    return [tuple(float.fromhex(c) for c in p) for p in pts]


def failure_record(cls, op, clause, where, detail, S, groups, tol, extra, seed_info):
    sig = '%s.%s|%s%s' % (cls, op, clause, ('|' + where) if where else '')
    rec = {'signature': sig,
           'what': '%s(%r) on %d vertices (%s): %s' % (op, tol, len(S), cls, detail),
           'cls': cls, 'op': op, 'tol': tol, 'tol_hex': float(tol).hex(),
           'vertices': hexpts(S), 'vertices_repr': [list(p) for p in S],
           'groups': [list(g) for g in groups], 'clause': clause, 'seed_info': seed_info}
    if extra:
        rec['extra'] = {'mode': extra.get('mode', 'auto'),
                        'normal': list(extra.get('normal', ())),
                        'holes': [hexpts(h) for h in extra.get('holes', [])],
                        'hole_groups': [[list(g) for g in hg]
                                        for hg in extra.get('hole_groups', [])]}
    return rec


def gmap_of(S, groups, prefix=0):
    m = {}
    for p, g in zip(S, groups):
        g = tuple(g)
        key = (g[0], prefix, g[1]) if g[0] == 'c' else (g[0], prefix, g[1], g[2])
        m[tuple(p)] = key
    return m


def run_one(cls, op, S, groups, tol, extra):
    """Everything from raw data (used by run, shrink and replay)."""
    gmap = gmap_of(S, groups)
    if extra and extra.get('holes'):
        for hi, (h, hg) in enumerate(zip(extra['holes'], extra['hole_groups'])):
            gmap.update(gmap_of(h, hg, hi + 1))
    return check_case(cls, op, S, gmap, tol, extra)


def certified(S, groups, tol):
    lp = Loop(S, [tuple(g) for g in groups], tol)
    return lp.certify()


def shrink(cls, op, clause, S, groups, tol, extra, deadline):
    """Greedy removal of redundant vertices while the same clause keeps failing on a loop that
    still certifies."""
    S, groups = list(S), [tuple(g) for g in groups]
    changed = True
    while changed and time.time() < deadline:
        changed = False
        for i in range(len(S)):
            g = groups[i]
            if g[0] == 'c' and sum(1 for h in groups if h[0] == 'c' and h[1] == g[1]) == 1:
                continue
            S2, G2 = S[:i] + S[i + 1:], groups[:i] + groups[i + 1:]
            if len(S2) < 4:
                continue
            c = certified(S2, G2, tol)
            if not (c['genuine'] and c['redundant']):
                continue
            bad = run_one(cls, op, S2, G2, tol, extra)
            if any(b[0] == clause for b in bad):
                S, groups = S2, G2
                changed = True
                break
    return S, groups


# ------------------------------------------------------------------ faces with holes
def make_hole_case(rng, stream):
    """Boundary + 1..2 holes, each decorated; certified exactly (2D), then lifted."""
    for _ in range(10):
        outer = make_base(rng, rng.choice(['convex', 'rectilinear', 'star']), False)
        if outer is None:
            continue
        # enlarge the outer loop
        outer = [(x * 8, y * 8) for x, y in outer]
        if any(abs(c) > 1200 for p in outer for c in p):
            continue
        xs = [p[0] for p in outer]
        ys = [p[1] for p in outer]
        holes = []
        for _h in range(rng.choice([1, 1, 2])):
            for _t in range(20):
                hb = make_base(rng, rng.choice(['convex', 'rectilinear', 'star']), False)
                if hb is None:
                    continue
                hx = [p[0] for p in hb]
                hy = [p[1] for p in hb]
                if max(hx) - min(hx) > (max(xs) - min(xs)) / 2 or \
                        max(hy) - min(hy) > (max(ys) - min(ys)) / 2:
                    continue
                tx = F(rng.randint(int(min(xs) * 4), int(max(xs) * 4)), 4) - hx[0]
                ty = F(rng.randint(int(min(ys) * 4), int(max(ys) * 4)), 4) - hy[0]
                hb = [(x + tx, y + ty) for x, y in hb]
                if not loops_apart(outer, hb, F(1, 20)):
                    continue
                if any(not loops_disjoint(hb, o, F(1, 20)) for o in holes):
                    continue
                holes.append(hb)
                break
        if not holes:
            continue
        tol = rng.choice([1e-3, 2e-3, 5e-3, 1e-2, rng.uniform(1e-3, 1e-2)])
        kind = rng.choice(['horizontal', 'vertical', 'tilted'])
        lf = lift(rng, kind)
        loops = []
        jmode = 'none' if stream == 'exact' else rng.choice(['some', 'all'])
        ok = True
        for li, lp in enumerate([outer] + holes):
            if rng.random() < 0.5:
                lp = list(reversed(lp))
            deco = decorate(rng, lp, 40 if li == 0 else 20, heavy=False)
            p3 = to_floats([apply_lift(lf, p) for p, g in deco])
            if p3 is None or any(abs(c) > 1e4 for p in p3 for c in p):
                ok = False
                break
            loops.append((jitter(rng, p3, tol, jmode), [g for p, g in deco]))
        if not ok:
            continue
        u, v, o = lf
        nrm = (u[1] * v[2] - u[2] * v[1], u[2] * v[0] - u[0] * v[2], u[0] * v[1] - u[1] * v[0])
        ln = math.sqrt(sum(c * c for c in nrm))
        return {'tol': tol, 'loops': loops, 'normal': tuple(c / ln for c in nrm),
                'plane_kind': kind, 'stream': stream, 'jitter': jmode}
    return None


# ------------------------------------------------------------------ run
def run(ctx):
    seed = ctx.seed
    thorough = ctx.tier == 'thorough' or bool(ctx.broken)
    t_end = min(ctx.deadline, time.time() + (600 if thorough else 32))
    evaluations = 0
    nontrivial = set()
    failures = {}
    samples = []
    hist = {'stream': {}, 'family': {}, 'class_op': {}, 'input_size': {}, 'n_corners': {},
            'plane': {}, 'rotations_with_redundancy_at_seam': 0, 'rotations': 0, 'ambiguous_dropped': 0,
            'dup_op_skipped(sep)': 0, 'generator_rejects': 0, 'face_modes': {},
            'faces_with_holes': 0, 'jitter': {}}

    def bump(d, k, n=1):
        d[k] = d.get(k, 0) + n

    def record(cls, op, bad, S, groups, tol, extra, info):
        # one defect trips several clauses: report the most basic one per case
        bad = sorted(bad, key=lambda b: PRIORITY.index(b[0].split(' ')[0])
                     if b[0].split(' ')[0] in PRIORITY else 99)[:1]
        for b in bad:
            clause, detail, where = b[0], b[1], (b[2] if len(b) > 2 else '')
            sig = '%s.%s|%s%s' % (cls, op, clause, ('|' + where) if where else '')
            if sig in failures:
                failures[sig]['hits'] += 1
                continue
            S2, G2 = S, groups
            if not (extra and extra.get('holes')) and not clause.startswith('raises'):
                try:
                    S2, G2 = shrink(cls, op, clause, S, groups, tol, extra,
                                    min(t_end, time.time() + 5))
                    bad2 = [x for x in run_one(cls, op, S2, G2, tol, extra) if x[0] == clause]
                    if bad2:
                        detail = bad2[0][1]
                    else:
                        S2, G2 = S, groups
                except Exception:
                    S2, G2 = S, groups
            rec = failure_record(cls, op, clause, where, detail, S2, G2, tol, extra, info)
            rec['hits'] = 1
            failures[sig] = rec

    case_no = 0
    streams = ['exact', 'jitter', 'exact', 'jitter', 'near']
    while time.time() < t_end:
        stream = streams[case_no % len(streams)]
        rng = random.Random('%s/c15/%d' % (seed, case_no))
        case_no += 1
        if case_no % 6 == 0:
            # ---------------- a face with holes
            hc = make_hole_case(rng, 'exact' if rng.random() < 0.5 else 'jitter')
            if hc is None:
                bump(hist, 'generator_rejects')
                continue
            tol = hc['tol']
            certs = [certified(S, G, tol) for S, G in hc['loops']]
            if not all(c['genuine'] and c['redundant'] for c in certs):
                bump(hist, 'ambiguous_dropped')
                continue
            sep_ok = all(c['sep'] for c in certs)
            hist['faces_with_holes'] += 1
            bump(hist['plane'], hc['plane_kind'])
            lens = [len(S) for S, G in hc['loops']]
            nrot = max(lens) if thorough else min(max(lens), 12)
            rots = list(range(max(lens))) if thorough else \
                sorted(rng.sample(range(max(lens)), nrot))
            cache = {}
            for r in rots:
                if time.time() >= t_end:
                    break
                rl = []
                for S, G in hc['loops']:
                    k = r % len(S)
                    rl.append((S[k:] + S[:k], G[k:] + G[:k]))
                mode = ['auto', 'plane', 'flipped', 'raw'][r % 4]
                extra = {'mode': mode, 'normal': hc['normal'],
                         'holes': [x[0] for x in rl[1:]], 'hole_groups': [x[1] for x in rl[1:]]}
                gmap = gmap_of(rl[0][0], rl[0][1])
                for hi, (h, hg) in enumerate(rl[1:]):
                    gmap.update(gmap_of(h, hg, hi + 1))
                for op in OPS['Face3D']:
                    if op == 'remove_duplicate_vertices' and not sep_ok:
                        bump(hist, 'dup_op_skipped(sep)')
                        continue
                    bad = check_case('Face3D', op, rl[0][0], gmap, tol, extra, cache)
                    evaluations += 1
                    bump(hist['class_op'], 'Face3D(holes).' + op)
                    bump(hist['face_modes'], mode)
                    nontrivial.add(('Face3D-h', op, tuple(rl[0][0][:3]), r))
                    if bad:
                        record('Face3D', op, bad, rl[0][0], rl[0][1], tol, extra,
                               {'seed': seed, 'case': case_no - 1, 'rotation': r})
            continue
        # ---------------- single loops
        case = make_case(rng, stream)
        if case is None:
            bump(hist, 'generator_rejects')
            continue
        tol = case['tol']
        c2 = certified(case['pts2'], case['groups'], tol)
        c3 = certified(case['pts3'], case['groups'], tol)
        if not (c2['genuine'] and c2['redundant'] and c3['genuine'] and c3['redundant']):
            bump(hist, 'ambiguous_dropped')
            continue
        bump(hist['stream'], stream)
        bump(hist['family'], case['family'])
        bump(hist['plane'], case['plane_kind'])
        bump(hist['jitter'], case['jitter'])
        m = len(case['groups'])
        bump(hist['input_size'], '%d-%d' % (m // 10 * 10, m // 10 * 10 + 9))
        bump(hist['n_corners'], case['nbase'])
        if len(samples) < 4:
            samples.append({'stream': stream, 'family': case['family'], 'tol': tol,
                            'vertices2d': [list(p) for p in case['pts2']],
                            'groups': [list(g) for g in case['groups']]})
        redundant_n = m - case['nbase']
        cache = {}
        for orient_rev in (False, True):
            P2, P3, G = case['pts2'], case['pts3'], case['groups']
            if orient_rev:
                P2, P3, G = P2[::-1], P3[::-1], G[::-1]
            for r in range(m):
                if time.time() >= t_end:
                    break
                S2, S3, GG = P2[r:] + P2[:r], P3[r:] + P3[:r], G[r:] + G[:r]
                hist['rotations'] += 1
                # does redundancy straddle the seam?
                k0, k1, kl = GG[0], GG[1], GG[-1]
                seam = (k0[0] == 'e' or kl[0] == 'e' or
                        (k0[0] == 'c' and kl[0] == 'c' and k0[1] == kl[1]) or
                        (k0[0] == 'c' and k1[0] == 'c' and k0[1] == k1[1]))
                if seam:
                    hist['rotations_with_redundancy_at_seam'] += 1
                mode = ['auto', 'plane', 'flipped', 'raw'][r % 4]
                jobs = [('Polygon2D', S2, None), ('Polyline2D', S2, None),
                        ('Polyline3D', S3, None),
                        ('Face3D', S3, {'mode': mode, 'normal': case['normal']})]
                for cls, S, extra in jobs:
                    gmap = gmap_of(S, GG)
                    for op in OPS[cls]:
                        if op == 'remove_duplicate_vertices' and \
                                not (c2['sep'] if cls == 'Polygon2D' else c3['sep']):
                            bump(hist, 'dup_op_skipped(sep)')
                            continue
                        bad = check_case(cls, op, S, gmap, tol, extra, cache)
                        evaluations += 1
                        bump(hist['class_op'], cls + '.' + op)
                        if cls == 'Face3D':
                            bump(hist['face_modes'], mode)
                        if redundant_n > 0:
                            nontrivial.add((cls, op, case_no, orient_rev, r))
                        if bad:
                            record(cls, op, bad, S, GG, tol, extra,
                                   {'seed': seed, 'case': case_no - 1, 'rotation': r,
                                    'reversed': orient_rev})
    out_f = sorted(failures.values(), key=lambda f: f['signature'])
    return {'evaluations': evaluations, 'distinct_nontrivial': len(nontrivial),
            'rule': 'certified base loops (convex/star/rectilinear/shallow, integer shear, dyadic '
                    'coordinates) decorated with 0..3 exactly collinear points per edge and 0..2 '
                    'duplicates per vertex, optionally jittered < tol/10, lifted exactly to '
                    'horizontal/vertical/tilted planes; EVERY cyclic rotation x both orientations '
                    'x {Polygon2D, Face3D (4 construction modes, with/without holes), Polyline2D, '
                    'Polyline3D} x {remove_colinear_vertices, remove_duplicate_vertices}; '
                    'non-trivial = the loop carries at least one redundant vertex',
            'samples': samples, 'failures': out_f, 'extra': {'histograms': hist}}


def replay(ctx, fl):
    S = unhex(fl['vertices'])
    groups = [tuple(g) for g in fl['groups']]
    tol = float.fromhex(fl['tol_hex'])
    extra = None
    if fl.get('extra'):
        e = fl['extra']
        extra = {'mode': e['mode'], 'normal': tuple(e['normal']),
                 'holes': [unhex(h) for h in e['holes']],
                 'hole_groups': [[tuple(g) for g in hg] for hg in e['hole_groups']]}
    bad = run_one(fl['cls'], fl['op'], S, groups, tol, extra)
    bad = [b for b in bad if b[0] == fl['clause']]
    if not bad:
        return None
    out = dict(fl)
    out['what'] = '%s(%r) on %d vertices (%s): %s' % (fl['op'], tol, len(S), fl['cls'], bad[0][1])
    return out
