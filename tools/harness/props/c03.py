"""C03 — derived properties never stale, for every history.

Correspondence / failing-input search on the real code: an operation history (reads,
duplicate, reverse/flip, move, rotate, rotate_xy, reflect, scale, remove_*, join,
triangulated) is replayed on a real object; after every step every public read is compared
with the same read on a *fresh* object rebuilt from the defining data only.  Short histories
are enumerated exhaustively, longer ones sampled.  The Lean side (Props/C03.lean) proves the
statement for every history over the generated cache machine of Polygon2D; the generated
transfer functions are tied to the code by the kernel correspondence (slot-for-slot)."""
import itertools
import math
import random

from ladybug_geometry.geometry2d.pointvector import Point2D, Vector2D
from ladybug_geometry.geometry3d.pointvector import Point3D, Vector3D
from ladybug_geometry.geometry2d.polygon import Polygon2D
from ladybug_geometry.geometry2d.polyline import Polyline2D
from ladybug_geometry.geometry3d.polyline import Polyline3D
from ladybug_geometry.geometry2d.mesh import Mesh2D
from ladybug_geometry.geometry3d.mesh import Mesh3D
from ladybug_geometry.geometry3d.face import Face3D
from ladybug_geometry.geometry3d.polyface import Polyface3D
from ladybug_geometry.geometry3d.plane import Plane
from ladybug_geometry.geometry2d.line import LineSegment2D
from ladybug_geometry.geometry3d.line import LineSegment3D

TOL = 1e-9
ASSUMPTIONS = ['valid inputs only (simple loops of non-zero area); scale factors of either sign, non-zero',
               'numeric agreement within 1e-9 relative to the coordinate magnitude']
TRUSTED = ['C03: getters other than Polygon2D.area/is_clockwise, and the transfer methods of '
           'Polyline/Mesh/Face3D/Polyface3D, are tied by history replay against fresh '
           'objects, not by a generated model']


# ------------------------------------------------------------------ value comparison
def flat(v, out, depth=0):
    """Flatten a read result into a list of numbers / discrete tokens."""
    if depth > 8:
        out.append(('deep',))
        return
    if v is None or isinstance(v, (bool, str)):
        out.append(('d', v))
    elif isinstance(v, int):
        out.append(('d', v))
    elif isinstance(v, float):
        out.append(('n', v))
    elif isinstance(v, (Point2D, Vector2D)):
        out.append(('n', v.x))
        out.append(('n', v.y))
    elif isinstance(v, (Point3D, Vector3D)):
        out.append(('n', v.x))
        out.append(('n', v.y))
        out.append(('n', v.z))
    elif isinstance(v, (tuple, list)):
        out.append(('len', len(v)))
        for x in v:
            flat(x, out, depth + 1)
    elif isinstance(v, (LineSegment2D, LineSegment3D)):
        flat(v.p, out, depth + 1)
        flat(v.v, out, depth + 1)
    elif isinstance(v, Plane):
        flat(v.n, out, depth + 1)
        flat(v.o, out, depth + 1)
    elif hasattr(v, 'vertices'):
        flat(tuple(v.vertices), out, depth + 1)
        if hasattr(v, 'faces') and not isinstance(v, Polyface3D):
            flat(tuple(v.faces), out, depth + 1)
    else:
        out.append(('d', repr(type(v))))


def same(a, b, scale):
    fa, fb = [], []
    flat(a, fa)
    flat(b, fb)
    if len(fa) != len(fb):
        return False
    for x, y in zip(fa, fb):
        if x[0] != y[0]:
            return False
        if x[0] == 'n':
            if abs(x[1] - y[1]) > TOL * scale * max(1.0, abs(x[1]), abs(y[1])) ** 0 * \
                    max(scale, abs(x[1]), abs(y[1])):
                return False
        elif x != y:
            return False
    return True


def magnitude(obj):
    vs = obj.vertices
    m = 1.0
    for v in vs:
        m = max(m, abs(v.x), abs(v.y), abs(getattr(v, 'z', 0.0)))
    return m


# ------------------------------------------------------------------ classes under test
def star(rng, n, cx=0.0, cy=0.0, rmin=1.0, rmax=3.0):
    while True:
        # angular gaps below half a turn: the loop is star-shaped about the centre, hence simple
        angs = sorted(rng.sample(range(48), n))
        if max((b - a) % 48 for a, b in zip(angs, angs[1:] + angs[:1])) < 23:
            break
    out = []
    for a in angs:
        r = rng.uniform(rmin, rmax)
        out.append(Point2D(cx + r * math.cos(2 * math.pi * a / 48),
                           cy + r * math.sin(2 * math.pi * a / 48)))
    return out


def rand_plane(rng):
    while True:
        n = Vector3D(rng.gauss(0, 1), rng.gauss(0, 1), rng.gauss(0, 1))
        if n.magnitude > 0.1:
            break
    if rng.random() < 0.2:
        n = rng.choice([Vector3D(0, 0, 1), Vector3D(0, 0, -1), Vector3D(1, 0, 0)])
    return Plane(n, Point3D(rng.uniform(-5, 5), rng.uniform(-5, 5), rng.uniform(-5, 5)))


def t2(rng):
    """2D transforms: name -> callable(obj)."""
    mv = Vector2D(rng.uniform(-5, 5), rng.uniform(-5, 5))
    ang = rng.uniform(-4 * math.pi, 4 * math.pi)
    o = Point2D(rng.uniform(-3, 3), rng.uniform(-3, 3))
    a = rng.uniform(0, 2 * math.pi)
    n = Vector2D(math.cos(a), math.sin(a)).normalize()
    k = rng.choice([0.5, 2.0, 3.0, -1.0, -2.0, rng.uniform(0.05, 20), -rng.uniform(0.05, 20)])
    return {
        'move': lambda x: x.move(mv),
        'rotate': lambda x: x.rotate(ang, o),
        'reflect': lambda x: x.reflect(n, o),
        'scale': lambda x: x.scale(k, o),
        'scale_world': lambda x: x.scale(k),
    }


def t3(rng):
    mv = Vector3D(rng.uniform(-5, 5), rng.uniform(-5, 5), rng.uniform(-5, 5))
    ang = rng.uniform(-4 * math.pi, 4 * math.pi)
    o = Point3D(rng.uniform(-3, 3), rng.uniform(-3, 3), rng.uniform(-3, 3))
    while True:
        ax = Vector3D(rng.gauss(0, 1), rng.gauss(0, 1), rng.gauss(0, 1))
        if ax.magnitude > 0.1:
            break
    while True:
        n = Vector3D(rng.gauss(0, 1), rng.gauss(0, 1), rng.gauss(0, 1))
        if n.magnitude > 0.1:
            n = n.normalize()
            break
    k = rng.choice([0.5, 2.0, 3.0, -1.0, -2.0, rng.uniform(0.05, 20), -rng.uniform(0.05, 20)])
    return {
        'move': lambda x: x.move(mv),
        'rotate': lambda x: x.rotate(ax, ang, o),
        'rotate_xy': lambda x: x.rotate_xy(ang, o),
        'reflect': lambda x: x.reflect(n, o),
        'scale': lambda x: x.scale(k, o),
        'scale_world': lambda x: x.scale(k),
    }


class Spec(object):
    name = ''
    reads = ()
    dim = 2

    def starts(self, rng):
        raise NotImplementedError

    def fresh(self, obj):
        raise NotImplementedError

    def extra_ops(self, rng, obj):
        return {}

    def ops(self, rng, obj):
        d = dict(t2(rng) if self.dim == 2 else t3(rng))
        d['duplicate'] = lambda x: x.duplicate()
        d.update(self.extra_ops(rng, obj))
        return d


class PolygonSpec(Spec):
    name = 'Polygon2D'
    reads = ('area', 'is_clockwise', 'perimeter', 'is_convex', 'min', 'max', 'center',
             'is_self_intersecting', 'segments', 'inside_angles', 'is_valid')

    def starts(self, rng):
        out = [('vertices', Polygon2D(star(rng, rng.randint(3, 8))))]
        out.append(('vertices_cw', Polygon2D(list(reversed(star(rng, rng.randint(3, 8)))))))
        out.append(('from_rectangle', Polygon2D.from_rectangle(
            Point2D(rng.uniform(-3, 3), rng.uniform(-3, 3)), Vector2D(0, 1),
            rng.uniform(1, 4), rng.uniform(1, 4))))
        out.append(('from_regular_polygon', Polygon2D.from_regular_polygon(
            rng.randint(3, 8), rng.uniform(1, 3), Point2D(rng.uniform(-3, 3), 1.5))))
        b = Polygon2D.from_rectangle(Point2D(0, 0), Vector2D(0, 1), 10, 8)
        h = Polygon2D.from_rectangle(Point2D(2, 2), Vector2D(0, 1), 2, 3)
        out.append(('from_shape_with_hole', Polygon2D.from_shape_with_hole(
            list(b.vertices), list(h.vertices))))
        pts = star(rng, rng.randint(3, 7))
        deco = []
        for a, c in zip(pts, pts[1:] + pts[:1]):
            # 3 mm off the chord (removed with tolerance 0.01, yet convexity and
            # self-intersection are decided far away from rounding), plus a duplicate
            ux, uy = c.x - a.x, c.y - a.y
            ln = math.hypot(ux, uy)
            deco += [a, a, Point2D((a.x + c.x) / 2 - 0.003 * uy / ln,
                                   (a.y + c.y) / 2 + 0.003 * ux / ln)]
        out.append(('decorated', Polygon2D(deco)))
        return out

    def fresh(self, obj):
        return Polygon2D(tuple(obj.vertices))

    def extra_ops(self, rng, obj):
        return {'reverse': lambda x: x.reverse(),
                'remove_colinear': lambda x: x.remove_colinear_vertices(0.01),
                'remove_duplicate': lambda x: x.remove_duplicate_vertices(0.01)}


class Polyline2Spec(Spec):
    name = 'Polyline2D'
    reads = ('length', 'segments', 'min', 'max', 'center', 'is_self_intersecting', 'p1', 'p2')

    def starts(self, rng):
        pts = star(rng, rng.randint(3, 7))
        # a polyline with nearly colinear vertices and one with vertices exactly on its edges:
        # the clean-up operations change its length
        # (vertices 3 mm off the chord: removed with tolerance 0.01, not exactly colinear, so
        # the outline never overlaps itself)
        spike = [Point2D(0, 0), Point2D(2.5, 0.003), Point2D(5, 0), Point2D(5.003, 1.5),
                 Point2D(5, 3), Point2D(7, 4)]
        deco = []
        for a, b in zip(pts, pts[1:]):
            ln = math.hypot(b.x - a.x, b.y - a.y)
            deco += [a, Point2D((a.x + b.x) / 2 - 0.003 * (b.y - a.y) / ln,
                                (a.y + b.y) / 2 + 0.003 * (b.x - a.x) / ln)]
        deco.append(pts[-1])
        return [('vertices', Polyline2D(pts)),
                ('interpolated', Polyline2D(pts, interpolated=True)),
                ('from_polygon', Polyline2D.from_polygon(Polygon2D(pts))),
                ('spike', Polyline2D(spike)), ('decorated', Polyline2D(deco))]

    def fresh(self, obj):
        return Polyline2D(tuple(obj.vertices), obj.interpolated)

    def extra_ops(self, rng, obj):
        return {'reverse': lambda x: x.reverse(),
                'remove_colinear': lambda x: x.remove_colinear_vertices(0.01)}


class Polyline3Spec(Spec):
    name = 'Polyline3D'
    dim = 3
    reads = ('length', 'segments', 'min', 'max', 'center', 'p1', 'p2')

    def starts(self, rng):
        pl = rand_plane(rng)
        pts = [pl.xy_to_xyz(p) for p in star(rng, rng.randint(3, 7))]
        spike = [pl.xy_to_xyz(p) for p in (Point2D(0, 0), Point2D(2.5, 0.003), Point2D(5, 0),
                                           Point2D(5.003, 1.5), Point2D(5, 3), Point2D(7, 4))]
        deco = []
        for a, b in zip(pts, pts[1:]):
            deco += [a, Point3D((a.x + b.x) / 2, (a.y + b.y) / 2, (a.z + b.z) / 2)]
        deco.append(pts[-1])
        return [('vertices', Polyline3D(pts)),
                ('interpolated', Polyline3D(pts, interpolated=True)),
                ('spike', Polyline3D(spike)), ('decorated', Polyline3D(deco))]

    def fresh(self, obj):
        return Polyline3D(tuple(obj.vertices), obj.interpolated)

    def extra_ops(self, rng, obj):
        return {'reverse': lambda x: x.reverse(),
                'remove_colinear': lambda x: x.remove_colinear_vertices(0.01)}


def pattern(rng, n, keep_at_least=1):
    while True:
        p = [rng.random() < 0.7 for _ in range(n)]
        if sum(p) >= keep_at_least:
            return p


class Mesh2Spec(Spec):
    name = 'Mesh2D'
    reads = ('area', 'face_areas', 'face_centroids', 'centroid', 'min', 'max', 'center',
             'face_vertices', 'edges', 'naked_edges', 'internal_edges',
             'non_manifold_edges', 'vertex_connected_faces', 'face_area_centroids')

    def starts(self, rng):
        out = []
        pts = (Point2D(0, 0), Point2D(0, 2), Point2D(2, 2), Point2D(2, 0), Point2D(4, 0),
               Point2D(4.5, 2.5))
        out.append(('vertices', Mesh2D(pts, [(0, 1, 2, 3), (2, 3, 4), (2, 4, 5)])))
        out.append(('from_grid', Mesh2D.from_grid(
            Point2D(rng.uniform(-2, 2), rng.uniform(-2, 2)), rng.randint(1, 3),
            rng.randint(1, 3), rng.uniform(0.5, 2), rng.uniform(0.5, 2))))
        poly = Polygon2D.from_rectangle(Point2D(0, 0), Vector2D(0, 1), 10, 10)
        out.append(('from_polygon_grid', Mesh2D.from_polygon_grid(
            poly, rng.choice([3.0, 3.5, 4.0]), rng.choice([3.0, 2.0, 4.0]),
            rng.random() < 0.5)))
        out.append(('from_polygon_triangulated', Mesh2D.from_polygon_triangulated(
            Polygon2D(star(rng, rng.randint(4, 8))))))
        out.append(('from_face_vertices', Mesh2D.from_face_vertices(
            [(Point2D(0, 0), Point2D(0, 2), Point2D(2, 2), Point2D(2, 0)),
             (Point2D(2, 0), Point2D(2, 2), Point2D(4, 0))])))
        return out

    def fresh(self, obj):
        return Mesh2D(tuple(obj.vertices), tuple(obj.faces))

    def extra_ops(self, rng, obj):
        d = {}
        nv, nf = len(obj.vertices), len(obj.faces)
        vp = pattern(rng, nv, 3)
        fp = pattern(rng, nf, 1)
        d['remove_vertices'] = lambda x: _first(x.remove_vertices(
            _fit(vp, len(x.vertices))))
        d['remove_faces'] = lambda x: _first(x.remove_faces(_fit(fp, len(x.faces))))
        d['remove_faces_only'] = lambda x: x.remove_faces_only(_fit(fp, len(x.faces)))
        d['triangulated'] = lambda x: x.triangulated()
        d['join_meshes'] = lambda x: Mesh2D.join_meshes([x, _warm(x.move(Vector2D(50, 0)))])
        return d


class Mesh3Spec(Spec):
    name = 'Mesh3D'
    dim = 3
    reads = ('area', 'face_areas', 'face_centroids', 'face_normals', 'vertex_normals',
             'min', 'max', 'center', 'face_vertices', 'edges', 'naked_edges',
             'internal_edges', 'non_manifold_edges', 'face_area_centroids')

    def starts(self, rng):
        out = []
        pts = (Point3D(0, 0, 2), Point3D(0, 2, 2), Point3D(2, 2, 2), Point3D(2, 0, 2),
               Point3D(4, 0, 2), Point3D(4.5, 2.5, 3))
        out.append(('vertices', Mesh3D(pts, [(0, 1, 2, 3), (2, 3, 4), (2, 4, 5)])))
        m2 = Mesh2D.from_grid(Point2D(0, 0), rng.randint(1, 3), rng.randint(1, 3),
                              rng.uniform(0.5, 2), rng.uniform(0.5, 2))
        out.append(('from_mesh2d', Mesh3D.from_mesh2d(m2, rand_plane(rng))))
        f = Face3D.from_rectangle(rng.uniform(4, 10), rng.uniform(4, 10), rand_plane(rng))
        try:
            out.append(('mesh_grid', f.mesh_grid(rng.choice([1.5, 2.0, 3.0]), None,
                                                 rng.choice([None, 0.5]),
                                                 rng.random() < 0.5)))
        except AssertionError:
            pass
        pl2 = rand_plane(rng)
        f2 = Face3D([pl2.xy_to_xyz(p) for p in star(rng, 6)])
        out.append(('triangulated_mesh3d', f2.triangulated_mesh3d))
        return out

    def fresh(self, obj):
        return Mesh3D(tuple(obj.vertices), tuple(obj.faces))

    def extra_ops(self, rng, obj):
        d = {}
        nv, nf = len(obj.vertices), len(obj.faces)
        vp = pattern(rng, nv, 3)
        fp = pattern(rng, nf, 1)
        d['remove_vertices'] = lambda x: _first(x.remove_vertices(
            _fit(vp, len(x.vertices))))
        d['remove_faces'] = lambda x: _first(x.remove_faces(_fit(fp, len(x.faces))))
        d['remove_faces_only'] = lambda x: x.remove_faces_only(_fit(fp, len(x.faces)))
        d['join_meshes'] = lambda x: Mesh3D.join_meshes([x, _warm(x.move(Vector3D(50, 0, 0)))])
        return d


def _warm(m):
    """Fill the memo slots of a mesh (so that join_meshes has something to carry over)."""
    m.face_centroids
    m.face_areas
    return m


def _fit(p, n):
    p = list(p)[:n]
    while len(p) < n:
        p.append(True)
    if not any(p):
        p[0] = True
    return p


def _first(r):
    return r[0] if isinstance(r, tuple) else r


class FaceSpec(Spec):
    name = 'Face3D'
    dim = 3
    reads = ('area', 'perimeter', 'normal', 'centroid', 'is_clockwise', 'is_convex', 'min',
             'max', 'center', 'boundary_segments', 'is_self_intersecting', 'is_valid',
             'altitude', 'azimuth', 'polygon2d', 'boundary_polygon2d',
             'tri_mesh_', 'has_holes')

    def starts(self, rng):
        out = []
        pl = rand_plane(rng)
        out.append(('vertices', Face3D([pl.xy_to_xyz(p) for p in star(rng, rng.randint(3, 7))])))
        out.append(('vertices_plane', Face3D(
            [pl.xy_to_xyz(p) for p in star(rng, rng.randint(3, 7))], pl)))
        out.append(('from_rectangle', Face3D.from_rectangle(
            rng.uniform(1, 5), rng.uniform(1, 5), rand_plane(rng))))
        out.append(('from_regular_polygon', Face3D.from_regular_polygon(
            rng.randint(3, 8), rng.uniform(1, 3), rand_plane(rng))))
        seg = LineSegment3D(Point3D(rng.uniform(-2, 2), rng.uniform(-2, 2), 0),
                            Vector3D(rng.uniform(1, 3), rng.uniform(1, 3), 0))
        out.append(('from_extrusion', Face3D.from_extrusion(seg, Vector3D(0.3, 0, 3))))
        b = [pl.xy_to_xyz(p) for p in (Point2D(0, 0), Point2D(10, 0), Point2D(10, 8),
                                       Point2D(0, 8))]
        h = [pl.xy_to_xyz(p) for p in (Point2D(2, 2), Point2D(4, 2), Point2D(4, 5),
                                       Point2D(2, 5))]
        out.append(('holes', Face3D(b, None, [h])))
        pts = star(rng, rng.randint(3, 7))
        deco = []
        for a, c in zip(pts, pts[1:] + pts[:1]):
            ln = math.hypot(c.x - a.x, c.y - a.y)
            deco += [a, Point2D((a.x + c.x) / 2 - 0.003 * (c.y - a.y) / ln,
                                (a.y + c.y) / 2 + 0.003 * (c.x - a.x) / ln)]
        out.append(('decorated', Face3D([pl.xy_to_xyz(p) for p in deco])))
        return out

    def fresh(self, obj):
        return Face3D(tuple(obj.boundary), obj.plane,
                      [tuple(h) for h in obj.holes] if obj.has_holes else None)

    def extra_ops(self, rng, obj):
        return {'flip': lambda x: x.flip(),
                'remove_colinear': lambda x: x.remove_colinear_vertices(0.01),
                'remove_duplicate': lambda x: x.remove_duplicate_vertices(0.01)}


class PolyfaceSpec(Spec):
    name = 'Polyface3D'
    dim = 3
    reads = ('area', 'volume_', 'is_solid', 'min', 'max', 'center', 'faces', 'edges',
             'naked_edges', 'internal_edges', 'non_manifold_edges', 'face_normals_')

    def starts(self, rng):
        out = []
        out.append(('from_box', Polyface3D.from_box(
            rng.uniform(1, 5), rng.uniform(1, 5), rng.uniform(1, 5), rand_plane(rng))))
        pl2 = rand_plane(rng)
        f = Face3D([pl2.xy_to_xyz(p) for p in star(rng, rng.randint(3, 6))])
        out.append(('from_offset_face', Polyface3D.from_offset_face(f, rng.uniform(1, 3))))
        box = Polyface3D.from_box(2, 3, 4)
        out.append(('from_faces', Polyface3D.from_faces(list(box.faces), 0.01)))
        out.append(('open', Polyface3D.from_faces(list(box.faces)[:5], 0.01)))
        out.append(('vertices', Polyface3D(box.vertices, box.face_indices)))
        return out

    def fresh(self, obj):
        return Polyface3D(tuple(obj.vertices), tuple(obj.face_indices))

    def extra_ops(self, rng, obj):
        return {}


SPECS = [PolygonSpec(), Polyline2Spec(), Polyline3Spec(), Mesh2Spec(), Mesh3Spec(),
         FaceSpec(), PolyfaceSpec()]


EDGE_PROPS = ('edges', 'naked_edges', 'internal_edges', 'non_manifold_edges')


def _edge_key(seg, scale):
    a = tuple(seg.p)
    b = tuple(seg.p2)
    q = 1e-6 * scale
    ka = tuple(round(c / q) for c in a)
    kb = tuple(round(c / q) for c in b)
    return (ka, kb) if ka <= kb else (kb, ka)


def read(obj, prop):
    if prop == 'face_normals_':
        return tuple(f.normal for f in obj.faces)
    if prop == 'tri_mesh_':
        # a triangulation is not unique: compare what is determined by the shape
        # (with vertices exactly on an edge even the number of triangles depends on rounding)
        m = obj.triangulated_mesh3d
        return (m.area, len(m.vertices))
    if prop == 'volume_':
        # the volume of an open polyface is documented as not valid
        return obj.volume if obj.is_solid else None
    v = getattr(obj, prop)
    if prop in EDGE_PROPS:
        # edge lists are sets: the order in which a structure lists its edges is not
        # part of its value (factories pre-seed a different but equivalent order)
        sc = magnitude(obj)
        return tuple(sorted(_edge_key(s, sc) for s in v))
    return v


def safe_read(obj, prop):
    try:
        return ('ok', read(obj, prop))
    except Exception as e:       # any exception is an observation, compared like a value
        return ('err', type(e).__name__)


def check_start(spec, obj):
    """Slots pre-seeded by a factory must already agree with a fresh object."""
    try:
        fr0 = spec.fresh(obj)
    except AssertionError:
        return None
    scale0 = magnitude(obj)
    for prop in spec.reads:
        a = safe_read(obj, prop)
        b = safe_read(fr0, prop)
        if a[0] != b[0] or (a[0] == 'err' and a[1] != b[1]) or \
                (a[0] == 'ok' and not same(a[1], b[1], scale0)):
            return {'history': [], 'prop': prop, 'observed': _short(a), 'expected': _short(b)}
    return None


def run_history(spec, start, hist, rng_seed):
    """Replay `hist` (list of ('read', prop) / ('op', name)) from the start object.
    Returns None or a failure dict (first stale read)."""
    rng = random.Random(rng_seed)
    obj = start
    ops = spec.ops(rng, obj)
    done = []
    for step in hist:
        done.append(step)
        if step[0] == 'read':
            safe_read(obj, step[1])
            continue
        try:
            obj = ops[step[1]](obj)
        except AssertionError:
            return None          # degenerate result (e.g. everything removed): not a valid input
        except Exception as e:
            return {'history': list(done), 'prop': '<op raises>',
                    'observed': type(e).__name__ + ': ' + str(e)[:200], 'expected': 'no error'}
        # after a transform: every read must agree with a fresh object
        try:
            fr = spec.fresh(obj)
        except AssertionError:
            return None
        scale = magnitude(obj)
        for prop in spec.reads:
            a = safe_read(obj, prop)
            b = safe_read(fr, prop)
            if a[0] != b[0] or (a[0] == 'err' and a[1] != b[1]) or \
                    (a[0] == 'ok' and not same(a[1], b[1], scale)):
                return {'history': list(done), 'prop': prop,
                        'observed': _short(a), 'expected': _short(b)}
    return None


def _short(v):
    out = []
    flat(v[1] if v[0] == 'ok' else v[1], out)
    s = repr([x[1] if len(x) > 1 else x for x in out[:12]])
    return v[0] + ':' + s[:300]


def hist_sig(spec_name, start_name, hist, prop):
    return '%s|%s|%s|%s' % (spec_name, start_name,
                            '>'.join(('r:' + s[1]) if s[0] == 'read' else s[1] for s in hist),
                            prop)


def shrink(spec, mk_start, hist, seed, prop):
    """Greedy removal of steps while the same property stays stale."""
    cur = list(hist)
    changed = True
    while changed:
        changed = False
        for i in range(len(cur)):
            cand = cur[:i] + cur[i + 1:]
            f = run_history(spec, mk_start(), cand, seed)
            if f is not None and f['prop'] == prop:
                cur = f['history']
                changed = True
                break
    return cur


def run(ctx):
    seed = ctx.seed
    thorough = ctx.tier == 'thorough' or bool(ctx.broken)
    evaluations = 0
    nontrivial = set()
    failures = []
    seen_sigs = set()
    samples = []
    per_class = {}
    for spec in SPECS:
        rng0 = random.Random('%s/c03/%s' % (seed, spec.name))
        starts = spec.starts(random.Random('%s/c03/start/%s' % (seed, spec.name)))
        n_starts = len(starts)
        dummy_ops = sorted(spec.ops(random.Random(0), starts[0][1]).keys())
        alphabet = [('read', p) for p in spec.reads] + [('op', o) for o in dummy_ops]
        hists = []
        # exhaustive: every (read, op) and (op, op) pair, and (read, op, op) in thorough
        for a in alphabet:
            for b in alphabet:
                if b[0] == 'op':
                    hists.append([a, b])
        if thorough:
            opsonly = [x for x in alphabet if x[0] == 'op']
            for a in alphabet:
                for b in opsonly:
                    for c in opsonly:
                        hists.append([a, b, c])
        n_rand = 150 if not thorough else 2500
        for _ in range(n_rand):
            ln = rng0.randint(3, 8)
            hists.append([rng0.choice(alphabet) for _ in range(ln)])
        cnt = 0
        # factory-built start objects against fresh ones, several draws per factory
        for rep in range(8 if not thorough else 60):
            sts = spec.starts(random.Random('%s/c03/start/%s/%d' % (seed, spec.name, rep)))
            for si0, (sname, sobj) in enumerate(sts):
                evaluations += 1
                cnt += 1
                f = check_start(spec, sobj)
                if f is None:
                    continue
                sig = hist_sig(spec.name, sname, [], f['prop'])
                if sig in seen_sigs:
                    continue
                seen_sigs.add(sig)
                failures.append({'signature': sig, 'class': spec.name, 'start': sname,
                                 'history': [], 'prop': f['prop'], 'observed': f['observed'],
                                 'expected': f['expected'], 'rng_seed': '%s/%d' % (seed, rep),
                                 'start_index': si0, 'start_rep': rep,
                                 'what': '%s built by %s: %s reads %s but a fresh object reads %s'
                                 % (spec.name, sname, f['prop'], f['observed'], f['expected'])})
        for hi, hist in enumerate(hists):
            si = hi % n_starts

            def mk_start(si=si):
                return spec.starts(random.Random('%s/c03/start/%s' % (seed, spec.name)))[si][1]
            hseed = '%s/%s/%d' % (seed, spec.name, hi)
            evaluations += 1
            cnt += 1
            if any(s[0] == 'read' for s in hist) and any(s[0] == 'op' for s in hist):
                nontrivial.add((spec.name, si, tuple(hist)))
            f = run_history(spec, mk_start(), hist, hseed)
            if f is None:
                continue
            small = shrink(spec, mk_start, f['history'], hseed, f['prop'])
            sig = hist_sig(spec.name, '*', small, f['prop'])
            if sig in seen_sigs:
                continue
            seen_sigs.add(sig)
            failures.append({'signature': sig, 'class': spec.name,
                             'start': starts[si][0], 'history': small, 'prop': f['prop'],
                             'observed': f['observed'], 'expected': f['expected'],
                             'rng_seed': hseed, 'start_index': si,
                             'what': '%s: after %s, %s reads %s but a fresh object reads %s'
                             % (spec.name, small, f['prop'], f['observed'], f['expected'])})
        per_class[spec.name] = cnt
        samples.append({'class': spec.name, 'history': hists[len(hists) // 2]})
    return {'evaluations': evaluations, 'distinct_nontrivial': len(nontrivial),
            'rule': 'histories over {read p, duplicate, reverse/flip, move, rotate, rotate_xy, '
                    'reflect, scale, remove_*, join_meshes, triangulated}: all pairs '
                    '(x, op) [+ all triples (x, op, op) in thorough] and random ones of length '
                    '3..8, each from rotating factory-built start objects; non-trivial = at '
                    'least one read and one transform',
            'samples': samples, 'failures': failures,
            'extra': {'histories_per_class': per_class}}


def replay(ctx, fl):
    spec = [sp for sp in SPECS if sp.name == fl['class']][0]
    seed = fl['rng_seed'].split('/')[0]
    if not fl['history'] and 'start_rep' in fl:
        sobj = spec.starts(random.Random('%s/c03/start/%s/%d' % (
            seed, spec.name, fl['start_rep'])))[fl['start_index']][1]
        f = check_start(spec, sobj)
        if f is None:
            return None
        out = dict(fl)
        out.update({'observed': f['observed'], 'expected': f['expected'], 'prop': f['prop']})
        return out
    start = spec.starts(random.Random('%s/c03/start/%s' % (seed, spec.name)))[fl['start_index']][1]
    hist = [tuple(x) for x in fl['history']]
    f = run_history(spec, start, hist, fl['rng_seed'])
    if f is None:
        return None
    out = dict(fl)
    out.update({'observed': f['observed'], 'expected': f['expected'], 'prop': f['prop']})
    return out
