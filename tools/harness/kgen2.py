"""Input generators for second-generation kernels (tools/py2lean/kernels2.py) whose
interesting outcomes are rare under independent random arguments (point on an edge, point
inside, rectangles, convex polygons ...).  Used by kcorr.run_kernels as defaults; a property
module's KERNEL_GENERATORS entry with the same kernel name takes precedence."""
import math

import lbg
from lbg import Point2D, Vector2D


def _polygon(g, stream):
    """Vertex list of a polygon-like shape: star polygons, arbitrary lists, rectangles."""
    r = g.rng
    kind = r.choice(['star', 'star', 'any', 'rect', 'tri'])
    if kind == 'star':
        return list(g.value('Poly2C', 'Polygon2D', stream).vertices)
    if kind == 'any':
        return g.value(('list', 'V2'), 'Point2D', stream, 'len>=3')
    if kind == 'tri':
        while True:
            pts = [Point2D(g.scalar(stream), g.scalar(stream)) for _ in range(3)]
            if (pts[1] - pts[0]).determinant(pts[2] - pts[0]) != 0:
                return pts
    x, y = g.scalar(stream), g.scalar(stream)
    w, h = abs(g.scalar(stream)) + 0.5, abs(g.scalar(stream)) + 0.5
    pts = [Point2D(x, y), Point2D(x + w, y), Point2D(x + w, y + h), Point2D(x, y + h)]
    if stream != 'lattice' and r.random() < 0.5:
        a = r.uniform(0, math.pi)
        pts = [p.rotate(a, pts[0]) for p in pts]
    if r.random() < 0.5:
        pts.reverse()
    k = r.randrange(4)
    return pts[k:] + pts[:k]


def _point_for(g, stream, vs):
    r = g.rng
    kind = r.choice(['any', 'any', 'mean', 'vertex', 'edge', 'near'])
    if kind == 'any':
        return Point2D(g.scalar(stream), g.scalar(stream))
    if kind == 'mean':
        n = float(len(vs))
        return Point2D(sum(v.x for v in vs) / n, sum(v.y for v in vs) / n)
    if kind == 'vertex':
        v = r.choice(vs)
        return Point2D(v.x, v.y)
    i = r.randrange(len(vs))
    a, b = vs[i - 1], vs[i]
    t = r.choice([0.25, 0.5, 0.75])
    q = Point2D(a.x + (b.x - a.x) * t, a.y + (b.y - a.y) * t)
    if kind == 'near':
        q = Point2D(q.x + r.choice([-0.25, 0.25, 0.001]), q.y + r.choice([-0.25, 0.0, 0.25]))
    return q


def _tol(g, stream='lattice'):
    # on random doubles a point constructed "on an edge" is only on it up to rounding, so a
    # zero tolerance would compare rounding noise with exact arithmetic
    if stream == 'lattice':
        return g.rng.choice([0.0, 0.25, 1.0, 1e-3, 0.01])
    return g.rng.choice([0.25, 1.0, 1e-3, 0.01])


def _poly_point(extra):
    def gen(g, stream):
        vs = _polygon(g, stream)
        return [vs, _point_for(g, stream, vs)] + [f(g, stream) for f in extra]
    return gen


def _tv(g, stream):
    r = g.rng
    if r.random() < 0.5:
        return Vector2D(1, 0.00001)
    while True:
        v = Vector2D(g.scalar(stream), g.scalar(stream))
        if v.magnitude_squared != 0:
            return v


def _poly_only(extra=()):
    def gen(g, stream):
        return [_polygon(g, stream)] + [f(g, stream) for f in extra]
    return gen


def _two_polys(extra=()):
    def gen(g, stream):
        a = _polygon(g, stream)
        r = g.rng
        area2 = sum(a[i - 1].x * a[i].y - a[i].x * a[i - 1].y for i in range(len(a)))
        if r.random() < 0.4 and abs(area2) > 1e-6:
            # a scaled / shifted copy: inside, outside or overlapping (not of a degenerate
            # loop: the rounded copy of a zero-area loop lies on its line only up to rounding)
            k = r.choice([0.25, 0.5, 2.0])
            n = float(len(a))
            cx, cy = sum(v.x for v in a) / n, sum(v.y for v in a) / n
            dx = r.choice([0.0, 0.0, 0.5, 8.0])
            b = [Point2D(cx + (v.x - cx) * k + dx, cy + (v.y - cy) * k) for v in a]
        else:
            b = _polygon(g, stream)
        return [a, b] + [f(g, stream) for f in extra]
    return gen


def _face(g, stream):
    """(boundary vertices, plane) of a planar face: a 2D polygon lifted into a plane."""
    pl = g.value('PlaneS', 'Plane', stream)
    vs2 = _polygon(g, stream)
    if g.rng.random() < 0.25:
        # horizontal faces
        from lbg import Plane, Point3D, Vector3D
        pl = Plane(Vector3D(0, 0, g.rng.choice([1, -1])), Point3D(0, 0, g.scalar(stream)))
    return [pl.xy_to_xyz(v) for v in vs2], pl


def _face_args(extra=(), n=1):
    def gen(g, stream):
        out = []
        first = _face(g, stream)
        out.extend(first)
        for _ in range(n - 1):
            if g.rng.random() < 0.5:
                # a second face in the same plane
                vs2 = _polygon(g, stream)
                out.extend([[first[1].xy_to_xyz(v) for v in vs2], first[1]])
            else:
                out.extend(_face(g, stream))
        return out + [f(g, stream) for f in extra]
    return gen


def _equiv_polys(g, stream):
    """Two polygons that are often the same up to a rotation of the vertex list / noise."""
    a = _polygon(g, stream)
    r = g.rng
    kind = r.choice(['rot', 'rot', 'noise', 'other', 'len'])
    if kind == 'other':
        b = _polygon(g, stream)
    else:
        k = r.randrange(len(a))
        b = [Point2D(v.x, v.y) for v in a[k:] + a[:k]]
        if kind == 'noise':
            i = r.randrange(len(b))
            b[i] = Point2D(b[i].x + r.choice([0.25, 0.001, 1.0]), b[i].y)
        if kind == 'len' and len(b) > 3:
            b = b[:-1]
    return [a, b, g.rng.choice([0.0, 0.25, 0.01, 1.0])]


def _redundant_polygon(g, stream):
    """A polygon with duplicated and colinear vertices inserted."""
    r = g.rng
    vs = _polygon(g, stream)
    out = []
    for i, v in enumerate(vs):
        out.append(v)
        c = r.random()
        if c < 0.2:
            out.append(Point2D(v.x, v.y))
        elif c < 0.45:
            w = vs[(i + 1) % len(vs)]
            out.append(Point2D((v.x + w.x) / 2, (v.y + w.y) / 2))
    return out


def _redundant(extra):
    def gen(g, stream):
        return [_redundant_polygon(g, stream)] + [f(g, stream) for f in extra]
    return gen


GENERATORS = {
    'polygon2d_is_point_inside': _poly_point([_tv]),
    'polygon2d_is_point_inside_default': _poly_point([]),
    'polygon2d_is_point_inside_bound_rect': _poly_point([_tv]),
    'polygon2d_is_point_on_edge': _poly_point([lambda g, s: _tol(g, s)]),
    'polygon2d_point_relationship': _poly_point([lambda g, s: _tol(g, s)]),
    'polygon2d_distance_to_point': _poly_point([]),
    'polygon2d_distance_from_edge_to_point': _poly_point([]),
    'polygon2d_is_convex': _poly_only(),
    # (a tolerance of 0 or 1e-9 rad on a rectangle with rounded corners is decided by rounding:
    # exact comparison only on the lattice stream)
    'polygon2d_is_rectangle': _poly_only([lambda g, s: g.rng.choice(
        [0.0, 1e-9, 0.01, 0.3] if s == 'lattice' else [1e-4, 0.01, 0.3])]),
    'polygon2d_inside_angles': _poly_only(),
    'polygon2d_outside_angles': _poly_only(),
    'polygon2d_perimeter': _poly_only(),
    'polygon2d_segments': _poly_only(),
    'polygon2d_is_polygon_inside': _two_polys(),
    'polygon2d_is_self_intersecting': _poly_only(),
    'polygon2d_is_valid': _poly_only(),
    'polygon2d_self_intersection_points': _poly_only(),
    'polygon2d_rectangular_approximation': _poly_only(),
    'polygon2d_inward_pointing_vec': _poly_only(),
    'polygon2d_remove_duplicate_vertices': _redundant([lambda g, s: _tol(g, s)]),
    'polygon2d_remove_colinear_vertices': _redundant([lambda g, s: _tol(g, s)]),
    'polyline2_remove_colinear_vertices': lambda g, s: [
        _redundant_polygon(g, s), g.rng.random() < 0.5, _tol(g, s)],
    'polygon2d_does_polygon_touch': _two_polys([lambda g, s: _tol(g, s)]),
    'polygon2d_is_equivalent': _equiv_polys,
    'polygon2d_is_polygon_outside': _two_polys(),
    'polygon2d_do_polygons_intersect': _two_polys(),
    'polygon2d_overlapping_bounding_rect': _two_polys(
        [lambda g, s: g.rng.choice([0.0, 0.25, 1.0, 4.0, 16.0])]),
}
for _nm in ('normal', 'azimuth', 'altitude', 'tilt', 'min', 'max', 'center', 'area', 'perimeter',
            'is_clockwise', 'boundary_segments', 'has_holes', 'upper_left_corner',
            'lower_left_corner', 'upper_right_corner', 'lower_right_corner', 'polygon2d',
            'boundary_polygon2d', 'upper_oriented_plane', 'calculate_min_max',
            'upper_left_counter_clockwise_vertices', 'lower_left_counter_clockwise_vertices',
            'lower_right_counter_clockwise_vertices', 'upper_right_counter_clockwise_vertices',
            'upper_left_counter_clockwise_boundary', 'lower_left_counter_clockwise_boundary',
            'lower_right_counter_clockwise_boundary', 'upper_right_counter_clockwise_boundary'):
    GENERATORS['face3d_' + _nm] = _face_args()
for _nm in ('is_convex', 'is_self_intersecting', 'is_valid', 'inward_pointing_vec'):
    GENERATORS['face3d_' + _nm] = _face_args()
for _nm in ('is_horizontal', 'check_planar', 'check_planar_raise', 'non_planar_vertices',
            'remove_duplicate_vertices', 'remove_colinear_vertices'):
    GENERATORS['face3d_' + _nm] = _face_args([lambda g, s: _tol(g, s)])
GENERATORS['face3d_is_coplanar'] = _face_args([lambda g, s: _tol(g, s)], n=2)
