"""Correspondence of the hand models in Model/Outward.lean (Face3D._point_on_face,
Face3D.intersect_line_ray, Polyface3D.get_outward_faces / faces / is_point_inside / volume)
with the real ladybug_geometry code.

Inputs are solids with dyadic coordinates (boxes, wedges, straight and oblique prisms over
concave x-monotone polygons, pyramids, frusta, the recorded witnesses of the open
get_outward_faces finding), placed by integer-matrix similarities (Pythagorean rotations times
their scale, so coordinates stay dyadic), presented with shuffled faces, random flips and
random start vertices.  The model computes in exact rationals on the doubles the real code is
given; math.sqrt/acos are doubles on both sides.  Discrete results (flip flags, inside /
outside, is_solid) are compared exactly, except where the REAL evaluation is within 1e-9 of a
decision threshold (ray through an edge or vertex, ray starting on / lying in a face plane,
2D parity ray through a polygon vertex): these are counted as float ties.  Points, normals and
volumes are compared within 1e-9 relative to the size of the solid."""
import math
import os
import random
import sys
import time
from fractions import Fraction

if __name__ == '__main__':
    sys.path.insert(0, os.path.dirname(os.path.dirname(os.path.abspath(__file__))))
import lbg  # noqa: E402

from ladybug_geometry.geometry3d.pointvector import Point3D, Vector3D  # noqa: E402
from ladybug_geometry.geometry3d.ray import Ray3D  # noqa: E402
from ladybug_geometry.geometry3d.face import Face3D  # noqa: E402
from ladybug_geometry.geometry3d.polyface import Polyface3D  # noqa: E402

PROPS = ['C07', 'C08', 'C01']
MODELS = ['LbgVerif/Model/Outward.lean', 'LbgVerif/Model/Dispatch_Outward.lean']
REAL = ['ladybug_geometry/geometry3d/polyface.py:Polyface3D.get_outward_faces',
        'ladybug_geometry/geometry3d/polyface.py:Polyface3D.faces (faces with one loop)',
        'ladybug_geometry/geometry3d/polyface.py:Polyface3D.is_point_inside',
        'ladybug_geometry/geometry3d/polyface.py:Polyface3D.volume',
        'ladybug_geometry/geometry3d/face.py:Face3D.__init__ (no holes), _plane_from_vertices, '
        'flip, _point_on_face, _inward_pointing_vec, remove_colinear_vertices, '
        'intersect_line_ray (Ray3D), area, center',
        'ladybug_geometry/intersection3d.py:intersect_line3d_plane (Ray3D)']
TRUSTED = [
    'outward: the model computes in exact rationals (square roots / acos as IEEE doubles) on the '
    'doubles the real code holds; points, normals and volumes are compared within 1e-9 relative '
    'to the size of the solid, so rounding of the real arithmetic below that band is not seen',
    'outward: discrete decisions (flip flag of a face, point inside a solid, ray hits a face) '
    'that differ are counted as float ties, not disagreements, when the real evaluation is within '
    '1e-9 (relative) of a threshold: test ray through an edge or vertex of the other face, ray '
    'starting on or lying in its plane, 2D parity ray through a polygon vertex.  The open '
    'get_outward_faces finding lives exactly on such ties, where the real result depends on '
    'rounding; the recorded witnesses (rhombus pyramid / oblique rhombus prism with one side '
    'face given inward) are compared without the tie filter and agree exactly',
    'outward: faces with holes are not modelled (Polyface3D faces with one loop only); '
    'Polyface3D.from_faces vertex welding is not modelled (faces are passed to '
    'get_outward_faces / Polyface3D(vertices, face_indices) directly)',
]

W = lbg.wnum
EPS = 1e-9
TEN_MICRO = 0.00001


# ------------------------------------------------------------------ wire helpers
def wv(v):
    return [W(v[0]), W(v[1]), W(v[2])]


def fl(s):
    """wire number -> float (exact: every wire number here is a double)."""
    return float(Fraction(s))


def fv(j):
    return (fl(j[0]), fl(j[1]), fl(j[2]))


def P(v):
    return Point3D(v[0], v[1], v[2])


# ------------------------------------------------------------------ solids
def rect(w, d):
    return [(0.0, 0.0), (w, 0.0), (w, d), (0.0, d)]


FIXED_POLYS = [
    [(0, 0), (4, 0), (4, 2), (2, 2), (2, 4), (0, 4)],                    # L
    [(0, 0), (6, 0), (6, 4), (4, 4), (4, 2), (2, 2), (2, 4), (0, 4)],    # U
    [(0, 0), (2, 0), (2, 2), (4, 2), (4, 4), (-2, 4), (-2, 2), (0, 2)],  # T
    [(0, 0), (4, -3), (8, 0), (4, 3)],                                   # rhombus
    [(0, 0), (3, 0), (3, 1), (3, 2), (0, 2)],                            # colinear vertex
    [(0, 0), (2, 0), (4, 0), (4, 3), (0, 3)],                            # colinear next to v0
    [(0, 0), (4, 0), (5, 2), (4, 4), (0, 4), (-1, 2)],                   # hexagon
    [(0, 0), (4, 1), (8, 0), (4, 6)],                                    # chevron (concave)
]
CONVEX_POLYS = [
    [(0, 0), (4, 0), (4, 4), (0, 4)], [(0, 0), (4, -3), (8, 0), (4, 3)], [(0, 0), (6, 0), (2, 5)],
    [(0, 0), (4, 0), (5, 2), (4, 4), (0, 4), (-1, 2)], [(0, 0), (5, 1), (6, 4), (1, 3)],
    [(0, 0), (2, -1), (4, 0), (5, 2), (4, 4), (2, 5), (0, 4), (-1, 2)],
]


def monotone_polygon(rng):
    """Random simple x-monotone lattice polygon (counter-clockwise), generally concave and
    often with exactly colinear vertices."""
    k = rng.randint(2, 5)
    xs = sorted(rng.sample(range(0, 12), k))
    lower = [(float(x), float(rng.randint(-5, -1))) for x in xs]
    upper = [(float(x), float(rng.randint(1, 5))) for x in xs]
    return lower + upper[::-1]


def prism(poly, shift):
    n = len(poly)
    verts = [(x, y, 0.0) for x, y in poly] + \
        [(x + shift[0], y + shift[1], shift[2]) for x, y in poly]
    loops = [list(range(n - 1, -1, -1))]
    for i in range(n):
        j = (i + 1) % n
        loops.append([i, j, n + j, n + i])
    loops.append(list(range(n, 2 * n)))
    return verts, loops


def pyramid(poly, apex):
    n = len(poly)
    verts = [(x, y, 0.0) for x, y in poly] + [apex]
    loops = [list(range(n - 1, -1, -1))]
    for i in range(n):
        loops.append([i, (i + 1) % n, n])
    return verts, loops


def frustum(poly, c, s, h):
    n = len(poly)
    verts = [(x, y, 0.0) for x, y in poly] + \
        [(c[0] + s * (x - c[0]), c[1] + s * (y - c[1]), h) for x, y in poly]
    loops = [list(range(n - 1, -1, -1))]
    for i in range(n):
        j = (i + 1) % n
        loops.append([i, j, n + j, n + i])
    loops.append(list(range(n, 2 * n)))
    return verts, loops


# integer matrices R with R R^T = f^2 I and det > 0, as (rows, f, dyadic divisor)
ROTS = [
    (((1, 0, 0), (0, 1, 0), (0, 0, 1)), 1, 1),
    (((0, -1, 0), (1, 0, 0), (0, 0, 1)), 1, 1),
    (((0, 0, 1), (1, 0, 0), (0, 1, 0)), 1, 1),
    (((3, -4, 0), (4, 3, 0), (0, 0, 5)), 5, 4),
    (((5, 0, 0), (0, 3, -4), (0, 4, 3)), 5, 4),
    (((4, 0, 3), (0, 5, 0), (-3, 0, 4)), 5, 8),
    (((1, 2, 2), (2, 1, -2), (-2, 2, -1)), 3, 2),
    (((2, 3, 6), (3, -6, 2), (6, 2, -3)), 7, 8),
    (((5, -12, 0), (12, 5, 0), (0, 0, 13)), 13, 16),
]


def det3(m):
    return (m[0][0] * (m[1][1] * m[2][2] - m[1][2] * m[2][1]) -
            m[0][1] * (m[1][0] * m[2][2] - m[1][2] * m[2][0]) +
            m[0][2] * (m[1][0] * m[2][1] - m[1][1] * m[2][0]))


def place(rng, verts, loops, level):
    """Similarity with an integer matrix (composition of up to `level` of ROTS), divided by a
    power of two, plus a dyadic translation.  Keeps every coordinate a short dyadic number."""
    m = ((1, 0, 0), (0, 1, 0), (0, 0, 1))
    div = 1
    for _ in range(rng.randint(0, level)):
        r, f, dv = rng.choice(ROTS)
        m = tuple(tuple(sum(r[i][k] * m[k][j] for k in range(3)) for j in range(3))
                  for i in range(3))
        div *= dv
    t = tuple(rng.randint(-64, 64) / 4.0 for _ in range(3)) if rng.random() < 0.7 \
        else (0.0, 0.0, 0.0)
    out = []
    for v in verts:
        out.append(tuple((m[i][0] * v[0] + m[i][1] * v[1] + m[i][2] * v[2]) / float(div) + t[i]
                         for i in range(3)))
    if det3(m) < 0:
        loops = [l[::-1] for l in loops]
    return out, loops


def present(rng, loops, flip_p=0.5):
    """Shuffle faces, flip a random subset, rotate start vertices."""
    loops = [list(l) for l in loops]
    rng.shuffle(loops)
    out = []
    for l in loops:
        k = rng.randrange(len(l))
        l = l[k:] + l[:k]
        if rng.random() < flip_p:
            l = l[::-1]
        out.append(l)
    return out


def random_solid(rng):
    kind = rng.choice(['box', 'wedge', 'prism', 'prism', 'oblique', 'oblique', 'pyramid',
                       'pyramid', 'frustum', 'fixedprism', 'tie_pyramid', 'tie_frustum'])
    q = lambda lo, hi: rng.randint(lo * 4, hi * 4) / 4.0   # noqa: E731
    if kind == 'box':
        v, l = prism(rect(q(1, 8), q(1, 8)), (0.0, 0.0, q(1, 8)))
    elif kind == 'wedge':
        v, l = prism([(0.0, 0.0), (q(1, 6), 0.0), (q(0, 4), q(1, 6))],
                     (q(-2, 2), q(-2, 2), q(1, 6)))
    elif kind == 'prism':
        v, l = prism(monotone_polygon(rng), (0.0, 0.0, q(1, 6)))
    elif kind == 'oblique':
        v, l = prism(monotone_polygon(rng), (q(-3, 3), q(-3, 3), q(1, 6)))
    elif kind == 'fixedprism':
        poly = [(float(x), float(y)) for x, y in rng.choice(FIXED_POLYS)]
        v, l = prism(poly, (rng.choice([0.0, 0.0, 1.0, -2.0]), rng.choice([0.0, 0.0, 0.5]),
                            q(1, 5)))
    elif kind == 'pyramid':
        poly = [(float(x), float(y)) for x, y in rng.choice(CONVEX_POLYS)]
        cx = sum(p[0] for p in poly) / len(poly)
        cy = sum(p[1] for p in poly) / len(poly)
        v, l = pyramid(poly, (round(cx * 4) / 4.0 + q(-1, 1), round(cy * 4) / 4.0 + q(-1, 1),
                              q(1, 8)))
    elif kind == 'tie_pyramid':    # apex over the corner bisectors: the finding's family
        poly = [(float(x), float(y)) for x, y in rng.choice(
            [CONVEX_POLYS[0], CONVEX_POLYS[1], [(0, 0), (2, 0), (2, 2), (0, 2)]])]
        cx = sum(p[0] for p in poly) / len(poly)
        cy = sum(p[1] for p in poly) / len(poly)
        v, l = pyramid(poly, (cx, cy, float(rng.choice([1, 3, 7, 5]))))
    elif kind == 'tie_frustum':
        poly = [(float(x), float(y)) for x, y in rng.choice(CONVEX_POLYS[:2])]
        cx = sum(p[0] for p in poly) / len(poly)
        cy = sum(p[1] for p in poly) / len(poly)
        v, l = frustum(poly, (cx, cy), rng.choice([0.5, 0.25, 0.75]), q(1, 6))
    else:
        poly = [(float(x), float(y)) for x, y in rng.choice(CONVEX_POLYS)]
        cx = sum(p[0] for p in poly) / len(poly)
        cy = sum(p[1] for p in poly) / len(poly)
        v, l = frustum(poly, (round(cx * 4) / 4.0 + q(-1, 1), round(cy * 4) / 4.0 + q(-1, 1)),
                       rng.choice([0.5, 0.25, 0.75, 1.5]), q(1, 6))
    v, l = place(rng, v, l, rng.choice([0, 1, 1, 2]))
    return kind, v, l


# the recorded witnesses (Props/C07b.lean): rhombus pyramid / oblique rhombus prism, base given
# looking into the solid, the side face through whose edge the test ray runs given inward
W_VERTS = [(0.0, 0.0, 1.0), (4.0, -3.0, 1.0), (8.0, 0.0, 1.0), (4.0, 3.0, 1.0), (4.0, 0.0, 2.0)]
W_IDX = [[1, 2, 3, 0], [0, 1, 4], [1, 2, 4], [2, 3, 4], [4, 0, 3]]            # = C07b.wVerts / wIdx
P_VERTS = W_VERTS + [(8.0, -3.0, 2.0), (12.0, 0.0, 2.0), (8.0, 3.0, 2.0)]
P_IDX = [[1, 2, 3, 0], [0, 1, 5, 4], [1, 2, 6, 5], [2, 3, 7, 6], [7, 4, 0, 3], [4, 5, 6, 7]]
WITNESSES = [(W_VERTS, W_IDX), (P_VERTS, P_IDX)]                                # = C07b.pVerts / pIdx
WITNESS_PYRAMID = [[W_VERTS[i] for i in l] for l in W_IDX]
WITNESS_PRISM = [[P_VERTS[i] for i in l] for l in P_IDX]
FINDING_PYRAMID = ([(0.0, 0.0, 5.0), (2.0, 0.0, 5.0), (2.0, 2.0, 5.0), (0.0, 2.0, 5.0),
                    (1.0, 1.0, 8.0)],
                   [[0, 1, 2, 3], [0, 1, 4], [1, 2, 4], [2, 3, 4], [3, 0, 4]])
DEGENERATE_FACES = [
    [(0.0, 0.0, 0.0), (1.0, 0.0, 0.0), (2.0, 0.0, 0.0)],                       # zero area
    [(0.0, 0.0, 0.0), (1.0, 0.0, 0.0), (1.0, 0.0, 0.0), (0.0, 0.0, 0.0)],      # zero area
    [(0.0, 0.0, 0.0), (2.0, 0.0, 0.0), (2.0, 2.0, 0.0), (1.0, 1.0, 0.0)],      # colinear corner
    [(0.0, 0.0, 0.0), (2.0, 0.0, 0.0), (2.0, 0.005, 0.0), (0.0, 0.005, 0.0)],  # sliver
    [(1.0, 1.0, 1.0), (3.0, 1.0, 1.0), (3.0, 1.0, 1.0), (3.0, 4.0, 1.0), (1.0, 4.0, 1.0)],
    [(0.0, 0.0, 0.0), (4.0, 0.0, 0.0), (4.0, 4.0, 0.0), (0.0, 4.0, 0.0), (0.0, 2.0, 0.0)],
]


# ------------------------------------------------------------------ tie analysis (floats)
def _seg_dist(q, a, b):
    ex, ey = b[0] - a[0], b[1] - a[1]
    wx, wy = q[0] - a[0], q[1] - a[1]
    ee = ex * ex + ey * ey
    t = 0.0 if ee == 0 else max(0.0, min(1.0, (wx * ex + wy * ey) / ee))
    return math.hypot(wx - t * ex, wy - t * ey)


def poly_tie(vs, q):
    """Is the parity test of the 2D point q against polygon vs within EPS of a threshold?"""
    scale = max([1e-300] + [abs(c) for v in vs for c in v] + [abs(q[0]), abs(q[1])])
    n = len(vs)
    for i in range(n):
        if _seg_dist(q, vs[i - 1], vs[i]) <= EPS * scale:
            return True
    tn = math.hypot(1.0, TEN_MICRO)
    for a in vs:
        wx, wy = a[0] - q[0], a[1] - q[1]
        along = (wx * 1.0 + wy * TEN_MICRO) / tn
        perp = abs(wx * TEN_MICRO - wy * 1.0) / tn
        if along > -EPS * scale and perp <= EPS * scale:
            return True
    return False


def hit_tie(face, p, v):
    """Is `face.intersect_line_ray(Ray3D(p, v))` within EPS of a decision threshold?"""
    pl = face.plane
    vm = v.magnitude
    scale = max([1.0] + [abs(c) for q in face.vertices for c in (q.x, q.y, q.z)] +
                [abs(p.x), abs(p.y), abs(p.z)])
    d = pl.n.dot(v)
    dist = pl.k - pl.n.dot(p)
    if abs(d) <= EPS * vm:
        return abs(dist) <= EPS * scale
    u = dist / d
    if abs(u) * vm <= EPS * scale:
        return True
    if u < 0:
        return False
    q = Point3D(p.x + u * v.x, p.y + u * v.y, p.z + u * v.z)
    q2 = pl.xyz_to_xy(q)
    return poly_tie([(a.x, a.y) for a in face.polygon2d.vertices], (q2.x, q2.y))


def pof_tie(face, tol):
    """Is `face._point_on_face(tol)` within EPS of its inside/outside decision?"""
    try:
        f2 = face.remove_colinear_vertices(tol)
        mv = Face3D._inward_pointing_vec(f2) * (tol + TEN_MICRO)
    except (AssertionError, ZeroDivisionError):
        return False
    vs = [(a.x, a.y) for a in f2.polygon2d.vertices]
    q = f2.plane.xyz_to_xy(f2.boundary[0] + mv)
    return poly_tie(vs, (q.x, q.y))


def flag_tie(faces, i, tol):
    f = faces[i]
    if pof_tie(f, tol):
        return True
    p = f._point_on_face(tol)
    return any(hit_tie(g, p, f.normal) for j, g in enumerate(faces) if j != i)


# ------------------------------------------------------------------ real side per op
def mk_faces(wfaces):
    return [Face3D([P(fv(v)) for v in f]) for f in wfaces]


def close(a, b, scale):
    return abs(a - b) <= EPS * max(scale, 1e-300)


def vclose(a, b, scale):
    return all(close(x, y, scale) for x, y in zip(a, b))


def size_of(points):
    return max([1.0] + [abs(c) for p in points for c in p])


def check(op, args, mval):
    """Compare one model answer with the real code.
    Returns (status, detail) with status in 'ok' | 'tie' | 'bad'; detail = (what, model, real).
    Also returns a flag `nontrivial`."""
    try:
        return _check(op, args, mval)
    except Exception as e:   # unexpected exception of the real code
        return 'bad', ('raises %s' % type(e).__name__, mval, repr(e)[:200]), False


def _check(op, args, mval):
    if op == 'model.outward_flags':
        faces = mk_faces(args[0])
        tol = fl(args[1])
        out = Polyface3D.get_outward_faces(faces, tol)
        rflags = [o is not f for o, f in zip(out, faces)]
        mflags = mval[0]
        nontriv = any(rflags)
        if mflags == rflags:
            return 'ok', None, nontriv
        if len(args) > 2 and args[2] == 'notie':
            return 'bad', ('flip flag of a face differs', mflags, rflags), nontriv
        diff = [i for i in range(len(faces)) if mflags[i] != rflags[i]]
        if all(flag_tie(faces, i, tol) for i in diff):
            return 'tie', None, nontriv
        return 'bad', ('flip flag of a face differs', mflags, rflags), nontriv
    if op == 'model.point_on_face':
        f = Face3D([P(fv(v)) for v in args[0]])
        tol = fl(args[1])
        rp = f._point_on_face(tol)
        mp, mn = fv(mval[0]), fv(mval[1])
        scale = size_of([fv(v) for v in args[0]])
        try:
            f.remove_colinear_vertices(tol)
            nontriv = True
        except AssertionError:
            nontriv = False        # fallback to the centre
        if not vclose(mn, (f.normal.x, f.normal.y, f.normal.z), 1.0):
            return 'bad', ('plane normal differs', mval[1], [f.normal.x, f.normal.y, f.normal.z]), \
                nontriv
        if vclose(mp, (rp.x, rp.y, rp.z), scale):
            return 'ok', None, nontriv
        if pof_tie(f, tol):
            return 'tie', None, nontriv
        return 'bad', ('point differs', mval[0], [rp.x, rp.y, rp.z]), nontriv
    if op == 'model.face_hit':
        f = Face3D([P(fv(v)) for v in args[0]])
        p, v = P(fv(args[1])), Vector3D(*fv(args[2]))
        r = f.intersect_line_ray(Ray3D(p, v))
        nontriv = r is not None
        if (r is None) != (mval is None):
            if hit_tie(f, p, v):
                return 'tie', None, nontriv
            return 'bad', ('hit / no hit differs', mval, None if r is None else [r.x, r.y, r.z]), \
                nontriv
        if r is not None:
            scale = size_of([fv(v) for v in args[0]] + [fv(args[1])])
            if not vclose(fv(mval), (r.x, r.y, r.z), scale):
                return 'bad', ('intersection point differs', mval, [r.x, r.y, r.z]), nontriv
        return 'ok', None, nontriv
    if op == 'model.solid_point_inside':
        verts = [P(fv(v)) for v in args[0]]
        idx = [[tuple(l)] for l in args[1]]
        pf = Polyface3D(verts, idx)
        tv = Vector3D(*fv(args[3]))
        pts = [P(fv(v)) for v in args[2]]
        rres = [pf.is_point_inside(p, tv) for p in pts]
        nontriv = any(rres)
        if rres == mval:
            return 'ok', None, nontriv
        diff = [i for i in range(len(pts)) if rres[i] != mval[i]]
        # (a face the model orients differently at a tie has the mirrored 2D frame; a ray that is
        # robust for the real face is robust for the mirrored one, so only ray ties count)
        for i in diff:
            if not any(hit_tie(g, pts[i], tv) for g in pf.faces):
                return 'bad', ('inside / outside differs at point %d' % i, mval, rres), nontriv
        return 'tie', None, nontriv
    if op == 'model.polyface_volume':
        verts = [P(fv(v)) for v in args[0]]
        idx = [[tuple(l)] for l in args[1]]
        pf = Polyface3D(verts, idx)
        fresh = [Face3D([verts[i] for i in l]) for l in args[1]]
        if pf.is_solid:
            out = Polyface3D.get_outward_faces(fresh, 0.01)
            rflags = [o is not f for o, f in zip(out, fresh)]
        else:
            rflags = None
        rvol = pf.volume
        mvol, mflags, msolid = fl(mval[0]), mval[1], mval[2]
        nontriv = pf.is_solid and any(rflags)
        if msolid != pf.is_solid:
            return 'bad', ('is_solid differs', msolid, pf.is_solid), nontriv
        # rounding of face[0].dot(normal) is relative to |face[0]|, not to the (possibly zero) term
        scale = sum(Vector3D(f[0].x, f[0].y, f[0].z).magnitude * f.area for f in pf.faces) / 3
        if close(mvol, rvol, scale):
            return 'ok', None, nontriv
        if pf.is_solid and mflags != rflags and \
                all(flag_tie(fresh, i, 0.01) for i in range(len(fresh)) if mflags[i] != rflags[i]):
            return 'tie', None, nontriv
        return 'bad', ('volume differs', [mval[0], mflags], [rvol, rflags]), nontriv
    raise ValueError('unknown op %r' % (op,))


# ------------------------------------------------------------------ request generation
def wfaces(verts, loops):
    return [[wv(verts[i]) for i in l] for l in loops]


def fixed_requests(prop):
    reqs = []
    if prop == 'C07':
        for w in (WITNESS_PYRAMID, WITNESS_PRISM):
            wf = [[wv(v) for v in f] for f in w]
            reqs.append(('model.outward_flags', [wf, W(0.01), 'notie'], 'witness'))
            reqs.append(('model.outward_flags', [wf, W(0.01), 'exact'], 'witness'))
        v, l = FINDING_PYRAMID
        reqs.append(('model.outward_flags', [wfaces(v, l), W(0.01)], 'finding'))
        for f in DEGENERATE_FACES:
            for tol in (0.01, 0.001):
                reqs.append(('model.point_on_face', [[wv(q) for q in f], W(tol)], 'degenerate'))
        for w in (WITNESS_PYRAMID, WITNESS_PRISM):
            for f in w:
                reqs.append(('model.point_on_face', [[wv(q) for q in f], W(0.01)], 'witness'))
    elif prop == 'C08':
        v, l = prism(rect(2.0, 3.0), (0.0, 0.0, 4.0))
        pts = [(1.0, 1.5, 2.0), (0.25, 0.25, 0.25), (-1.0, 1.0, 1.0), (3.0, 1.0, 1.0),
               (1.0, 1.0, 5.0), (0.0, 0.0, 0.0)]
        for tv in [(1.0, 0.0, 0.0), (0.0, 0.0, 1.0), (3.0, 1.0, 2.0), (-1.0, -2.0, 0.5)]:
            reqs.append(('model.solid_point_inside', [[wv(q) for q in v], l,
                                                      [wv(q) for q in pts], wv(tv)], 'box'))
        reqs.append(('model.solid_point_inside', [[wv(q) for q in v], l[:-1],
                                                  [wv(q) for q in pts], wv((1.0, 0.0, 0.0))],
                     'open'))
        sq = [(0.0, 0.0, 0.0), (4.0, 0.0, 0.0), (4.0, 4.0, 0.0), (0.0, 4.0, 0.0)]
        for p, d in [((1.0, 1.0, 3.0), (0.0, 0.0, -1.0)), ((1.0, 1.0, 3.0), (0.0, 0.0, 1.0)),
                     ((1.0, 1.0, 3.0), (1.0, 0.0, 0.0)), ((5.0, 1.0, 3.0), (0.0, 0.0, -1.0)),
                     ((0.0, 0.0, 3.0), (0.0, 0.0, -3.0)), ((1.0, 1.0, 0.0), (0.5, 0.25, -1.0))]:
            reqs.append(('model.face_hit', [[wv(q) for q in sq], wv(p), wv(d)], 'square'))
    elif prop == 'C01':
        for verts, loops in WITNESSES:
            reqs.append(('model.polyface_volume', [[wv(q) for q in verts], loops], 'witness'))
            reqs.append(('model.polyface_volume', [[wv(q) for q in verts], loops, 'exact'],
                         'witness'))
        v, l = FINDING_PYRAMID
        reqs.append(('model.polyface_volume', [[wv(q) for q in v], l], 'finding'))
        v, l = prism(rect(2.0, 3.0), (0.0, 0.0, 4.0))
        reqs.append(('model.polyface_volume', [[wv(q) for q in v], l], 'box'))
        reqs.append(('model.polyface_volume', [[wv(q) for q in v], l[1:]], 'open'))
    return reqs


def random_requests(rng, prop, n):
    reqs = []
    for _ in range(n):
        kind, v, l = random_solid(rng)
        if prop == 'C07':
            lp = present(rng, l)
            tol = rng.choice([0.01, 0.01, 0.001, 0.003])
            reqs.append(('model.outward_flags', [wfaces(v, lp), W(tol)], kind))
            for f in rng.sample(lp, min(2, len(lp))):
                reqs.append(('model.point_on_face', [[wv(v[i]) for i in f], W(tol)], kind))
        elif prop == 'C08':
            lp = present(rng, l, flip_p=rng.choice([0.0, 0.5]))
            if rng.random() < 0.1:
                lp = lp[1:]       # open polyface: always False
                kind += '-open'
            lo = [min(q[i] for q in v) for i in range(3)]
            hi = [max(q[i] for q in v) for i in range(3)]
            pts = []
            for _k in range(6):
                pts.append(tuple(
                    (lo[i] + hi[i]) / 2 + (hi[i] - lo[i]) * 0.75 *
                    (rng.randint(-255, 255) / 256.0) + 1.0 / 1024 for i in range(3)))
            tv = rng.choice([(1.0, 0.0, 0.0), (1.0, 0.0, 0.0), (0.0, 0.0, 1.0), (0.0, -1.0, 0.0),
                             (float(rng.randint(-4, 4)), float(rng.randint(-4, 4)),
                              float(rng.randint(1, 4)))])
            reqs.append(('model.solid_point_inside', [[wv(q) for q in v], lp,
                                                      [wv(q) for q in pts], wv(tv)], kind))
            f = rng.choice(lp)
            reqs.append(('model.face_hit', [[wv(v[i]) for i in f], wv(rng.choice(pts)), wv(tv)],
                         kind))
        elif prop == 'C01':
            lp = present(rng, l)
            if rng.random() < 0.07:
                lp = lp[1:]
                kind += '-open'
            reqs.append(('model.polyface_volume', [[wv(q) for q in v], lp], kind))
            # the volume of a solid rests on the outward orientation, which starts from the
            # point-on-face helper: tie that too
            for f in rng.sample(lp, min(2, len(lp))):
                reqs.append(('model.point_on_face', [[wv(v[i]) for i in f], W(0.01)], kind))
    return reqs


# ------------------------------------------------------------------ module interface
RULES = {
    'C07': 'request = get_outward_faces on one presentation of a solid (flip flag per face) or '
           '_point_on_face of one face; non-trivial = at least one face is flipped / the point is '
           'the nudged corner point (not the centre fallback)',
    'C08': 'request = Polyface3D.is_point_inside for 6 points and one test vector, or '
           'Face3D.intersect_line_ray of one ray; non-trivial = some point is inside / the ray hits',
    'C01': 'request = Polyface3D(vertices, face_indices).volume with is_solid and the flip flags; '
           'non-trivial = solid with at least one face flipped',
}


def budget(ctx):
    thorough = ctx.tier == 'thorough' or bool(ctx.broken)
    return thorough, (240.0 if thorough else 14.0)


def make_disagreement(op, args, detail, seed):
    what, m, r = detail
    return {'signature': '%s|%s' % (op, what if what.startswith('raises') else what.split(' at ')[0]),
            'what': '%s: %s' % (op, what), 'op': op, 'args': args, 'model': m, 'real': r,
            'seed': seed}


def run(ctx, prop):
    t0 = time.time()
    out = {'requests': 0, 'nontrivial': 0, 'disagreements': [], 'float_ties': 0,
           'histograms': {'kind': {}, 'op': {}, 'faces': {}, 'status': {}}, 'samples': [],
           'rule': RULES.get(prop, '')}
    if prop not in PROPS:
        return out
    thorough, wall = budget(ctx)
    stop = min(ctx.deadline, t0 + wall)
    rng = random.Random('%s/outward/%s' % (ctx.seed, prop))
    seen = set()
    batches = [fixed_requests(prop)]
    n_first = {'C07': 160, 'C08': 220, 'C01': 220}[prop]
    first = True
    while True:
        if batches:
            reqs = batches.pop(0)
        else:
            if time.time() > stop - (6.0 if not thorough else 25.0):
                break
            if not thorough and not first:
                break
            reqs = random_requests(rng, prop, n_first if not thorough else 4 * n_first)
            first = False
        if not reqs:
            continue
        answers = ctx.driver.run([(op, args) for op, args, _ in reqs])
        for (op, args, kind), (ok, val) in zip(reqs, answers):
            out['requests'] += 1
            h = out['histograms']
            h['kind'][kind] = h['kind'].get(kind, 0) + 1
            h['op'][op] = h['op'].get(op, 0) + 1
            if op in ('model.outward_flags',):
                k = str(len(args[0]))
                h['faces'][k] = h['faces'].get(k, 0) + 1
            if not ok:
                status, detail, nontriv = 'bad', ('model error', val, None), False
            else:
                status, detail, nontriv = check(op, args, val)
            h['status'][status] = h['status'].get(status, 0) + 1
            if nontriv:
                out['nontrivial'] += 1
            if status == 'tie':
                out['float_ties'] += 1
            elif status == 'bad':
                d = make_disagreement(op, args, detail, ctx.seed)
                if d['signature'] not in seen:
                    seen.add(d['signature'])
                    out['disagreements'].append(d)
            elif len(out['samples']) < 3 and nontriv and kind not in ('witness', 'finding'):
                out['samples'].append({'op': op, 'args': args, 'model': val})
    out['wall'] = round(time.time() - t0, 1)
    return out


def replay(ctx, disagreement):
    """Re-run one recorded disagreement on the current tree."""
    op, args = disagreement['op'], disagreement['args']
    (ok, val), = ctx.driver.run([(op, args)])
    if not ok:
        return make_disagreement(op, args, ('model error', val, None), disagreement.get('seed'))
    status, detail, _ = check(op, args, val)
    if status != 'bad':
        return None
    return make_disagreement(op, args, detail, disagreement.get('seed'))


if __name__ == '__main__':
    class Ctx(object):
        pass
    ctx = Ctx()
    ctx.seed = int(sys.argv[1]) if len(sys.argv) > 1 else int(os.environ.get('VERIF_SEED', '0'))
    ctx.tier = sys.argv[2] if len(sys.argv) > 2 else os.environ.get('VERIF_TIER', 'quick')
    ctx.broken = []
    ctx.driver = lbg.Driver()
    ctx.deadline = time.time() + 3600
    for prop in PROPS:
        t = time.time()
        res = run(ctx, prop)
        print('%s %s seed %s %s: %d requests, %d non-trivial, %d float ties, %d disagreements, '
              '%.1f s' % (os.path.basename(__file__), prop, ctx.seed, ctx.tier, res['requests'],
                          res['nontrivial'], res['float_ties'], len(res['disagreements']),
                          time.time() - t))
        for d in res['disagreements']:
            print('   ', d['signature'], str(d['model'])[:100], str(d['real'])[:100])
