"""Model correspondence (C03): operation histories on real `Mesh2D` objects vs the Lean cache
machine `Model/MeshCache.lean` (driver op `model.mesh2d_history`).

A history = a start mesh (built by a real factory, cold or with some slots already read) and
1..8 operations (reads, duplicate, move, rotate, reflect, scale, remove_faces_only,
remove_vertices, remove_faces, triangulated, join_meshes).  After every step the PRIVATE
slots of the real object (`_min _max _center _centroid _area _face_areas _face_centroids
_face_area_centroids`, `_vertices`, `_faces`) are compared with the model's state: faces,
filled/empty, scalar/tuple kind and list lengths exactly, values within 1e-9 (relative to the
coordinate magnitude).  An `AssertionError` of the real method must be `{"err":"assert"}` in
the model (state unchanged on both sides); any other exception is a disagreement.

Two real operations have no model op of their own and are tied to a composition:
  `m.remove_faces(p)`            ~ `remove_faces_only(p)` ; `remove_vertices(vp)`  (vp = the
                                    vertices used by the kept faces)
  `Mesh2D.join_meshes([m, a, b])` ~ `join a` ; `join b`
(the model state is compared after the last op of the composition only).
"""
import math
import os
import random
import sys
import time
from fractions import Fraction

if __name__ == '__main__':
    sys.path.insert(0, os.path.dirname(os.path.dirname(os.path.abspath(__file__))))
import lbg  # noqa: E402

from ladybug_geometry.geometry2d.pointvector import Point2D, Vector2D  # noqa: E402
from ladybug_geometry.geometry2d.mesh import Mesh2D  # noqa: E402
from ladybug_geometry.geometry2d.polygon import Polygon2D  # noqa: E402

PROPS = ['C03']
MODELS = ['LbgVerif/Model/MeshCache.lean', 'LbgVerif/Model/Dispatch_MeshCache.lean']
REAL = ['ladybug_geometry/_mesh.py:MeshBase',
        'ladybug_geometry/geometry2d/mesh.py:Mesh2D (memo slots: readers, __copy__, '
        '_mesh_transform, _mesh_scale, remove_vertices, remove_faces, remove_faces_only, '
        'triangulated, join_meshes, _quad_to_triangles)']
TRUSTED = [
    'meshcache2d: the model computes in exact rationals on the doubles the real code holds; '
    'values are compared within 1e-9 relative to the coordinate magnitude, so rounding of '
    'the real arithmetic below that band is not seen',
    'meshcache2d: histories in which a quad of the current mesh is within 1e-9 of a '
    '`_quad_to_triangles` decision threshold (zero turn, ray parameter 0/1) are cut at that '
    'step and counted as float ties',
    'meshcache2d: the start state of a history is read off the real factory result '
    '(from_grid, from_polygon_grid, ...): the factories themselves are not modelled here; '
    'colours and the topological slots (_edge_*, _vertex_connected_faces) are not compared',
]

OP = 'model.mesh2d_history'
W = lbg.wnum
REL = Fraction(1, 10 ** 9)
POINT_SLOTS = ('min', 'max', 'center', 'centroid')
LIST_SLOTS = ('face_centroids', 'face_area_centroids')
SLOTS = POINT_SLOTS + ('area', 'face_areas') + LIST_SLOTS
READS = ['area', 'face_areas', 'face_centroids', 'face_area_centroids', 'min', 'max',
         'center', 'centroid']
TV = (Fraction(1), Fraction(0.00001))       # Vector2D(1, 0.00001)


# ------------------------------------------------------------------ wire <-> real
def pt(p):
    return [W(p.x), W(p.y)]


def fl(s):
    """Wire number -> double (exact: every wire number of a request is a double)."""
    return float(Fraction(s))


def P(j):
    return Point2D(fl(j[0]), fl(j[1]))


def slot_wire(m):
    """Private slots of a real mesh -> wire JSON (None = empty)."""
    out = {}
    for k in POINT_SLOTS:
        v = getattr(m, '_' + k)
        out[k] = None if v is None else pt(v)
    out['area'] = None if m._area is None else W(m._area)
    fa = m._face_areas
    if fa is None:
        out['face_areas'] = None
    elif isinstance(fa, (float, int)):
        out['face_areas'] = {'inl': W(fa)}
    else:
        out['face_areas'] = {'inr': [W(a) for a in fa]}
    for k in LIST_SLOTS:
        v = getattr(m, '_' + k)
        out[k] = None if v is None else [pt(p) for p in v]
    return out


def state_wire(m):
    d = slot_wire(m)
    d['vertices'] = [pt(p) for p in m._vertices]
    d['faces'] = [list(f) for f in m._faces]
    return d


def mesh_from_wire(d):
    """State wire -> real Mesh2D with the recorded slots (used by replay / shrinking)."""
    m = Mesh2D(tuple(P(v) for v in d['vertices']), tuple(tuple(f) for f in d['faces']))
    for k in POINT_SLOTS:
        if d.get(k) is not None:
            setattr(m, '_' + k, P(d[k]))
    if d.get('area') is not None:
        m._area = fl(d['area'])
    fa = d.get('face_areas')
    if fa is not None:
        m._face_areas = fl(fa['inl']) if 'inl' in fa else tuple(fl(a) for a in fa['inr'])
    for k in LIST_SLOTS:
        if d.get(k) is not None:
            setattr(m, '_' + k, tuple(P(q) for q in d[k]))
    return m


# ------------------------------------------------------------------ real side of a history
def n_cont(ops, i):
    n = 0
    while i + 1 + n < len(ops) and ops[i + 1 + n].get('_cont'):
        n += 1
    return n


def apply_real(m, w, conts):
    """Execute the real operation of wire op `w` (with its continuation ops)."""
    op = w.get('_real', w['op'])
    if op.startswith('read_'):
        getattr(m, op[5:])
        return m
    if op == 'duplicate':
        return m.duplicate()
    if op == 'triangulated':
        return m.triangulated()
    if op == 'move':
        return m.move(Vector2D(fl(w['v'][0]), fl(w['v'][1])))
    if op == 'rotate':
        return m.rotate(float.fromhex(w['_angle']), P(w['o']))
    if op == 'reflect':
        return m.reflect(Vector2D(fl(w['n'][0]), fl(w['n'][1])), P(w['o']))
    if op == 'scale':
        return m.scale(fl(w['k']), P(w['o']))
    if op == 'scale_world':
        k = fl(w['k'])
        return m.scale(int(k) if w.get('_int') else k)
    if op == 'remove_faces_only':
        return m.remove_faces_only(list(w['pattern']))
    if op == 'remove_vertices':
        return m.remove_vertices(list(w['pattern']))[0]
    if op == 'remove_faces':
        return m.remove_faces(list(w['pattern']))[0]
    if op == 'join':
        return Mesh2D.join_meshes([m, mesh_from_wire(w['other'])])
    if op == 'join3':
        return Mesh2D.join_meshes([m, mesh_from_wire(w['other']),
                                   mesh_from_wire(conts[0]['other'])])
    raise ValueError('unknown op %r' % (op,))


def real_history(m, ops, ties=False):
    """-> list aligned with `ops`: state wire | {'err':'assert'} | {'raise': name} | None
    (None = inner op of a composition, not compared)."""
    exp = []
    i = 0
    if ties and quad_tie(m):
        return [{'tie': True}] + [None] * (len(ops) - 1)
    while i < len(ops):
        k = n_cont(ops, i)
        try:
            m2 = apply_real(m, ops[i], ops[i + 1:i + 1 + k])
            res = state_wire(m2)
            m = m2
        except AssertionError:
            res = {'err': 'assert'}
        except Exception as e:      # noqa: BLE001 - anything the code throws is recorded
            res = {'raise': type(e).__name__}
        if ties and not ops[i]['op'].startswith('read_') and quad_tie(m):
            res = {'tie': True}
        exp.extend([None] * k + [res])
        i += 1 + k
        if 'tie' in res:
            exp.extend([None] * (len(ops) - len(exp)))
            break
    return exp


# ------------------------------------------------------------------ float ties
def ray_tie(vs, p, tv):
    """True when the exact ray/segment tests of `is_point_inside(p, tv)` on the loop `vs`
    (Fractions) come within 1e-9 of a decision threshold."""
    n = len(vs)
    scale = max([Fraction(1)] + [abs(c) for v in vs for c in v])
    for i in range(n):
        a, b = vs[i], vs[(i + 1) % n]
        avx, avy = b[0] - a[0], b[1] - a[1]
        t1, t2 = tv[1] * avx, tv[0] * avy
        d = t1 - t2
        if d == 0:
            if avx != 0 or avy != 0:
                return True         # exactly parallel: the doubles may see d != 0
            continue
        if abs(d) <= REL * (abs(t1) + abs(t2)):
            return True
        dy, dx = a[1] - p[1], a[0] - p[0]
        ua = (tv[0] * dy - tv[1] * dx) / d
        if abs(ua) < REL or abs(ua - 1) < REL:
            return True
        if ua < 0 or ua > 1:
            continue
        ub = (avx * dy - avy * dx) / d
        if abs(ub) < REL * scale:
            return True
        cond = (abs(avx) + abs(avy)) * (abs(tv[0]) + abs(tv[1])) / abs(d)
        if cond > 2 * 10 ** 5 + 10:
            return True             # ill-conditioned: the code's isclose re-check may fail
    return False


def quad_tie(m):
    """True when some quad of the real mesh is within 1e-9 of a `_quad_to_triangles`
    decision threshold in exact arithmetic."""
    vs = [(Fraction(v.x), Fraction(v.y)) for v in m._vertices]
    for f in m._faces:
        if len(f) != 4:
            continue
        q = [vs[i] for i in f]
        signs = []
        for i in range(4):
            p1, p2, p3 = q[i - 2], q[i - 1], q[i]
            t1 = (p2[0] - p1[0]) * (p3[1] - p2[1])
            t2 = (p2[1] - p1[1]) * (p3[0] - p2[0])
            if abs(t1 - t2) <= REL * (abs(t1) + abs(t2)):
                return True
            signs.append(t1 - t2 > 0)
        if len(set(signs)) > 1:     # concave: the diagonal-midpoint test is evaluated
            mid = (q[0][0] + (q[2][0] - q[0][0]) / 2, q[0][1] + (q[2][1] - q[0][1]) / 2)
            if ray_tie(q, mid, TV):
                return True
    return False


# ------------------------------------------------------------------ comparison
def slot_shape(d, k):
    v = d.get(k)
    if v is None:
        return 'empty'
    if k == 'face_areas':
        return 'scalar' if 'inl' in v else 'tuple[%d]' % len(v['inr'])
    if k in LIST_SLOTS:
        return 'list[%d]' % len(v)
    return 'filled'


def slot_numbers(d, k):
    v = d[k]
    if k in POINT_SLOTS:
        return [Fraction(v[0]), Fraction(v[1])]
    if k == 'area':
        return [Fraction(v)]
    if k == 'face_areas':
        return [Fraction(v['inl'])] if 'inl' in v else [Fraction(a) for a in v['inr']]
    return [Fraction(c) for q in v for c in q]


def compare_states(a, e):
    """model state `a`, real state `e` -> None | (what-key, detail)."""
    if [list(f) for f in a['faces']] != [list(f) for f in e['faces']]:
        return 'faces differ', 'model %s real %s' % (a['faces'], e['faces'])
    if len(a['vertices']) != len(e['vertices']):
        return 'vertex count differs', 'model %d real %d' % (len(a['vertices']),
                                                            len(e['vertices']))
    ev = [Fraction(c) for v in e['vertices'] for c in v]
    av = [Fraction(c) for v in a['vertices'] for c in v]
    s = max([Fraction(1)] + [abs(c) for c in ev])
    dv = max([abs(x - y) for x, y in zip(av, ev)] or [Fraction(0)])
    if dv > REL * s:
        return 'vertices differ', 'max |diff| %.3g' % float(dv)
    for k in SLOTS:
        sa, se = slot_shape(a, k), slot_shape(e, k)
        if sa != se:
            if _kind(sa) == _kind(se):
                return 'slot %s: length differs' % k, 'model %s real %s' % (sa, se)
            return 'slot %s: model %s, real %s' % (k, _kind(sa), _kind(se)), \
                'model %s real %s' % (sa, se)
    for k in SLOTS:
        if e.get(k) is None:
            continue
        unit = s * s if k in ('area', 'face_areas') else s
        for x, y in zip(slot_numbers(a, k), slot_numbers(e, k)):
            if abs(x - y) > REL * max(unit, abs(y)):
                return 'slot %s: value differs' % k, 'model %.17g real %.17g' % (
                    float(x), float(y))
    return None


def _kind(shape):
    return shape.split('[')[0] if '[' in shape else shape


def compare_history(ops, val, exp):
    """-> (n compared, tie?, None | (step index, what-key, detail))."""
    n = 0
    if len(val) != len(ops):
        return 0, False, (0, 'answer length', 'model answered %d of %d ops' % (len(val), len(ops)))
    for i, e in enumerate(exp):
        if e is None:
            continue
        if 'tie' in e:
            return n, True, None
        a = val[i]
        n += 1
        if 'raise' in e:
            return n, False, (i, 'raises %s' % e['raise'],
                              'real raises %s, model %s' % (
                                  e['raise'], 'raises' if 'err' in a else 'returns a state'))
        if 'err' in a or 'err' in e:
            if ('err' in a) != ('err' in e):
                return n, False, (i, 'error mismatch: %s raises' % (
                    'model' if 'err' in a else 'real'), 'AssertionError on one side only')
            continue
        bad = compare_states(a, e)
        if bad:
            return n, False, (i, bad[0], bad[1])
    return n, False, None


def real_op_name(ops, i):
    """Name of the real operation whose result is compared at wire index i."""
    while i > 0 and ops[i].get('_cont'):
        i -= 1
    return ops[i].get('_real', ops[i]['op'])


# ------------------------------------------------------------------ generators
def lat(r, lo=-6, hi=6, den=2):
    return r.randint(lo * den, hi * den) / float(den)


def coord(r, stream):
    return lat(r) if stream == 'lattice' else r.uniform(-10, 10)


BASE_MESHES = [
    # (vertices, faces): triangles + convex / concave quads, lattice coordinates
    ([(0, 0), (2, 0), (2, 1), (0, 1)], [(0, 1, 2, 3)]),
    ([(0, 0), (2, 0), (2, 2), (0, 2), (4, 0), (4, 2)], [(0, 1, 2, 3), (1, 4, 5, 2)]),
    ([(0, 0), (2, 0), (2, 2), (0, 2), (4, 1)], [(0, 1, 2, 3), (1, 4, 2)]),
    ([(0, 0), (4, 0), (1, 1), (0, 4)], [(0, 1, 2, 3)]),                     # concave quad
    ([(0, 0), (4, 0), (1, 1), (0, 4), (4, 4)], [(0, 1, 2, 3), (1, 4, 3, 2)]),  # 2 concave
    ([(0, 0), (3, 0), (0, 3), (3, 3), (5, 1)], [(0, 1, 2), (1, 3, 2), (1, 4, 3)]),
    ([(0, 0), (1, 0), (1, 1), (0, 1), (2, 0), (2, 1), (0, 2), (1, 2), (2, 2)],
     [(0, 1, 2, 3), (1, 4, 5, 2), (3, 2, 7, 6), (2, 5, 8, 7)]),
    ([(0, 0), (2, 0), (3, 2), (1, 2), (5, 5)], [(3, 2, 1, 0), (1, 2, 4)]),  # clockwise quad
    ([(2, 1), (0, 0), (4, 0), (1, 1), (0, 4)], [(1, 2, 3, 4), (0, 3, 2)]),
    ([(0, 0), (5, 0), (5, 4), (2, 1)], [(0, 1, 2, 3)]),         # concave, reflex at vertex 3
    ([(0, 0), (3, 1), (6, 0), (3, 5)], [(0, 1, 2, 3)]),         # concave dart, reflex at 1
    ([(0, 0), (3, 1), (6, 0), (3, 5), (8, 6)], [(3, 2, 1, 0), (2, 4, 3)]),   # clockwise dart
    ([(0, 0), (2, 0), (1, 2), (5, 5), (6, 5), (5, 7)], [(0, 1, 2), (3, 4, 5)]),  # 2 islands
    ([(0, 0), (2, 0), (2, 2), (0, 2), (9, 9)], [(0, 1, 2, 3)]),             # unused vertex
]

POLYGONS = [
    [(0, 0), (4, 0), (4, 4), (0, 4)],
    [(0, 0), (4, 0), (4, 2), (2, 2), (2, 4), (0, 4)],                  # L shape
    [(0, 0), (6, 0), (0, 6)],                                          # triangle
    [(0, 0), (6, 0), (6, 4), (4, 4), (4, 2), (2, 2), (2, 4), (0, 4)],  # U shape
    [(0, 4), (4, 4), (4, 0), (0, 0)],                                  # clockwise square
    [(0, 0), (5, 1), (6, 5), (2, 6), (-1, 3)],                         # convex pentagon
]


def random_mesh(r, stream, hist):
    """-> (real mesh, source kind)."""
    for _ in range(20):
        kind = r.random()
        try:
            if kind < 0.28:
                nx, ny = r.randint(1, 3), r.randint(1, 3)
                if stream == 'lattice':
                    xd, yd = r.choice([0.5, 1.0, 2.0, 1.5, 1]), r.choice([0.5, 1.0, 2.0, 2])
                else:
                    xd, yd = r.uniform(0.2, 3), r.uniform(0.2, 3)
                return (Mesh2D.from_grid(Point2D(coord(r, stream), coord(r, stream)), nx, ny,
                                         xd, yd, generate_centroids=r.random() < 0.7),
                        'from_grid')
            if kind < 0.48:
                k = r.choice([1.0, 0.5, 2.0]) if stream == 'lattice' else r.uniform(0.5, 2)
                x0, y0 = coord(r, stream), coord(r, stream)
                poly = Polygon2D([Point2D(x * k + x0, y * k + y0)
                                  for x, y in r.choice(POLYGONS)])
                if stream == 'lattice':
                    xd, yd = r.choice([1.0, 2.0, 1.5, 0.75]) * k, r.choice([1.0, 2.0]) * k
                else:
                    xd, yd = r.uniform(0.6, 2.2) * k, r.uniform(0.6, 2.2) * k
                return (Mesh2D.from_polygon_grid(poly, xd, yd,
                                                 generate_centroids=r.random() < 0.7),
                        'from_polygon_grid')
            if kind < 0.56:
                k = r.choice([1.0, 0.5, 2.0]) if stream == 'lattice' else r.uniform(0.5, 2)
                x0, y0 = coord(r, stream), coord(r, stream)
                poly = Polygon2D([Point2D(x * k + x0, y * k + y0)
                                  for x, y in r.choice(POLYGONS)])
                return Mesh2D.from_polygon_triangulated(poly), 'from_polygon_triangulated'
            vs, fs = r.choice(BASE_MESHES)
            k = r.choice([1.0, 0.5, 2.0]) if stream == 'lattice' else r.uniform(0.4, 2.5)
            dx, dy = coord(r, stream), coord(r, stream)
            pts = [Point2D(x * k + dx, y * k + dy) for x, y in vs]
            fs2 = []
            for f in fs:                 # every cyclic start of a face; sometimes reversed
                s = r.randrange(len(f))
                f = f[s:] + f[:s]
                fs2.append(tuple(f))
            if r.random() < 0.15:
                fs2 = [tuple(reversed(f)) for f in fs2]
            if kind < 0.66:
                purge = r.random() < 0.5
                return (Mesh2D.from_face_vertices([[pts[i] for i in f] for f in fs2], purge),
                        'from_face_vertices')
            return Mesh2D(pts, fs2), 'explicit'
        except AssertionError:
            hist['source']['(factory assert, redrawn)'] = \
                hist['source'].get('(factory assert, redrawn)', 0) + 1
    return Mesh2D([Point2D(0, 0), Point2D(1, 0), Point2D(0, 1)], [(0, 1, 2)]), 'explicit'


def random_pattern(r, n):
    x = r.random()
    if x < 0.04:
        return [r.random() < 0.5 for _ in range(max(0, n + r.choice([-1, 1])))]
    if x < 0.08:
        return [False] * n
    if x < 0.12:
        return [True] * n
    return [r.random() < 0.7 for _ in range(n)]


def other_mesh(r, stream, hist):
    o, _ = random_mesh(r, stream, hist)
    for _ in range(r.randint(0, 3)):
        try:
            getattr(o, r.choice(READS))
        except Exception:       # noqa: BLE001
            pass
    if r.random() < 0.3:
        o = o.scale(2.0)
    return state_wire(o)


def random_op(r, m, stream, hist):
    """-> list of wire ops (one real operation)."""
    x = r.random()
    c = lambda: coord(r, stream)     # noqa: E731
    if x < 0.32:
        return [{'op': 'read_' + r.choice(READS)}]
    if x < 0.38:
        return [{'op': 'duplicate'}]
    if x < 0.45:
        return [{'op': 'move', 'v': pt(Vector2D(c(), c()))}]
    if x < 0.53:
        ang = r.randint(-4, 4) * math.pi / 2 if stream == 'lattice' or r.random() < 0.2 \
            else r.uniform(-7, 7)
        return [{'op': 'rotate', 'c': W(math.cos(ang)), 's': W(math.sin(ang)),
                 'o': pt(Point2D(c(), c())), '_angle': float(ang).hex()}]
    if x < 0.60:
        if stream == 'lattice' or r.random() < 0.3:
            n = r.choice([Vector2D(1, 0), Vector2D(0, 1), Vector2D(-1, 0), Vector2D(0, -1),
                          Vector2D(0.6, 0.8), Vector2D(-0.8, 0.6)])
        else:
            a = r.uniform(0, 2 * math.pi)
            n = Vector2D(math.cos(a), math.sin(a)).normalize()
        return [{'op': 'reflect', 'n': pt(n), 'o': pt(Point2D(c(), c()))}]
    if x < 0.67:
        k = r.choice([2.0, 0.5, 3.0, -1.0, -2.0]) if stream == 'lattice' else \
            r.choice([-1, 1]) * r.uniform(0.3, 2.5)
        return [{'op': 'scale', 'k': W(k), 'o': pt(Point2D(c(), c()))}]
    if x < 0.72:
        k = r.choice([2.0, 0.5, 3.0, 2, -1]) if stream == 'lattice' else r.uniform(0.3, 2.5)
        w = {'op': 'scale_world', 'k': W(k)}
        if isinstance(k, int):
            w['_int'] = True
        return [w]
    if x < 0.78:
        return [{'op': 'remove_faces_only', 'pattern': random_pattern(r, len(m._faces))}]
    if x < 0.84:
        return [{'op': 'remove_vertices', 'pattern': random_pattern(r, len(m._vertices))}]
    if x < 0.89:
        p = random_pattern(r, len(m._faces))
        w = {'op': 'remove_faces_only', 'pattern': p, '_real': 'remove_faces'}
        if len(p) != len(m._faces) or not any(p):
            return [w]          # must raise on both sides
        used = set(i for f, keep in zip(m._faces, p) if keep for i in f)
        return [w, {'op': 'remove_vertices', '_cont': True,
                    'pattern': [i in used for i in range(len(m._vertices))]}]
    if x < 0.93:
        return [{'op': 'triangulated'}]
    if x < 0.98:
        return [{'op': 'join', 'other': other_mesh(r, stream, hist)}]
    return [{'op': 'join', '_real': 'join3', 'other': other_mesh(r, stream, hist)},
            {'op': 'join', '_cont': True, 'other': other_mesh(r, stream, hist)}]


def bump(h, k, n=1):
    h[k] = h.get(k, 0) + n


def random_history(r, stream, hist, max_len=8):
    """-> (request args, expected list)."""
    m, src = random_mesh(r, stream, hist)
    bump(hist['source'], src)
    warm = 0
    for _ in range(r.choice([0, 0, 0, 1, 2, 3])):       # pre-history reads: warm cache
        try:
            getattr(m, r.choice(READS))
            warm += 1
        except Exception:       # noqa: BLE001
            pass
    bump(hist['start_cache'], 'warm' if any(v is not None for v in slot_wire(m).values())
         else 'cold')
    start = state_wire(m)
    # generation needs the sizes of the current mesh: run the real ops on a scratch copy
    ops = []
    cur = mesh_from_wire(start)
    for _ in range(r.randint(1, max_len)):
        ws = random_op(r, cur, stream, hist)
        try:
            cur = apply_real(cur, ws[0], ws[1:])
        except Exception:       # noqa: BLE001
            pass
        ops.extend(ws)
    exp = real_history(m, ops, ties=True)
    args = [start['vertices'], start['faces'], {k: start[k] for k in SLOTS}, ops]
    return args, exp


# ------------------------------------------------------------------ fixed corpus
def _grid_state(nx, ny, xd, yd, cent, reads=()):
    m = Mesh2D.from_grid(Point2D(1, -2), nx, ny, xd, yd, generate_centroids=cent)
    for k in reads:
        getattr(m, k)
    return m


def fixed_corpus():
    """Hand-picked histories: every op, every error branch, scalar/tuple areas, both
    diagonals of concave quads, warm and cold joins."""
    out = []
    sq = [(0, 0), (2, 0), (2, 2), (0, 2), (4, 0), (4, 2)]
    two = lambda: Mesh2D([Point2D(*p) for p in sq], [(0, 1, 2, 3), (1, 4, 5, 2)])  # noqa: E731
    dart = lambda fs: Mesh2D([Point2D(*p) for p in [(0, 0), (3, 1), (6, 0), (3, 5), (8, 6)]],  # noqa: E731
                             fs)
    other_warm = _grid_state(1, 2, 0.5, 2.0, True, ['area'])
    other_cold = two()
    allreads = [{'op': 'read_' + k} for k in READS]
    hp = math.pi / 2
    rot = {'op': 'rotate', 'c': W(math.cos(hp)), 's': W(math.sin(hp)), 'o': ['1', '1'],
           '_angle': float(hp).hex()}
    out.append((two(), allreads + [{'op': 'duplicate'}] + allreads))
    out.append((two(), [{'op': 'read_centroid'}, {'op': 'move', 'v': ['3', '-1/2']},
                        {'op': 'read_centroid'}, rot, {'op': 'read_center'},
                        {'op': 'reflect', 'n': ['3/5', '4/5'], 'o': ['0', '1']},
                        {'op': 'read_face_area_centroids'}]))
    out.append((_grid_state(2, 2, 1.5, 2, True),
                [{'op': 'scale', 'k': '3', 'o': ['1', '1']}, {'op': 'read_area'},
                 {'op': 'scale_world', 'k': '2', '_int': True}, {'op': 'read_face_areas'},
                 {'op': 'scale_world', 'k': '-1/2'}, {'op': 'duplicate'},
                 {'op': 'read_centroid'}]))
    out.append((_grid_state(2, 3, 1.0, 0.5, False, ['face_areas', 'area']),
                [{'op': 'remove_faces_only', 'pattern': [True, False, True, True, False, True]},
                 {'op': 'read_face_centroids'},
                 {'op': 'remove_faces_only', 'pattern': [True, False, True]},      # too short
                 {'op': 'remove_faces_only', 'pattern': [False] * 4},              # empties
                 {'op': 'remove_faces_only', 'pattern': [True] * 5},               # too long
                 {'op': 'remove_vertices', 'pattern': [True] * 12},
                 {'op': 'remove_vertices', 'pattern': [True] * 11},                # too short
                 {'op': 'remove_vertices', 'pattern': [False] * 12},               # empties
                 {'op': 'remove_vertices',
                  'pattern': [True, True, True, True, True, True, True, True, False, True,
                              True, True]},
                 {'op': 'read_area'}]))
    out.append((_grid_state(2, 2, 1.0, 1.0, True, ['centroid']),
                [{'op': 'remove_faces_only', 'pattern': [True, True, False, True],
                  '_real': 'remove_faces'},
                 {'op': 'remove_vertices', '_cont': True,
                  'pattern': [True, True, True, True, True, True, False, True, True]},
                 {'op': 'read_face_areas'},
                 {'op': 'remove_faces_only', 'pattern': [False, False, False],
                  '_real': 'remove_faces'},                                         # empties
                 {'op': 'remove_faces_only', 'pattern': [True, True], '_real': 'remove_faces'},
                 {'op': 'read_centroid'}]))
    for fs in ([(0, 1, 2, 3), (2, 4, 3)], [(1, 2, 3, 0), (2, 4, 3)], [(3, 2, 1, 0), (2, 4, 3)],
               [(2, 1, 0, 3), (2, 4, 3)]):
        out.append((dart(fs), [{'op': 'read_face_area_centroids'}, {'op': 'triangulated'},
                               {'op': 'read_centroid'}, {'op': 'triangulated'}]))
    out.append((_grid_state(1, 2, 2.0, 1.0, True),
                [{'op': 'join', 'other': state_wire(other_warm)}, {'op': 'read_area'},
                 {'op': 'join', 'other': state_wire(other_cold)}, {'op': 'read_face_areas'},
                 {'op': 'triangulated'}, {'op': 'read_max'}]))
    out.append((_grid_state(1, 1, 2.0, 1.0, False, ['face_centroids', 'face_areas']),
                [{'op': 'join', '_real': 'join3', 'other': state_wire(other_warm)},
                 {'op': 'join', '_cont': True,
                  'other': state_wire(_grid_state(2, 1, 1.0, 1.0, True, ['face_areas']))},
                 {'op': 'read_centroid'}, {'op': 'duplicate'}, {'op': 'read_min'}]))
    return out


# ------------------------------------------------------------------ run
def budget(ctx):
    """-> (thorough?, stop generating, stop shrinking)."""
    thorough = ctx.tier == 'thorough' or bool(getattr(ctx, 'broken', None))
    wall = 200.0 if thorough else 13.0
    t = time.time()
    return thorough, min(t + wall, getattr(ctx, 'deadline', float('inf')) - 5), \
        t + (285.0 if thorough else 16.0)


def signature(ops, i, what):
    return '%s|%s: %s' % (OP, real_op_name(ops, i), what)


def nontrivial_steps(args, exp, limit):
    """Among the first `limit` compared steps: those in which a memo value is in play — a read
    on a warm cache, any other op whose resulting state carries a filled slot, an error step."""
    n = 0
    prev_filled = any(args[2].get(k) is not None for k in SLOTS)
    ops = args[3]
    seen = 0
    for i, e in enumerate(exp):
        if e is None:
            continue
        if 'tie' in e or seen >= limit:
            break
        seen += 1
        if 'err' in e or 'raise' in e:
            n += 1
            continue
        filled = any(e.get(k) is not None for k in SLOTS)
        if ops[i]['op'].startswith('read_'):
            n += 1 if prev_filled else 0
        else:
            n += 1 if filled else 0
        prev_filled = filled
    return n


def check_one(driver, args):
    """Run one history on both sides -> None | disagreement core (step, what, detail)."""
    m = mesh_from_wire(dict(args[2], vertices=args[0], faces=args[1]))
    exp = real_history(m, args[3], ties=True)
    ok, val = driver.run([(OP, args)])[0]
    if not ok:
        return (0, 'driver error', str(val)[:200])
    return compare_history(args[3], val, exp)[2]


def shrink(driver, args, what_key, deadline):
    """Cut the history after the failing step, then drop single ops while the same
    disagreement remains (one driver batch per round)."""
    for _ in range(4):
        if time.time() > deadline:
            break
        ops = args[3]
        cands = []
        for j in range(len(ops)):
            if ops[j].get('_cont'):
                continue
            k = n_cont(ops, j)
            cands.append(args[:3] + [ops[:j] + ops[j + 1 + k:]])
        cands = [c for c in cands if c[3]]
        if not cands:
            break
        exps = []
        for c in cands:
            m = mesh_from_wire(dict(c[2], vertices=c[0], faces=c[1]))
            exps.append(real_history(m, c[3], ties=True))
        answers = driver.run([(OP, c) for c in cands])
        better = None
        for c, e, (ok, val) in zip(cands, exps, answers):
            if not ok:
                continue
            bad = compare_history(c[3], val, e)[2]
            if bad and signature(c[3], bad[0], bad[1]) == what_key:
                better = c[:3] + [c[3][:bad[0] + 1]]
                break
        if better is None:
            break
        args = better
    return args


def make_disagreement(args, bad, seed):
    i, what, detail = bad
    ops = args[3]
    cut = args[:3] + [ops[:i + 1]]
    return {'signature': signature(ops, i, what),
            'what': 'after %s (step %d of %s): %s — %s' % (
                real_op_name(ops, i), i, [o.get('_real', o['op']) for o in ops[:i + 1]
                                          if not o.get('_cont')], what, detail),
            'op': OP, 'args': cut, 'model': what, 'real': detail, 'seed': seed}


def run(ctx, prop):
    t0 = time.time()
    thorough, stop, hard_stop = budget(ctx)
    hist = {'source': {}, 'start_cache': {}, 'ops': {}, 'history_length': {}, 'stream': {},
            'faces_at_start': {}, 'real_errors': {}, 'face_areas_kind': {},
            'filled_slots_per_state': {}}
    out = {'requests': 0, 'nontrivial': 0, 'disagreements': [], 'float_ties': 0,
           'histograms': hist, 'samples': [],
           'rule': 'request = one step of an operation history compared slot by slot; '
                   'non-trivial = a read on a warm cache, a non-read op whose result carries '
                   'a filled memo slot, or a step on which the real method raises'}
    if prop not in PROPS:
        return out
    found = {}

    def do_batch(cases, label):
        if not cases:
            return
        answers = ctx.driver.run([(OP, a) for a, _ in cases])
        for (args, exp), (ok, val) in zip(cases, answers):
            ops = args[3]
            bump(hist['history_length'], len([o for o in ops if not o.get('_cont')]))
            bump(hist['faces_at_start'], min(len(args[1]), 10))
            for o in ops:
                if not o.get('_cont'):
                    bump(hist['ops'], o.get('_real', o['op']))
            if not ok:
                bad, n, tie = (0, 'driver error', str(val)[:200]), 0, False
            else:
                n, tie, bad = compare_history(ops, val, exp)
            out['requests'] += n
            out['float_ties'] += 1 if tie else 0
            out['nontrivial'] += nontrivial_steps(args, exp, n)
            for e in exp:
                if e is None or 'tie' in e:
                    continue
                if 'err' in e or 'raise' in e:
                    bump(hist['real_errors'], e.get('err') or e.get('raise'))
                else:
                    bump(hist['face_areas_kind'], _kind(slot_shape(e, 'face_areas')))
                    bump(hist['filled_slots_per_state'],
                         sum(1 for k in SLOTS if e.get(k) is not None))
            if bad:
                d = make_disagreement(args, bad, '%s/%s' % (ctx.seed, label))
                if d['signature'] not in found:
                    found[d['signature']] = d
            elif len(out['samples']) < 3 and 2 <= len(ops) <= 3 and label != 'fixed':
                out['samples'].append({'op': OP, 'args': args, 'agrees': True})

    # fixed corpus first
    cases = []
    for m, ops in fixed_corpus():
        start = state_wire(m)
        args = [start['vertices'], start['faces'], {k: start[k] for k in SLOTS}, ops]
        cases.append((args, real_history(m, ops, ties=True)))
        bump(hist['source'], 'fixed corpus')
    do_batch(cases, 'fixed')

    # random histories
    r = random.Random('%s/corr.meshcache2d' % ctx.seed)
    per_batch = 1500 if thorough else 450
    rounds = 0
    while time.time() < stop and (rounds < 1 or thorough) and rounds < 12:
        cases = []
        for _ in range(per_batch):
            stream = 'lattice' if r.random() < 0.55 else 'float'
            bump(hist['stream'], stream)
            cases.append(random_history(r, stream, hist))
            if time.time() > stop:
                break
        do_batch(cases, 'round%d' % rounds)
        rounds += 1

    for n, sig in enumerate(sorted(found)[:8]):
        d = found[sig]
        if n < 3 and time.time() < hard_stop:
            try:
                d['args'] = shrink(ctx.driver, d['args'], sig, hard_stop)
            except Exception:       # noqa: BLE001 - shrinking is best effort
                pass
        out['disagreements'].append(d)
    out['seconds'] = round(time.time() - t0, 1)
    return out


def replay(ctx, disagreement):
    """Re-run one recorded disagreement on the current tree."""
    args = disagreement['args']
    bad = check_one(ctx.driver, args)
    if not bad:
        return None
    return make_disagreement(args, bad, disagreement.get('seed'))


if __name__ == '__main__':
    class Ctx(object):
        pass
    ctx = Ctx()
    ctx.seed = int(sys.argv[1]) if len(sys.argv) > 1 else int(os.environ.get('VERIF_SEED', '0'))
    ctx.tier = sys.argv[2] if len(sys.argv) > 2 else os.environ.get('VERIF_TIER', 'quick')
    ctx.broken = []
    ctx.driver = lbg.Driver()
    ctx.deadline = time.time() + 3600
    t = time.time()
    res = run(ctx, PROPS[0])
    print('%s seed %s %s: %d requests, %d non-trivial, %d float ties, %d disagreements, %.1f s' % (
        os.path.basename(__file__), ctx.seed, ctx.tier, res['requests'], res['nontrivial'],
        res['float_ties'], len(res['disagreements']), time.time() - t))
    for k, v in sorted(res['histograms'].items()):
        print('  %s: %s' % (k, dict(sorted(v.items(), key=lambda kv: str(kv[0])))))
    for d in res['disagreements']:
        print('DISAGREEMENT', d['signature'], '::', d['what'][:400])
        again = replay(ctx, d)
        print('   replay:', 'reproduced' if again else 'NOT reproduced',
              '(%d ops)' % len(d['args'][3]))
    sys.exit(1 if res['disagreements'] else 0)
