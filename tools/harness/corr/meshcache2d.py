"""Correspondence: random operation histories on real `Mesh2D` objects vs the Lean model
`Model/MeshCache.lean` (driver op `model.mesh2d_history`).  After every step the private
slots of the real object are compared with the model's slot state: filled/empty (and
scalar/tuple kind, list lengths, faces) exactly, values within 1e-9."""
import math
import random
import sys
from fractions import Fraction

sys.path.insert(0, '/verif/tools/harness')
import lbg  # noqa: E402
lbg.LEAN_DIR = '/tmp/agents/p_c03b/lean'
lbg.scratch_dir = lambda: '/tmp/agents/p_c03b'

from ladybug_geometry.geometry2d.pointvector import Point2D, Vector2D  # noqa: E402
from ladybug_geometry.geometry2d.mesh import Mesh2D  # noqa: E402
from ladybug_geometry.geometry2d.polygon import Polygon2D  # noqa: E402

W = lbg.wnum
TOL = Fraction(1, 10 ** 9)
SLOTS = ['min', 'max', 'center', 'centroid', 'area', 'face_areas', 'face_centroids',
         'face_area_centroids']


def pt(p):
    return [W(p.x), W(p.y)]


def slot_wire(m):
    """Private slots of a real mesh -> wire JSON (None = empty)."""
    out = {}
    for k in ('min', 'max', 'center', 'centroid'):
        v = getattr(m, '_' + k)
        out[k] = None if v is None else pt(v)
    out['area'] = None if m._area is None else W(m._area)
    fa = m._face_areas
    if fa is None:
        out['face_areas'] = None
    elif isinstance(fa, (float, int)):
        out['face_areas'] = {'inl': W(fa)}
    else:
        out['face_areas'] = {'inr': [W(a) for a in fa]}
    for k in ('face_centroids', 'face_area_centroids'):
        v = getattr(m, '_' + k)
        out[k] = None if v is None else [pt(p) for p in v]
    return out


def state_wire(m):
    d = slot_wire(m)
    d['vertices'] = [pt(p) for p in m._vertices]
    d['faces'] = [list(f) for f in m._faces]
    return d


def canon(d):
    """wire state -> comparable (shape, numbers)."""
    shape, nums = [], []

    def num(s):
        nums.append(Fraction(s))

    def p2(j):
        num(j[0]); num(j[1])
    shape.append(('faces', [list(f) for f in d['faces']]))
    shape.append(('nverts', len(d['vertices'])))
    for v in d['vertices']:
        p2(v)
    for k in ('min', 'max', 'center', 'centroid'):
        shape.append((k, d[k] is not None))
        if d[k] is not None:
            p2(d[k])
    shape.append(('area', d['area'] is not None))
    if d['area'] is not None:
        num(d['area'])
    fa = d['face_areas']
    if fa is None:
        shape.append(('face_areas', None))
    elif 'inl' in fa:
        shape.append(('face_areas', 'scalar'))
        num(fa['inl'])
    else:
        shape.append(('face_areas', ('tuple', len(fa['inr']))))
        for a in fa['inr']:
            num(a)
    for k in ('face_centroids', 'face_area_centroids'):
        v = d[k]
        shape.append((k, None if v is None else len(v)))
        if v is not None:
            for q in v:
                p2(q)
    return shape, nums


# ------------------------------------------------------------------ generators
def lat(r, lo=-6, hi=6, den=2):
    return r.randint(lo * den, hi * den) / float(den)


BASE_MESHES = [
    # (vertices, faces): triangles + convex / concave quads, lattice coordinates
    ([(0, 0), (2, 0), (2, 1), (0, 1)], [(0, 1, 2, 3)]),
    ([(0, 0), (2, 0), (2, 2), (0, 2), (4, 0), (4, 2)], [(0, 1, 2, 3), (1, 4, 5, 2)]),
    ([(0, 0), (2, 0), (2, 2), (0, 2), (4, 1)], [(0, 1, 2, 3), (1, 4, 2)]),
    ([(0, 0), (4, 0), (1, 1), (0, 4)], [(0, 1, 2, 3)]),                     # concave quad
    ([(0, 0), (4, 0), (1, 1), (0, 4), (4, 4)], [(0, 1, 2, 3), (1, 4, 3, 2)]),  # 2 concave
    ([(0, 0), (3, 0), (0, 3), (3, 3), (5, 1)], [(0, 1, 2), (1, 3, 2), (1, 4, 3)]),
    ([(0, 0), (1, 0), (1, 1), (0, 1), (2, 0), (2, 1), (0, 2), (1, 2), (2, 2)],
     [(0, 1, 2, 3), (1, 4, 5, 2), (3, 2, 7, 6), (2, 5, 8, 7)]),
    ([(0, 0), (2, 0), (3, 2), (1, 2), (5, 5)], [(3, 2, 1, 0), (1, 2, 4)]),  # clockwise quad
    ([(2, 1), (0, 0), (4, 0), (1, 1), (0, 4)], [(1, 2, 3, 4), (0, 3, 2)]),
]


def random_mesh(r):
    kind = r.random()
    if kind < 0.35:
        nx, ny = r.randint(1, 3), r.randint(1, 3)
        return Mesh2D.from_grid(Point2D(lat(r), lat(r)), nx, ny,
                                r.choice([0.5, 1.0, 2.0, 1.5]), r.choice([0.5, 1.0, 2.0]),
                                generate_centroids=r.random() < 0.7)
    if kind < 0.5:
        w, h = r.choice([2.0, 4.0]), r.choice([2.0, 4.0])
        x0, y0 = lat(r), lat(r)
        poly = Polygon2D([Point2D(x0, y0), Point2D(x0 + w, y0), Point2D(x0 + w, y0 + h),
                          Point2D(x0, y0 + h)])
        return Mesh2D.from_polygon_grid(poly, r.choice([1.0, 2.0, 1.5]), r.choice([1.0, 2.0]),
                                        generate_centroids=r.random() < 0.7)
    vs, fs = r.choice(BASE_MESHES)
    k = r.choice([1.0, 0.5, 2.0])
    dx, dy = lat(r), lat(r)
    return Mesh2D([Point2D(x * k + dx, y * k + dy) for x, y in vs], fs)


READS = ['area', 'face_areas', 'face_centroids', 'face_area_centroids', 'min', 'max',
         'center', 'centroid']


def random_pattern(r, n, allow_bad=True):
    x = r.random()
    if allow_bad and x < 0.04:
        return [r.random() < 0.5 for _ in range(n + r.choice([-1, 1]))]
    if allow_bad and x < 0.08:
        return [False] * n
    p = [r.random() < 0.7 for _ in range(n)]
    return p


def random_op(r, m):
    """-> (wire op, function real mesh -> new real mesh)."""
    x = r.random()
    if x < 0.34:
        name = r.choice(READS)

        def f(m, name=name):
            getattr(m, name)
            return m
        return {'op': 'read_' + name}, f
    if x < 0.40:
        return {'op': 'duplicate'}, lambda m: m.duplicate()
    if x < 0.47:
        v = Vector2D(lat(r), lat(r))
        return {'op': 'move', 'v': pt(v)}, lambda m: m.move(v)
    if x < 0.55:
        ang = r.randint(-4, 4) * math.pi / 2
        o = Point2D(lat(r), lat(r))
        return ({'op': 'rotate', 'c': W(math.cos(ang)), 's': W(math.sin(ang)), 'o': pt(o)},
                lambda m: m.rotate(ang, o))
    if x < 0.62:
        n = r.choice([Vector2D(1, 0), Vector2D(0, 1), Vector2D(-1, 0), Vector2D(0, -1),
                      Vector2D(0.6, 0.8), Vector2D(-0.8, 0.6)])
        o = Point2D(lat(r), lat(r))
        return {'op': 'reflect', 'n': pt(n), 'o': pt(o)}, lambda m: m.reflect(n, o)
    if x < 0.70:
        k = r.choice([2.0, 0.5, 3.0])
        o = Point2D(lat(r), lat(r))
        return {'op': 'scale', 'k': W(k), 'o': pt(o)}, lambda m: m.scale(k, o)
    if x < 0.75:
        k = r.choice([2.0, 0.5, 3.0, 2])
        return {'op': 'scale_world', 'k': W(k)}, lambda m: m.scale(k)
    if x < 0.82:
        p = random_pattern(r, len(m.faces))
        return {'op': 'remove_faces_only', 'pattern': p}, lambda m: m.remove_faces_only(p)
    if x < 0.89:
        p = random_pattern(r, len(m.vertices))
        return {'op': 'remove_vertices', 'pattern': p}, lambda m: m.remove_vertices(p)[0]
    if x < 0.94:
        return {'op': 'triangulated'}, lambda m: m.triangulated()
    other = random_mesh(r)
    for _ in range(r.randint(0, 3)):
        getattr(other, r.choice(READS))
    if r.random() < 0.3:
        other = other.scale(2.0)
    ow = state_wire(other)
    return {'op': 'join', 'other': ow}, lambda m: Mesh2D.join_meshes([m, other])


def main(n_hist=500, max_len=8, seed=20260930):
    r = random.Random(seed)
    requests, expected, descr = [], [], []
    stats = {'steps': 0, 'asserts': 0, 'ops': {}}
    for h in range(n_hist):
        m = random_mesh(r)
        for _ in range(r.randint(0, 2)):       # pre-history reads are part of the seed
            if r.random() < 0.3:
                getattr(m, r.choice(READS))
        v0 = [pt(p) for p in m._vertices]
        f0 = [list(f) for f in m._faces]
        seeded = slot_wire(m)
        ops, exp = [], []
        for _ in range(r.randint(1, max_len)):
            w, f = random_op(r, m)
            ops.append(w)
            stats['ops'][w['op']] = stats['ops'].get(w['op'], 0) + 1
            try:
                m = f(m)
                exp.append(state_wire(m))
            except AssertionError:
                exp.append({'err': 'assert'})
                stats['asserts'] += 1
        requests.append(('model.mesh2d_history', [v0, f0, seeded, ops]))
        expected.append(exp)
        descr.append((v0, f0, seeded, ops))
    answers = lbg.Driver().run(requests)
    bad = 0
    maxd = Fraction(0)
    for h, ((ok, val), exp) in enumerate(zip(answers, expected)):
        if not ok:
            print('history', h, 'driver error', val)
            bad += 1
            continue
        assert len(val) == len(exp)
        for i, (a, e) in enumerate(zip(val, exp)):
            stats['steps'] += 1
            if 'err' in a or 'err' in e:
                if ('err' in a) != ('err' in e):
                    print('history', h, 'step', i, descr[h][3][i]['op'], 'error mismatch',
                          'model' if 'err' in a else 'real')
                    bad += 1
                    break
                continue
            sa, na = canon(a)
            se, ne = canon(e)
            if sa != se:
                print('history', h, 'step', i, descr[h][3][i]['op'], 'SHAPE mismatch')
                for x, y in zip(sa, se):
                    if x != y:
                        print('   model', x, ' real', y)
                print('   ops', [o['op'] for o in descr[h][3][:i + 1]])
                bad += 1
                break
            d = max([abs(x - y) for x, y in zip(na, ne)] or [Fraction(0)])
            maxd = max(maxd, d)
            if d > TOL:
                print('history', h, 'step', i, descr[h][3][i]['op'], 'VALUE mismatch', float(d))
                print('   ops', [o['op'] for o in descr[h][3][:i + 1]])
                bad += 1
                break
    print('histories: %d  agreeing: %d  steps compared: %d  real AssertionErrors: %d  '
          'max |diff| = %.3g' % (n_hist, n_hist - bad, stats['steps'], stats['asserts'],
                                 float(maxd)))
    print('op counts:', dict(sorted(stats['ops'].items())))
    return bad


if __name__ == '__main__':
    n = int(sys.argv[1]) if len(sys.argv) > 1 else 500
    sd = int(sys.argv[2]) if len(sys.argv) > 2 else 20260930
    sys.exit(1 if main(n, 8, sd) else 0)
