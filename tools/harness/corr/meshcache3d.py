"""Correspondence for the reduced Mesh3D cache machine (`Model/MeshCache3.lean`, driver op
`model.mesh3d_history`): random histories on real `Mesh3D` objects; after each step the
private slots `_area`, `_face_areas`, `_face_normals` (and vertices / faces) are compared
with the model: filled/empty + scalar/tuple kind exactly, values within 1e-9."""
import math
import random
import sys
from fractions import Fraction

sys.path.insert(0, '/verif/tools/harness')
import lbg  # noqa: E402
lbg.LEAN_DIR = '/tmp/agents/p_c03b/lean'
lbg.scratch_dir = lambda: '/tmp/agents/p_c03b'

from ladybug_geometry.geometry3d.pointvector import Point3D, Vector3D  # noqa: E402
from ladybug_geometry.geometry3d.mesh import Mesh3D  # noqa: E402
from ladybug_geometry.geometry3d.face import Face3D  # noqa: E402
from ladybug_geometry.geometry3d.plane import Plane  # noqa: E402

W = lbg.wnum
TOL = Fraction(1, 10 ** 9)


def p3(p):
    return [W(p.x), W(p.y), W(p.z)]


def state_wire(m):
    d = {'vertices': [p3(p) for p in m._vertices], 'faces': [list(f) for f in m._faces]}
    d['area'] = None if m._area is None else W(m._area)
    fa = m._face_areas
    if fa is None:
        d['face_areas'] = None
    elif isinstance(fa, (float, int)):
        d['face_areas'] = {'inl': W(fa)}
    else:
        d['face_areas'] = {'inr': [W(a) for a in fa]}
    fn = m._face_normals
    if fn is None:
        d['face_normals'] = None
    elif isinstance(fn, Vector3D):
        d['face_normals'] = {'inl': p3(fn)}
    else:
        d['face_normals'] = {'inr': [p3(v) for v in fn]}
    return d


def canon(d):
    shape, nums = [('faces', d['faces']), ('nv', len(d['vertices']))], []
    for v in d['vertices']:
        nums.extend(Fraction(c) for c in v)
    shape.append(('area', d['area'] is not None))
    if d['area'] is not None:
        nums.append(Fraction(d['area']))
    fa = d['face_areas']
    if fa is None:
        shape.append(('fa', None))
    elif 'inl' in fa:
        shape.append(('fa', 'scalar'))
        nums.append(Fraction(fa['inl']))
    else:
        shape.append(('fa', len(fa['inr'])))
        nums.extend(Fraction(a) for a in fa['inr'])
    fn = d['face_normals']
    if fn is None:
        shape.append(('fn', None))
    elif 'inl' in fn:
        shape.append(('fn', 'single'))
        nums.extend(Fraction(c) for c in fn['inl'])
    else:
        shape.append(('fn', len(fn['inr'])))
        for v in fn['inr']:
            nums.extend(Fraction(c) for c in v)
    return shape, nums


def lat(r, lo=-4, hi=4, den=2):
    return r.randint(lo * den, hi * den) / float(den)


BASE = [
    ([(0, 0, 0), (2, 0, 0), (2, 1, 0), (0, 1, 0), (3, 3, 1)], [(0, 1, 2, 3), (1, 4, 2)]),
    ([(0, 0, 0), (2, 0, 0), (2, 2, 1), (0, 2, 1), (0, 0, 3)], [(0, 1, 2, 3), (0, 3, 4), (1, 2, 4)]),
    ([(0, 0, 0), (1, 0, 0), (1, 1, 0), (0, 1, 0), (0, 0, 1), (1, 0, 1), (1, 1, 1), (0, 1, 1)],
     [(0, 3, 2, 1), (4, 5, 6, 7), (0, 1, 5, 4), (2, 3, 7, 6)]),
    ([(0, 0, 0), (4, 0, 1), (1, 1, 0), (0, 4, 2)], [(0, 1, 2, 3)]),        # non-planar quad
]


def random_mesh(r):
    if r.random() < 0.3:
        # Face3D.mesh_grid seeds the scalar area and the single normal
        x0, y0, z0 = lat(r), lat(r), lat(r)
        w, h = r.choice([2.0, 4.0]), r.choice([2.0, 4.0])
        f = Face3D([Point3D(x0, y0, z0), Point3D(x0 + w, y0, z0), Point3D(x0 + w, y0 + h, z0),
                    Point3D(x0, y0 + h, z0)])
        return f.mesh_grid(r.choice([1.0, 2.0]), r.choice([1.0, 2.0]),
                           offset=r.choice([None, 0.5]), flip=r.random() < 0.3)
    vs, fs = r.choice(BASE)
    k = r.choice([1.0, 0.5, 2.0])
    d = (lat(r), lat(r), lat(r))
    return Mesh3D([Point3D(x * k + d[0], y * k + d[1], z * k + d[2]) for x, y, z in vs], fs)


READS = ['area', 'face_areas', 'face_normals']


def random_op(r, m):
    x = r.random()
    if x < 0.35:
        name = r.choice(READS)

        def f(m, name=name):
            getattr(m, name)
            return m
        return {'op': 'read_' + name}, f
    if x < 0.43:
        return {'op': 'duplicate'}, lambda m: m.duplicate()
    if x < 0.53:
        v = Vector3D(lat(r), lat(r), lat(r))
        return {'op': 'move', 'v': p3(v)}, lambda m: m.move(v)
    if x < 0.62:
        ang = r.choice([r.randint(-4, 4) * math.pi / 2, r.uniform(-6, 6)])
        o = Point3D(lat(r), lat(r), lat(r))
        return ({'op': 'rotate_xy', 'c': W(math.cos(ang)), 's': W(math.sin(ang)), 'o': p3(o)},
                lambda m: m.rotate_xy(ang, o))
    if x < 0.70:
        n = r.choice([Vector3D(1, 0, 0), Vector3D(0, 1, 0), Vector3D(0, 0, -1),
                      Vector3D(0.6, 0.8, 0), Vector3D(0, -0.8, 0.6)])
        o = Point3D(lat(r), lat(r), lat(r))
        return {'op': 'reflect', 'n': p3(n), 'o': p3(o)}, lambda m: m.reflect(n, o)
    if x < 0.80:
        k = r.choice([2.0, 0.5, 3.0, -2.0, -0.5])
        o = Point3D(lat(r), lat(r), lat(r))
        return {'op': 'scale', 'k': W(k), 'o': p3(o)}, lambda m: m.scale(k, o)
    if x < 0.87:
        k = r.choice([2.0, 0.5, 3.0, -1.0])
        return {'op': 'scale_world', 'k': W(k)}, lambda m: m.scale(k)
    n = len(m.faces)
    y = r.random()
    if y < 0.05:
        p = [True] * (n + 1)
    elif y < 0.1:
        p = [False] * n
    else:
        p = [r.random() < 0.7 for _ in range(n)]
    return {'op': 'remove_faces_only', 'pattern': p}, lambda m: m.remove_faces_only(p)


def main(n_hist=500, max_len=8, seed=31):
    r = random.Random(seed)
    requests, expected, descr = [], [], []
    stats = {'steps': 0, 'asserts': 0, 'ops': {}}
    for h in range(n_hist):
        m = random_mesh(r)
        if r.random() < 0.3:
            getattr(m, r.choice(READS))
        s0 = state_wire(m)
        ops, exp = [], []
        for _ in range(r.randint(1, max_len)):
            w, f = random_op(r, m)
            ops.append(w)
            stats['ops'][w['op']] = stats['ops'].get(w['op'], 0) + 1
            try:
                m = f(m)
                exp.append(state_wire(m))
            except AssertionError:
                exp.append({'err': 'assert'})
                stats['asserts'] += 1
        requests.append(('model.mesh3d_history', [s0['vertices'], s0['faces'], s0, ops]))
        expected.append(exp)
        descr.append(ops)
    answers = lbg.Driver().run(requests)
    bad, maxd = 0, Fraction(0)
    for h, ((ok, val), exp) in enumerate(zip(answers, expected)):
        if not ok:
            print('history', h, 'driver error', val)
            bad += 1
            continue
        for i, (a, e) in enumerate(zip(val, exp)):
            stats['steps'] += 1
            if 'err' in a or 'err' in e:
                if ('err' in a) != ('err' in e):
                    print('history', h, 'step', i, descr[h][i]['op'], 'error mismatch')
                    bad += 1
                    break
                continue
            sa, na = canon(a)
            se, ne = canon(e)
            if sa != se:
                print('history', h, 'step', i, descr[h][i]['op'], 'SHAPE mismatch', sa, se)
                print('   ops', [o['op'] for o in descr[h][:i + 1]])
                bad += 1
                break
            d = max([abs(x - y) for x, y in zip(na, ne)] or [Fraction(0)])
            maxd = max(maxd, d)
            if d > TOL:
                print('history', h, 'step', i, descr[h][i]['op'], 'VALUE mismatch', float(d))
                print('   ops', [o['op'] for o in descr[h][:i + 1]])
                bad += 1
                break
    print('Mesh3D histories: %d  agreeing: %d  steps compared: %d  real AssertionErrors: %d  '
          'max |diff| = %.3g' % (n_hist, n_hist - bad, stats['steps'], stats['asserts'],
                                 float(maxd)))
    print('op counts:', dict(sorted(stats['ops'].items())))
    return bad


if __name__ == '__main__':
    n = int(sys.argv[1]) if len(sys.argv) > 1 else 500
    sd = int(sys.argv[2]) if len(sys.argv) > 2 else 31
    sys.exit(1 if main(n, 8, sd) else 0)
