"""Model correspondence (C03): operation histories on real `Mesh3D` objects vs the reduced
Lean cache machine `Model/MeshCache3.lean` (driver op `model.mesh3d_history`).

A history = a start mesh (real factory: `Face3D.mesh_grid` — scalar area + single normal
seeded —, `Mesh3D.from_mesh2d`, `from_face_vertices`, explicit; cold or already read) and 1..8
operations (read area / face_areas / face_normals, duplicate, move, rotate_xy, rotate about
the z axis, reflect, scale, remove_faces_only).  After every step the private slots `_area`,
`_face_areas`, `_face_normals` (and `_vertices`, `_faces`) of the real object are compared
with the model state: faces, filled/empty, scalar/tuple (single/tuple) kind and lengths
exactly, values within 1e-9 relative to the coordinate magnitude.  `AssertionError` of the real
method <-> `{"err":"assert"}`; any other exception is a disagreement.

`m.rotate(Vector3D(0, 0, ±1), a, o)` has no model op of its own; it is tied to the model's
`rotate_xy` (±a): the same `_mesh_transform` slot transfer, vertices equal within tolerance.
"""
import math
import os
import random
import sys
import time
from fractions import Fraction

if __name__ == '__main__':
    sys.path.insert(0, os.path.dirname(os.path.dirname(os.path.abspath(__file__))))
import lbg  # noqa: E402

from ladybug_geometry.geometry2d.pointvector import Point2D  # noqa: E402
from ladybug_geometry.geometry2d.mesh import Mesh2D  # noqa: E402
from ladybug_geometry.geometry3d.pointvector import Point3D, Vector3D  # noqa: E402
from ladybug_geometry.geometry3d.mesh import Mesh3D  # noqa: E402
from ladybug_geometry.geometry3d.face import Face3D  # noqa: E402
from ladybug_geometry.geometry3d.plane import Plane  # noqa: E402

PROPS = ['C03']
MODELS = ['LbgVerif/Model/MeshCache3.lean', 'LbgVerif/Model/Dispatch_MeshCache.lean']
REAL = ['ladybug_geometry/_mesh.py:MeshBase',
        'ladybug_geometry/geometry3d/mesh.py:Mesh3D (slots _area _face_areas _face_normals: '
        'readers, __copy__, _mesh_transform, _mesh_scale, remove_faces_only, '
        '_calculate_face_areas_and_normals)',
        'ladybug_geometry/geometry3d/face.py:Face3D.mesh_grid (as a source of seeded slots)']
TRUSTED = [
    'meshcache3d: the model computes in exact rationals (math.sqrt = IEEE sqrt of the exact '
    'argument) on the doubles the real code holds; values are compared within 1e-9 relative to '
    'the coordinate magnitude',
    'meshcache3d: histories in which a face normal of the current mesh is ill-conditioned '
    '(|n| <= 1e-6 * edge length squared: degenerate or folded face) are cut at that step and '
    'counted as float ties',
    'meshcache3d: histories whose exact vertex coordinates outgrow 240 bits (several transforms '
    'with generic 53-bit cos/sin) are cut: the driver evaluates sqrt through a rational -> '
    'double conversion that overflows beyond that (histogram cut_driver_range)',
    'meshcache3d: the start state is read off the real factory result (Face3D.mesh_grid, ...); '
    'the slots _vertex_normals, _face_centroids, bounding box, colours and the topological '
    'slots are not part of the reduced model and not compared; remove_vertices / remove_faces '
    '/ join_meshes of Mesh3D have no op in the reduced model',
]

OP = 'model.mesh3d_history'
W = lbg.wnum
REL = Fraction(1, 10 ** 9)
SLOTS = ('area', 'face_areas', 'face_normals')
READS = ['area', 'face_areas', 'face_normals']


# ------------------------------------------------------------------ wire <-> real
def p3(p):
    return [W(p.x), W(p.y), W(p.z)]


def fl(s):
    return float(Fraction(s))


def P(j):
    return Point3D(fl(j[0]), fl(j[1]), fl(j[2]))


def V(j):
    return Vector3D(fl(j[0]), fl(j[1]), fl(j[2]))


def state_wire(m):
    d = {'vertices': [p3(p) for p in m._vertices], 'faces': [list(f) for f in m._faces]}
    d['area'] = None if m._area is None else W(m._area)
    fa = m._face_areas
    if fa is None:
        d['face_areas'] = None
    elif isinstance(fa, (float, int)):
        d['face_areas'] = {'inl': W(fa)}
    else:
        d['face_areas'] = {'inr': [W(a) for a in fa]}
    fn = m._face_normals
    if fn is None:
        d['face_normals'] = None
    elif isinstance(fn, Vector3D):
        d['face_normals'] = {'inl': p3(fn)}
    else:
        d['face_normals'] = {'inr': [p3(v) for v in fn]}
    return d


def mesh_from_wire(d):
    m = Mesh3D(tuple(P(v) for v in d['vertices']), tuple(tuple(f) for f in d['faces']))
    if d.get('area') is not None:
        m._area = fl(d['area'])
    fa = d.get('face_areas')
    if fa is not None:
        m._face_areas = fl(fa['inl']) if 'inl' in fa else tuple(fl(a) for a in fa['inr'])
    fn = d.get('face_normals')
    if fn is not None:
        m._face_normals = V(fn['inl']) if 'inl' in fn else tuple(V(v) for v in fn['inr'])
    return m


# ------------------------------------------------------------------ real side of a history
def apply_real(m, w):
    op = w.get('_real', w['op'])
    if op.startswith('read_'):
        getattr(m, op[5:])
        return m
    if op == 'duplicate':
        return m.duplicate()
    if op == 'move':
        return m.move(V(w['v']))
    if op == 'rotate_xy':
        return m.rotate_xy(float.fromhex(w['_angle']), P(w['o']))
    if op == 'rotate_z':       # Mesh3D.rotate about (0, 0, ±1): the model's rotate_xy(±angle)
        sgn = w['_axis_sign']
        return m.rotate(Vector3D(0, 0, sgn), sgn * float.fromhex(w['_angle']), P(w['o']))
    if op == 'reflect':
        return m.reflect(V(w['n']), P(w['o']))
    if op == 'scale':
        return m.scale(fl(w['k']), P(w['o']))
    if op == 'scale_world':
        k = fl(w['k'])
        return m.scale(int(k) if w.get('_int') else k)
    if op == 'remove_faces_only':
        return m.remove_faces_only(list(w['pattern']))
    raise ValueError('unknown op %r' % (op,))


def real_history(m, ops, ties=False):
    """-> list aligned with `ops`: state wire | {'err':'assert'} | {'raise': name} |
    {'tie': True} (history cut) | None."""
    if ties and normal_tie(m):
        return [{'tie': True}] + [None] * (len(ops) - 1)
    exp = []
    for i, w in enumerate(ops):
        try:
            m2 = apply_real(m, w)
            res = state_wire(m2)
            m = m2
        except AssertionError:
            res = {'err': 'assert'}
        except Exception as e:      # noqa: BLE001
            res = {'raise': type(e).__name__}
        if ties and not w['op'].startswith('read_') and normal_tie(m):
            res = {'tie': True}
        exp.append(res)
        if 'tie' in res:
            exp.extend([None] * (len(ops) - len(exp)))
            break
    return exp


# ------------------------------------------------------------------ float ties
def _cross(u, v):
    return (u[1] * v[2] - u[2] * v[1], u[2] * v[0] - u[0] * v[2], u[0] * v[1] - u[1] * v[0])


def _sub(a, b):
    return (a[0] - b[0], a[1] - b[1], a[2] - b[2])


def _sq(a):
    return a[0] * a[0] + a[1] * a[1] + a[2] * a[2]


def normal_tie(m):
    """True when some face has an ill-conditioned normal (exact |n| <= 1e-6 L^2)."""
    vs = [(Fraction(v.x), Fraction(v.y), Fraction(v.z)) for v in m._vertices]
    for f in m._faces:
        q = [vs[i] for i in f]
        n = _cross(_sub(q[1], q[0]), _sub(q[2], q[0]))
        parts = [n]
        if len(q) == 4:
            n2 = _cross(_sub(q[3], q[2]), _sub(q[0], q[2]))
            parts.append(n2)
            n = ((n[0] + n2[0]) / 2, (n[1] + n2[1]) / 2, (n[2] + n2[2]) / 2)
        l2 = max(_sq(_sub(q[i], q[i - 1])) for i in range(len(q)))
        for x in parts + [n]:
            if _sq(x) * 10 ** 12 <= l2 * l2:
                return True
    return False


# ------------------------------------------------------------------ comparison
RANGE_BITS = 240


def out_of_range(a):
    """The driver evaluates `math.sqrt` on the exact rational argument by converting numerator
    and denominator to doubles (Wire.ratToFloat); with vertex coordinates of more than ~250
    bits the argument (degree 4 in the coordinates) leaves the double range and the model's
    areas / normals are meaningless.  Such a history is cut at that step (counted in the
    histogram `cut_driver_range`, it is neither an agreement nor a disagreement)."""
    for v in a['vertices']:
        for c in v:
            f = Fraction(c)
            if f.numerator.bit_length() > RANGE_BITS or f.denominator.bit_length() > RANGE_BITS:
                return True
    return False


def slot_shape(d, k):
    v = d.get(k)
    if v is None:
        return 'empty'
    if k == 'area':
        return 'filled'
    if 'inl' in v:
        return 'scalar' if k == 'face_areas' else 'single'
    return 'tuple[%d]' % len(v['inr'])


def slot_numbers(d, k):
    v = d[k]
    if k == 'area':
        return [Fraction(v)]
    if k == 'face_areas':
        return [Fraction(v['inl'])] if 'inl' in v else [Fraction(a) for a in v['inr']]
    if 'inl' in v:
        return [Fraction(c) for c in v['inl']]
    return [Fraction(c) for q in v['inr'] for c in q]


def _kind(shape):
    return shape.split('[')[0]


def compare_states(a, e):
    if [list(f) for f in a['faces']] != [list(f) for f in e['faces']]:
        return 'faces differ', 'model %s real %s' % (a['faces'], e['faces'])
    if len(a['vertices']) != len(e['vertices']):
        return 'vertex count differs', 'model %d real %d' % (len(a['vertices']),
                                                            len(e['vertices']))
    ev = [Fraction(c) for v in e['vertices'] for c in v]
    av = [Fraction(c) for v in a['vertices'] for c in v]
    s = max([Fraction(1)] + [abs(c) for c in ev])
    dv = max([abs(x - y) for x, y in zip(av, ev)] or [Fraction(0)])
    if dv > REL * s:
        return 'vertices differ', 'max |diff| %.3g' % float(dv)
    for k in SLOTS:
        sa, se = slot_shape(a, k), slot_shape(e, k)
        if sa != se:
            if _kind(sa) == _kind(se):
                return 'slot %s: length differs' % k, 'model %s real %s' % (sa, se)
            return 'slot %s: model %s, real %s' % (k, _kind(sa), _kind(se)), \
                'model %s real %s' % (sa, se)
    for k in SLOTS:
        if e.get(k) is None:
            continue
        unit = Fraction(1) if k == 'face_normals' else s * s
        for x, y in zip(slot_numbers(a, k), slot_numbers(e, k)):
            if abs(x - y) > REL * max(unit, abs(y)):
                return 'slot %s: value differs' % k, 'model %.17g real %.17g' % (
                    float(x), float(y))
    return None


def compare_history(ops, val, exp):
    """-> (n compared, tie?, None | (step index, what-key, detail))."""
    n = 0
    if len(val) != len(ops):
        return 0, False, (0, 'answer length', 'model answered %d of %d ops' % (len(val), len(ops)))
    for i, e in enumerate(exp):
        if e is None:
            continue
        if 'tie' in e:
            return n, True, None
        a = val[i]
        if 'vertices' in a and out_of_range(a):
            return n, 'range', None
        n += 1
        if 'raise' in e:
            return n, False, (i, 'raises %s' % e['raise'],
                              'real raises %s, model %s' % (
                                  e['raise'], 'raises' if 'err' in a else 'returns a state'))
        if 'err' in a or 'err' in e:
            if ('err' in a) != ('err' in e):
                return n, False, (i, 'error mismatch: %s raises' % (
                    'model' if 'err' in a else 'real'), 'AssertionError on one side only')
            continue
        bad = compare_states(a, e)
        if bad:
            return n, False, (i, bad[0], bad[1])
    return n, False, None


# ------------------------------------------------------------------ generators
def lat(r, lo=-4, hi=4, den=2):
    return r.randint(lo * den, hi * den) / float(den)


def coord(r, stream):
    # 'float' stream: generic (non-lattice) doubles with 16 fractional bits — the exact model
    # values must stay inside the driver's rational -> double range (see RANGE_BITS)
    return lat(r) if stream == 'lattice' else round(r.uniform(-8, 8) * 65536) / 65536.0


BASE = [
    ([(0, 0, 0), (2, 0, 0), (2, 1, 0), (0, 1, 0), (3, 3, 1)], [(0, 1, 2, 3), (1, 4, 2)]),
    ([(0, 0, 0), (2, 0, 0), (2, 2, 1), (0, 2, 1), (0, 0, 3)], [(0, 1, 2, 3), (0, 3, 4), (1, 2, 4)]),
    ([(0, 0, 0), (1, 0, 0), (1, 1, 0), (0, 1, 0), (0, 0, 1), (1, 0, 1), (1, 1, 1), (0, 1, 1)],
     [(0, 3, 2, 1), (4, 5, 6, 7), (0, 1, 5, 4), (2, 3, 7, 6)]),
    ([(0, 0, 0), (4, 0, 1), (1, 1, 0), (0, 4, 2)], [(0, 1, 2, 3)]),        # non-planar quad
    ([(0, 0, 0), (3, 0, 0), (0, 3, 0), (0, 0, 3)], [(0, 2, 1), (0, 1, 3), (1, 2, 3), (2, 0, 3)]),
    ([(0, 0, 0), (2, 0, 0), (2, 2, 0), (0, 2, 0), (1, 1, 2)],
     [(3, 2, 1, 0), (0, 1, 4), (1, 2, 4), (2, 3, 4), (3, 0, 4)]),          # pyramid
    ([(0, 0, 1), (2, 0, 1), (1, 2, 1), (5, 5, 0), (6, 5, 2), (5, 7, 1)], [(0, 1, 2), (3, 4, 5)]),
]

POLYGONS = [
    [(0, 0), (4, 0), (4, 4), (0, 4)],
    [(0, 0), (4, 0), (4, 2), (2, 2), (2, 4), (0, 4)],                  # L shape
    [(0, 0), (6, 0), (0, 6)],
    [(0, 0), (2, 0), (2, 4), (0, 4)],
]


def random_plane(r, stream):
    if stream == 'lattice':
        n = r.choice([Vector3D(0, 0, 1), Vector3D(0, 0, -1), Vector3D(1, 0, 0),
                      Vector3D(0, -1, 0)])
        return Plane(n, Point3D(lat(r), lat(r), lat(r)))
    while True:
        n = Vector3D(r.gauss(0, 1), r.gauss(0, 1), r.gauss(0, 1))
        if n.magnitude > 0.2:
            break
    return Plane(n.normalize(), Point3D(coord(r, stream), coord(r, stream), coord(r, stream)))


def random_mesh(r, stream, hist):
    """-> (real mesh, source kind)."""
    for _ in range(20):
        kind = r.random()
        try:
            if kind < 0.38:
                # Face3D.mesh_grid seeds the scalar area and the single normal
                pl = random_plane(r, stream)
                k = r.choice([1.0, 0.5, 2.0])
                poly = r.choice(POLYGONS)
                if r.random() < 0.3:
                    poly = list(reversed(poly))
                f = Face3D([pl.xy_to_xyz(Point2D(x * k, y * k)) for x, y in poly], pl)
                if stream == 'lattice':
                    xd, yd = r.choice([1.0, 2.0, 0.5]) * k, r.choice([1.0, 2.0, None])
                    yd = yd if yd is None else yd * k
                else:
                    xd, yd = round(r.uniform(0.5, 2.2) * 64) / 64 * k, \
                        round(r.uniform(0.5, 2.2) * 64) / 64 * k
                return (f.mesh_grid(xd, yd, offset=r.choice([None, 0.5, 0]),
                                    flip=r.random() < 0.3,
                                    generate_centroids=r.random() < 0.5), 'Face3D.mesh_grid')
            if kind < 0.48:
                nx, ny = r.randint(1, 3), r.randint(1, 2)
                m2 = Mesh2D.from_grid(Point2D(coord(r, stream), coord(r, stream)), nx, ny,
                                      r.choice([0.5, 1.0, 2.0]), r.choice([0.5, 1.0]))
                pl = random_plane(r, stream) if r.random() < 0.6 else None
                return Mesh3D.from_mesh2d(m2, pl), 'from_mesh2d'
            vs, fs = r.choice(BASE)
            k = r.choice([1.0, 0.5, 2.0]) if stream == 'lattice' else \
                round(r.uniform(0.4, 2.5) * 256) / 256.0
            d = (coord(r, stream), coord(r, stream), coord(r, stream))
            pts = [Point3D(x * k + d[0], y * k + d[1], z * k + d[2]) for x, y, z in vs]
            fs2 = []
            for f in fs:
                s = r.randrange(len(f))
                fs2.append(tuple(f[s:] + f[:s]))
            if r.random() < 0.15:
                fs2 = [tuple(reversed(f)) for f in fs2]
            if kind < 0.58:
                return (Mesh3D.from_face_vertices([[pts[i] for i in f] for f in fs2],
                                                  r.random() < 0.5), 'from_face_vertices')
            return Mesh3D(pts, fs2), 'explicit'
        except AssertionError:
            bump(hist['source'], '(factory assert, redrawn)')
    return Mesh3D([Point3D(0, 0, 0), Point3D(1, 0, 0), Point3D(0, 1, 0)], [(0, 1, 2)]), 'explicit'


def random_op(r, m, stream):
    x = r.random()
    c = lambda: coord(r, stream)     # noqa: E731
    if x < 0.35:
        return {'op': 'read_' + r.choice(READS)}
    if x < 0.43:
        return {'op': 'duplicate'}
    if x < 0.52:
        return {'op': 'move', 'v': p3(Vector3D(c(), c(), c()))}
    if x < 0.63:
        ang = r.randint(-4, 4) * math.pi / 2 if stream == 'lattice' else r.uniform(-6, 6)
        w = {'op': 'rotate_xy', 'c': W(math.cos(ang)), 's': W(math.sin(ang)),
             'o': p3(Point3D(c(), c(), c())), '_angle': float(ang).hex()}
        if r.random() < 0.35:
            w['_real'] = 'rotate_z'
            w['_axis_sign'] = r.choice([1, -1])
        return w
    if x < 0.71:
        if stream == 'lattice' or r.random() < 0.3:
            n = r.choice([Vector3D(1, 0, 0), Vector3D(0, 1, 0), Vector3D(0, 0, -1),
                          Vector3D(0.6, 0.8, 0), Vector3D(0, -0.8, 0.6)])
        else:
            n = random_plane(r, stream).n
        return {'op': 'reflect', 'n': p3(n), 'o': p3(Point3D(c(), c(), c()))}
    if x < 0.80:
        k = r.choice([2.0, 0.5, 3.0, -2.0, -0.5]) if stream == 'lattice' else \
            r.choice([-1, 1]) * round(r.uniform(0.3, 2.5) * 256) / 256.0
        return {'op': 'scale', 'k': W(k), 'o': p3(Point3D(c(), c(), c()))}
    if x < 0.87:
        k = r.choice([2.0, 0.5, 3.0, -1.0, 2]) if stream == 'lattice' else \
            round(r.uniform(0.3, 2.5) * 256) / 256.0
        w = {'op': 'scale_world', 'k': W(k)}
        if isinstance(k, int):
            w['_int'] = True
        return w
    n = len(m._faces)
    y = r.random()
    if y < 0.05:
        p = [True] * (n + 1)
    elif y < 0.08:
        p = [r.random() < 0.5 for _ in range(max(0, n - 1))]
    elif y < 0.13:
        p = [False] * n
    elif y < 0.18:
        p = [True] * n
    else:
        p = [r.random() < 0.7 for _ in range(n)]
    return {'op': 'remove_faces_only', 'pattern': p}


def real_len(ops):
    return len(ops)


def bump(h, k, n=1):
    h[k] = h.get(k, 0) + n


def to_args(start, ops):
    return [start['vertices'], start['faces'], {k: start[k] for k in SLOTS}, ops]


def random_history(r, stream, hist, max_len=8):
    m, src = random_mesh(r, stream, hist)
    bump(hist['source'], src)
    for _ in range(r.choice([0, 0, 0, 1, 2])):        # pre-history reads: warm cache
        try:
            getattr(m, r.choice(READS))
        except Exception:       # noqa: BLE001
            pass
    start = state_wire(m)
    bump(hist['start_cache'], 'warm' if any(start[k] is not None for k in SLOTS) else 'cold')
    ops = []
    cur = mesh_from_wire(start)
    for _ in range(r.randint(1, max_len)):
        w = random_op(r, cur, stream)
        try:
            cur = apply_real(cur, w)
        except Exception:       # noqa: BLE001
            pass
        ops.append(w)
    return to_args(start, ops), real_history(m, ops, ties=True)


def fixed_corpus():
    out = []
    hp = math.pi / 2
    rot = {'op': 'rotate_xy', 'c': W(math.cos(hp)), 's': W(math.sin(hp)), 'o': ['1', '1', '0'],
           '_angle': float(hp).hex()}
    rotz = dict(rot, _real='rotate_z', _axis_sign=-1)
    reads = [{'op': 'read_' + k} for k in READS]
    box = lambda: Mesh3D([Point3D(*p) for p in BASE[2][0]], BASE[2][1])     # noqa: E731
    face = Face3D([Point3D(0, 0, 2), Point3D(4, 0, 2), Point3D(4, 2, 2), Point3D(0, 2, 2)])
    grid = lambda **kw: face.mesh_grid(1.0, 1.0, **kw)                      # noqa: E731
    out.append((box(), reads + [{'op': 'duplicate'}] + list(reversed(reads))))
    out.append((box(), [{'op': 'read_area'}, {'op': 'move', 'v': ['1', '2', '-1/2']},
                        {'op': 'read_face_normals'}, rot, {'op': 'read_face_areas'}, rotz,
                        {'op': 'reflect', 'n': ['0', '-4/5', '3/5'], 'o': ['0', '1', '0']},
                        {'op': 'read_face_normals'}]))
    out.append((grid(), [{'op': 'scale', 'k': '3', 'o': ['1', '1', '1']}, {'op': 'read_area'},
                         {'op': 'scale_world', 'k': '-2'}, {'op': 'read_face_normals'},
                         {'op': 'scale_world', 'k': '2', '_int': True},
                         {'op': 'read_face_areas'}, {'op': 'duplicate'}]))
    out.append((grid(flip=True, offset=0.5),
                [{'op': 'remove_faces_only', 'pattern': [True, False] * 4},
                 {'op': 'read_face_areas'},
                 {'op': 'remove_faces_only', 'pattern': [True] * 3},        # too short
                 {'op': 'remove_faces_only', 'pattern': [True] * 5},        # too long
                 {'op': 'remove_faces_only', 'pattern': [False] * 4},       # empties the mesh
                 {'op': 'remove_faces_only', 'pattern': [False, True, True, False]},
                 {'op': 'read_area'}, {'op': 'move', 'v': ['0', '0', '1']},
                 {'op': 'read_face_normals'}]))
    out.append((grid(), [{'op': 'read_face_normals'}, {'op': 'duplicate'},
                         {'op': 'remove_faces_only', 'pattern': [True] * 7 + [False]},
                         {'op': 'read_face_normals'}, {'op': 'read_area'}]))
    return out


# ------------------------------------------------------------------ run
def budget(ctx):
    thorough = ctx.tier == 'thorough' or bool(getattr(ctx, 'broken', None))
    wall = 200.0 if thorough else 13.0
    t = time.time()
    return thorough, min(t + wall, getattr(ctx, 'deadline', float('inf')) - 5), \
        t + (285.0 if thorough else 16.0)


def signature(ops, i, what):
    return '%s|%s: %s' % (OP, ops[i].get('_real', ops[i]['op']), what)


def nontrivial_steps(args, exp, limit):
    """Among the first `limit` compared steps: those in which a memo value is in play."""
    n = 0
    prev_filled = any(args[2].get(k) is not None for k in SLOTS)
    seen = 0
    for w, e in zip(args[3], exp):
        if e is None:
            continue
        if 'tie' in e or seen >= limit:
            break
        seen += 1
        if 'err' in e or 'raise' in e:
            n += 1
            continue
        filled = any(e.get(k) is not None for k in SLOTS)
        if w['op'].startswith('read_'):
            n += 1 if prev_filled else 0
        else:
            n += 1 if filled else 0
        prev_filled = filled
    return n


def expected_of(args):
    m = mesh_from_wire(dict(args[2], vertices=args[0], faces=args[1]))
    return real_history(m, args[3], ties=True)


def shrink(driver, args, sig, deadline):
    """Drop single ops while the same disagreement remains (one driver batch per round)."""
    for _ in range(4):
        if time.time() > deadline:
            break
        ops = args[3]
        cands = [args[:3] + [ops[:j] + ops[j + 1:]] for j in range(len(ops)) if len(ops) > 1]
        if not cands:
            break
        exps = [expected_of(c) for c in cands]
        answers = driver.run([(OP, c) for c in cands])
        better = None
        for c, e, (ok, val) in zip(cands, exps, answers):
            if not ok:
                continue
            bad = compare_history(c[3], val, e)[2]
            if bad and signature(c[3], bad[0], bad[1]) == sig:
                better = c[:3] + [c[3][:bad[0] + 1]]
                break
        if better is None:
            break
        args = better
    return args


def make_disagreement(args, bad, seed):
    i, what, detail = bad
    ops = args[3]
    return {'signature': signature(ops, i, what),
            'what': 'after %s (step %d of %s): %s — %s' % (
                ops[i].get('_real', ops[i]['op']), i,
                [o.get('_real', o['op']) for o in ops[:i + 1]], what, detail),
            'op': OP, 'args': args[:3] + [ops[:i + 1]], 'model': what, 'real': detail,
            'seed': seed}


def run(ctx, prop):
    t0 = time.time()
    thorough, stop, hard_stop = budget(ctx)
    hist = {'source': {}, 'start_cache': {}, 'ops': {}, 'history_length': {}, 'stream': {},
            'faces_at_start': {}, 'real_errors': {}, 'face_areas_kind': {},
            'face_normals_kind': {}, 'filled_slots_per_state': {}, 'cut_driver_range': {}}
    out = {'requests': 0, 'nontrivial': 0, 'disagreements': [], 'float_ties': 0,
           'histograms': hist, 'samples': [],
           'rule': 'request = one step of an operation history compared slot by slot; '
                   'non-trivial = a read on a warm cache, a non-read op whose result carries '
                   'a filled memo slot, or a step on which the real method raises'}
    if prop not in PROPS:
        return out
    found = {}

    def do_batch(cases, label):
        if not cases:
            return
        answers = ctx.driver.run([(OP, a) for a, _ in cases])
        for (args, exp), (ok, val) in zip(cases, answers):
            ops = args[3]
            bump(hist['history_length'], len(ops))
            bump(hist['faces_at_start'], min(len(args[1]), 10))
            for o in ops:
                bump(hist['ops'], o.get('_real', o['op']))
            if not ok:
                bad, n, tie = (0, 'driver error', str(val)[:200]), 0, False
            else:
                n, tie, bad = compare_history(ops, val, exp)
            out['requests'] += n
            out['float_ties'] += 1 if tie is True else 0
            if tie == 'range':
                bump(hist['cut_driver_range'], real_len(ops))
            out['nontrivial'] += nontrivial_steps(args, exp, n)
            for e in exp:
                if e is None or 'tie' in e:
                    continue
                if 'err' in e or 'raise' in e:
                    bump(hist['real_errors'], e.get('err') or e.get('raise'))
                else:
                    bump(hist['face_areas_kind'], _kind(slot_shape(e, 'face_areas')))
                    bump(hist['face_normals_kind'], _kind(slot_shape(e, 'face_normals')))
                    bump(hist['filled_slots_per_state'],
                         sum(1 for k in SLOTS if e.get(k) is not None))
            if bad:
                d = make_disagreement(args, bad, '%s/%s' % (ctx.seed, label))
                if d['signature'] not in found:
                    found[d['signature']] = d
            elif len(out['samples']) < 3 and 2 <= len(ops) <= 3 and label != 'fixed':
                out['samples'].append({'op': OP, 'args': args, 'agrees': True})

    cases = []
    for m, ops in fixed_corpus():
        cases.append((to_args(state_wire(m), ops), real_history(m, ops, ties=True)))
        bump(hist['source'], 'fixed corpus')
    do_batch(cases, 'fixed')

    r = random.Random('%s/corr.meshcache3d' % ctx.seed)
    per_batch = 1500 if thorough else 380
    rounds = 0
    while time.time() < stop and (rounds < 1 or thorough) and rounds < 12:
        cases = []
        for _ in range(per_batch):
            stream = 'lattice' if r.random() < 0.5 else 'float'
            bump(hist['stream'], stream)
            cases.append(random_history(r, stream, hist))
            if time.time() > stop:
                break
        do_batch(cases, 'round%d' % rounds)
        rounds += 1

    for n, sig in enumerate(sorted(found)[:8]):
        d = found[sig]
        if n < 3 and time.time() < hard_stop:
            try:
                d['args'] = shrink(ctx.driver, d['args'], sig, hard_stop)
            except Exception:       # noqa: BLE001 - shrinking is best effort
                pass
        out['disagreements'].append(d)
    out['seconds'] = round(time.time() - t0, 1)
    return out


def replay(ctx, disagreement):
    """Re-run one recorded disagreement on the current tree."""
    args = disagreement['args']
    exp = expected_of(args)
    ok, val = ctx.driver.run([(OP, args)])[0]
    if not ok:
        bad = (0, 'driver error', str(val)[:200])
    else:
        bad = compare_history(args[3], val, exp)[2]
    if not bad:
        return None
    return make_disagreement(args, bad, disagreement.get('seed'))


if __name__ == '__main__':
    class Ctx(object):
        pass
    ctx = Ctx()
    ctx.seed = int(sys.argv[1]) if len(sys.argv) > 1 else int(os.environ.get('VERIF_SEED', '0'))
    ctx.tier = sys.argv[2] if len(sys.argv) > 2 else os.environ.get('VERIF_TIER', 'quick')
    ctx.broken = []
    ctx.driver = lbg.Driver()
    ctx.deadline = time.time() + 3600
    t = time.time()
    res = run(ctx, PROPS[0])
    print('%s seed %s %s: %d requests, %d non-trivial, %d float ties, %d disagreements, %.1f s' % (
        os.path.basename(__file__), ctx.seed, ctx.tier, res['requests'], res['nontrivial'],
        res['float_ties'], len(res['disagreements']), time.time() - t))
    for k, v in sorted(res['histograms'].items()):
        print('  %s: %s' % (k, dict(sorted(v.items(), key=lambda kv: str(kv[0])))))
    for d in res['disagreements']:
        print('DISAGREEMENT', d['signature'], '::', d['what'][:400])
        again = replay(ctx, d)
        print('   replay:', 'reproduced' if again else 'NOT reproduced',
              '(%d ops)' % len(d['args'][3]))
    sys.exit(1 if res['disagreements'] else 0)
