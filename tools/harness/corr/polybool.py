"""Correspondence for the polygon-Boolean models (`Model/Chainer.lean`, `Model/BoolSelect.lean`,
`Model/PolyBool.lean`; driver ops `model.chainer`, `model.select`, `model.select_inverted`,
`model.polybool`, `model.polybool_all`): the real `ladybug_geometry.boolean` and the models are
run on the same inputs and compared stage by stage.

Request groups (all belong to C04):
  chainer   `_segmentChainer(segments, tol)` on shuffled / randomly oriented segment soups:
            outlines of lattice polygons (rectilinear, triangles, convex, stars; several loops
            sharing vertices and edges; extra collinear vertices), the REAL output of the five
            selectors on lattice pairs, random lattice soups with odd-degree vertices, duplicate
            and zero-length segments, and "coarse" soups whose tolerance is larger than the
            lattice pitch (non-transitive `is_equivalent`).  Regions compared EXACTLY, in order.
  select    `_select_union/intersect/difference/difference_rev/xor(_CombinedPolySegments)` on
            segments carrying every combination of fill flags (True / False / None, `otherfill`
            None or present) and the four inversion-flag pairs.  Kept segments, their fills and
            `is_inverted` compared EXACTLY.
  pipeline  `_segments` (both operands), `_combine`, the five selectors and `_polygon`, and the
            public `union / intersect / difference / difference_reversed / xor`, on pairs of
            lattice regions (rectilinear with holes from props/c04.py; lattice triangles, convex
            and star polygons; nested, overlapping, sharing edges and corners, identical,
            disjoint; both orientations; inverted operands; coarse tolerances).  Segment lists
            (with all fill flags, in the order the sweep emits them) and region lists are
            compared structurally exactly and coordinate-wise exactly, or -- when an
            intersection point is not exactly representable -- within 1e-9.
"""
import random
import sys
import time
from fractions import Fraction as F

import lbg

from ladybug_geometry import boolean as pb

PROPS = ['C04']
MODELS = ['LbgVerif/Model/Chainer.lean', 'LbgVerif/Model/BoolSelect.lean',
          'LbgVerif/Model/PolyBool.lean']
REAL = ['ladybug_geometry/boolean.py:_segmentChainer', 'ladybug_geometry/boolean.py:__select',
        'ladybug_geometry/boolean.py:_select_union', 'ladybug_geometry/boolean.py:_select_intersect',
        'ladybug_geometry/boolean.py:_select_difference',
        'ladybug_geometry/boolean.py:_select_difference_rev',
        'ladybug_geometry/boolean.py:_select_xor',
        'ladybug_geometry/boolean.py:_Intersecter', 'ladybug_geometry/boolean.py:_LinkedList',
        'ladybug_geometry/boolean.py:_RegionIntersecter',
        'ladybug_geometry/boolean.py:_SegmentIntersecter',
        'ladybug_geometry/boolean.py:BooleanPoint._lines_intersect',
        'ladybug_geometry/boolean.py:_segments', 'ladybug_geometry/boolean.py:_combine',
        'ladybug_geometry/boolean.py:_polygon', 'ladybug_geometry/boolean.py:union',
        'ladybug_geometry/boolean.py:intersect', 'ladybug_geometry/boolean.py:difference',
        'ladybug_geometry/boolean.py:difference_reversed', 'ladybug_geometry/boolean.py:xor']
TRUSTED = [
    'polybool correspondence: inputs are dyadic lattice points (|c| <= 2^14, pitch >= 1/8), so '
    'every predicate of the sweep is evaluated exactly by the real code EXCEPT where a computed '
    'intersection point enters (one correctly rounded division and one multiply-add per '
    'coordinate); such coordinates are compared within 1e-9 relative and every decision they '
    'feed is a comparison with +-tol, so a disagreement is discarded as a float tie only when '
    'the MODEL answer itself changes under tol*(1 +- 1e-9) (counted in float_ties)',
    'polybool correspondence: the real `while` loop of `_Intersecter.calculate` is run under a '
    'call counter on `_LinkedList.isEmpty` (20000 iterations = the model fuel); the chains left '
    'open by `_segmentChainer` are not observable in the real code (only `regions` is compared)',
    'polybool model: `Polygon2D.boolean_*` (snapping of the second operand, tolerance/1000, '
    'removal of degenerate results) and `union_all / intersect_all / split` are not modelled; '
    'they call exactly the modelled functions',
]

W = lbg.wnum
OPS = [('union', '_select_union', 'union'), ('intersect', '_select_intersect', 'intersect'),
       ('difference', '_select_difference', 'difference'),
       ('difference_rev', '_select_difference_rev', 'difference_reversed'),
       ('xor', '_select_xor', 'xor')]
LOOP_LIMIT = 20000
REL = F(1, 10 ** 9)


# ------------------------------------------------------------------ wire helpers
def wpt(p):
    return [W(p[0]), W(p[1])]


def rpt(j):
    return (F(j[0]), F(j[1]))


def wfill(f):
    return None if f is None else [f[0], f[1]]


def wseg(s):
    """(start, end, myfill(above, below), otherfill | None) -> wire"""
    return [wpt(s[0]), wpt(s[1]), wfill(s[2]), wfill(s[3])]


def rseg(j):
    return (rpt(j[0]), rpt(j[1]), tuple(j[2]), None if j[3] is None else tuple(j[3]))


def real_seg(s):
    mf = pb._Fill(s[2][1], s[2][0])
    of = None if s[3] is None else pb._Fill(s[3][1], s[3][0])
    return pb._Segment(pb.BooleanPoint(*s[0]), pb.BooleanPoint(*s[1]), mf, of)


def seg_of_real(s):
    mf = None if s.myfill is None else (s.myfill.above, s.myfill.below)
    of = None if s.otherfill is None else (s.otherfill.above, s.otherfill.below)
    return ((s.start.x, s.start.y), (s.end.x, s.end.y), mf, of)


def exact_seg(s):
    return ((F(s[0][0]), F(s[0][1])), (F(s[1][0]), F(s[1][1])), s[2], s[3])


class LoopGuard(Exception):
    pass


def guarded(fn):
    """Run fn() with the sweep loop bounded; -> ('ok', value) | ('err', kind)."""
    orig = pb._LinkedList.isEmpty
    cnt = [0]

    def is_empty(self):
        cnt[0] += 1
        if cnt[0] > LOOP_LIMIT:
            raise LoopGuard()
        return orig(self)
    pb._LinkedList.isEmpty = is_empty
    try:
        return ('ok', fn())
    except LoopGuard:
        return ('err', 'fuel')
    except RecursionError:
        return ('err', 'RecursionError')
    except Exception as e:                                   # noqa: BLE001
        msg = str(e)
        if type(e) is Exception and 'Zero-length segment' in msg:
            return ('err', 'zero-length')
        return ('err', type(e).__name__)
    finally:
        pb._LinkedList.isEmpty = orig


# which Python exception each model error stands for
ERR_OF_MODEL = {'zero-length': 'zero-length', 'unlinked': 'AttributeError',
                'nofill': 'AttributeError', 'index': 'IndexError', 'fuel': 'fuel'}


# ------------------------------------------------------------------ comparison
def close(a, b):
    if a == b:
        return True
    return abs(a - b) <= REL * max(1, abs(a), abs(b))


def cmp_pts(ma, ra, st):
    """-> None | text; st['rounded'] counts non-exact matches."""
    if ma == ra:
        st['exact'] = st.get('exact', 0) + 1
        return None
    if not (close(ma[0], ra[0]) and close(ma[1], ra[1])):
        return 'point %s vs %s' % (fmt_pt(ma), fmt_pt(ra))
    st['rounded'] = st.get('rounded', 0) + 1
    return None


def fmt_pt(p):
    return '(%s, %s)' % (float(p[0]), float(p[1]))


def cmp_regions(m, r, st, exact=False):
    if len(m) != len(r):
        return 'number of regions %d vs %d' % (len(m), len(r))
    for k, (a, b) in enumerate(zip(m, r)):
        if len(a) != len(b):
            return 'region %d has %d vs %d points' % (k, len(a), len(b))
        for p, q in zip(a, b):
            if exact:
                if p != q:
                    return 'region %d point %s vs %s' % (k, fmt_pt(p), fmt_pt(q))
            else:
                d = cmp_pts(p, q, st)
                if d:
                    return 'region %d %s' % (k, d)
    return None


def cmp_segs(m, r, st, exact=False):
    if len(m) != len(r):
        return 'number of segments %d vs %d' % (len(m), len(r))
    for k, (a, b) in enumerate(zip(m, r)):
        if a[2] != b[2] or a[3] != b[3]:
            return 'segment %d fills my=%s other=%s vs my=%s other=%s' % (k, a[2], a[3], b[2], b[3])
        for p, q in ((a[0], b[0]), (a[1], b[1])):
            if exact:
                if p != q:
                    return 'segment %d point %s vs %s' % (k, fmt_pt(p), fmt_pt(q))
            else:
                d = cmp_pts(p, q, st)
                if d:
                    return 'segment %d %s' % (k, d)
    return None


# ------------------------------------------------------------------ shapes
def cross(o, a, b):
    return (a[0] - o[0]) * (b[1] - o[1]) - (a[1] - o[1]) * (b[0] - o[0])


def hull(pts):
    pts = sorted(set(pts))
    if len(pts) < 3:
        return pts
    lo, up = [], []
    for p in pts:
        while len(lo) >= 2 and cross(lo[-2], lo[-1], p) <= 0:
            lo.pop()
        lo.append(p)
    for p in reversed(pts):
        while len(up) >= 2 and cross(up[-2], up[-1], p) <= 0:
            up.pop()
        up.append(p)
    return lo[:-1] + up[:-1]


def lattice_triangle(rng, g):
    for _ in range(50):
        t = [(rng.randint(0, g), rng.randint(0, g)) for _ in range(3)]
        if cross(t[0], t[1], t[2]) != 0:
            return t if cross(t[0], t[1], t[2]) > 0 else [t[0], t[2], t[1]]
    return [(0, 0), (g, 0), (0, g)]


def lattice_convex(rng, g):
    for _ in range(50):
        h = hull([(rng.randint(0, g), rng.randint(0, g)) for _ in range(rng.randint(4, 8))])
        if len(h) >= 3:
            return h
    return [(0, 0), (g, 0), (g, g), (0, g)]


def lattice_star(rng, g):
    """Star-shaped lattice polygon around a half-lattice centre: vertices sorted by angle (exact,
    by quadrant and cross product), one per direction."""
    import math
    c2 = (2 * rng.randint(1, g - 1) + 1, 2 * rng.randint(1, g - 1) + 1)   # centre * 2
    best = {}
    for _ in range(rng.randint(5, 10)):
        p = (rng.randint(0, g), rng.randint(0, g))
        v = (2 * p[0] - c2[0], 2 * p[1] - c2[1])
        gg = math.gcd(abs(v[0]), abs(v[1]))
        d = (v[0] // gg, v[1] // gg)
        if d not in best or rng.random() < 0.5:
            best[d] = p
    ds = sorted(best, key=lambda d: math.atan2(d[1], d[0]))
    pts = [best[d] for d in ds]
    # the centre must be strictly inside: no angular gap >= pi
    n = len(pts)
    if n < 3:
        return lattice_convex(rng, g)
    for k in range(n):
        a, b = ds[k], ds[(k + 1) % n]
        if a[0] * b[1] - a[1] * b[0] <= 0:
            return lattice_convex(rng, g)
    return pts


def tri_pair(rng):
    """Two lattice loops (triangle / convex / star) on a small grid, related in a random way."""
    g = rng.choice([3, 4, 4, 6, 8])
    mk = lambda: rng.choice([lattice_triangle, lattice_triangle, lattice_convex, lattice_star])(rng, g)   # noqa: E731
    A = mk()
    how = rng.choice(['random', 'random', 'random', 'vertex', 'edge', 'identical', 'nested', 'far',
                      'shift'])
    if how == 'identical':
        B = list(A)
    elif how == 'nested':
        B = list(A)
        A = [(3 * x - g, 3 * y - g) for (x, y) in A]
    elif how == 'far':
        B = [(x + g + rng.randint(1, 3), y + rng.randint(-1, 1)) for (x, y) in mk()]
    elif how == 'shift':
        dx, dy = rng.choice([(1, 0), (0, 1), (1, 1), (-1, 2), (2, 0)])
        B = [(x + dx, y + dy) for (x, y) in A]
    elif how == 'vertex':
        B = mk()
        va, vb = rng.choice(A), rng.choice(B)
        B = [(x + va[0] - vb[0], y + va[1] - vb[1]) for (x, y) in B]
    elif how == 'edge':
        # B contains an edge (or part of an edge) of A
        k = rng.randrange(len(A))
        a, b = A[k], A[(k + 1) % len(A)]
        if rng.random() < 0.5:
            b = ((a[0] + b[0]) // 2, (a[1] + b[1]) // 2) if (a[0] + b[0]) % 2 == 0 and \
                (a[1] + b[1]) % 2 == 0 and ((a[0] + b[0]) // 2, (a[1] + b[1]) // 2) != a else b
        for _ in range(30):
            c = (rng.randint(0, g), rng.randint(0, g))
            if cross(a, b, c) != 0:
                break
        else:
            c = (a[0] - (b[1] - a[1]), a[1] + (b[0] - a[0]))
        B = [a, b, c]
    else:
        B = mk()
    return A, B, how


def variant(rng, lp, collinear=True):
    lp = list(lp)
    if collinear and rng.random() < 0.2:
        out = []
        for k in range(len(lp)):
            a, b = lp[k], lp[(k + 1) % len(lp)]
            out.append(a)
            if (a[0] + b[0]) % 2 == 0 and (a[1] + b[1]) % 2 == 0 and rng.random() < 0.5:
                out.append(((a[0] + b[0]) // 2, (a[1] + b[1]) // 2))
        lp = out
    if rng.random() < 0.5:
        lp.reverse()
    k = rng.randrange(len(lp))
    return lp[k:] + lp[:k]


def pow2_frame(rng):
    s = rng.choice([F(1), F(1), F(2), F(1, 2), F(1, 4), F(8), F(64)])
    if rng.random() < 0.5:
        return s, F(0), F(0)
    return s, s * rng.randint(-200, 200), s * rng.randint(-200, 200)


def frame_pts(lp, fr):
    s, ox, oy = fr
    out = []
    for (i, j) in lp:
        x, y = float(ox + s * i), float(oy + s * j)
        out.append((x, y))
    return out


TOLS = [1e-5, 1e-5, 1e-6, 1e-6, 2.0 ** -20, 1e-3 / 1000, 1e-2 / 1000, 2.0 ** -10]
COARSE_TOLS = [0.3, 0.6, 1.1, 0.26, 0.51, 2.0 ** -2 + 2.0 ** -20]


def pair_case(rng, c04, cc, kind):
    """-> dict(A=[loops of float pts], B=…, invA, invB, tol, label) or None"""
    if kind == 'rect':
        cs = c04.gen_lattice_pair(rng)
        if cs is None:
            return None
        fr = tuple(F(x) for x in cs['frame'])
        A = [cc.to_real(lp, fr) for lp in cs['A']]
        B = [cc.to_real(lp, fr) for lp in cs['B']]
        tol = rng.choice(TOLS)
        label = 'rect/%s/%s' % (cs['how'], cs['rel'])
    elif kind == 'tri':
        a, b, how = tri_pair(rng)
        fr = pow2_frame(rng)
        A = [frame_pts(variant(rng, a), fr)]
        B = [frame_pts(variant(rng, b), fr)]
        tol = rng.choice(TOLS)
        label = 'tri/%s' % how
    elif kind == 'mixed':
        # a rectilinear shape against a lattice triangle / convex polygon
        _, ca = cc.lattice_shape(rng)
        a = cc.outline(ca)
        g = max(max(p[0] for p in a), max(p[1] for p in a), 3)
        b = rng.choice([lattice_triangle, lattice_convex, lattice_star])(rng, g)
        fr = pow2_frame(rng)
        A = [frame_pts(variant(rng, a), fr)]
        B = [frame_pts(variant(rng, b), fr)]
        if rng.random() < 0.5:
            A, B = B, A
        tol = rng.choice(TOLS)
        label = 'mixed'
    elif kind == 'coarse':
        # pitch 1/4 .. 1 and a tolerance of the same order: merges, zero-length, odd branches
        if rng.random() < 0.5:
            a, b, how = tri_pair(rng)
        else:
            _, ca = cc.lattice_shape(rng)
            _, cb = cc.lattice_shape(rng)
            cb = cc.place(rng, ca, cb, rng.choice(['random', 'vertex', 'edge']))
            a, b, how = cc.outline(ca), cc.outline(cb), 'rect'
        s = rng.choice([F(1), F(1, 2), F(1, 4)])
        fr = (s, F(0), F(0))
        A = [frame_pts(variant(rng, a), fr)]
        B = [frame_pts(variant(rng, b), fr)]
        tol = rng.choice(COARSE_TOLS) * float(s) * rng.choice([1, 1, 2])
        label = 'coarse/%s' % how
    elif kind == 'multi':
        # operands with several regions (overlapping / self-touching region lists, bow-ties)
        g = 5
        A = [frame_pts(variant(rng, lattice_triangle(rng, g)), (F(1), F(0), F(0)))
             for _ in range(rng.randint(1, 3))]
        B = [frame_pts(variant(rng, lattice_convex(rng, g)), (F(1), F(0), F(0)))
             for _ in range(rng.randint(1, 2))]
        if rng.random() < 0.4:
            n = rng.randint(4, 6)
            A.append([(float(rng.randint(0, g)), float(rng.randint(0, g))) for _ in range(n)])
        tol = rng.choice(TOLS)
        label = 'multi'
    else:
        raise ValueError(kind)
    inv = rng.random()
    invA = inv > 0.85
    invB = 0.80 < inv < 0.93
    return {'A': A, 'B': B, 'invA': invA, 'invB': invB, 'tol': tol, 'label': label}


PINNED_PAIRS = [
    # (label, A regions, B regions, invA, invB, tol)
    ('squares-overlap', [[(0., 0.), (4., 0.), (4., 4.), (0., 4.)]], [[(2., 2.), (6., 2.), (6., 6.), (2., 6.)]],
     False, False, 1e-6),
    ('squares-share-edge', [[(0., 0.), (4., 0.), (4., 4.), (0., 4.)]], [[(4., 0.), (8., 0.), (8., 4.), (4., 4.)]],
     False, False, 1e-6),
    ('squares-share-corner', [[(0., 0.), (4., 0.), (4., 4.), (0., 4.)]], [[(4., 4.), (8., 4.), (8., 8.), (4., 8.)]],
     False, False, 1e-6),
    ('identical', [[(0., 0.), (4., 0.), (4., 4.), (0., 4.)]], [[(4., 4.), (0., 4.), (0., 0.), (4., 0.)]],
     False, False, 1e-6),
    ('nested', [[(0., 0.), (8., 0.), (8., 8.), (0., 8.)]], [[(2., 2.), (6., 2.), (6., 6.), (2., 6.)]],
     False, False, 1e-6),
    ('disjoint', [[(0., 0.), (1., 0.), (1., 1.), (0., 1.)]], [[(3., 0.), (4., 0.), (4., 1.), (3., 1.)]],
     False, False, 1e-6),
    ('hole-vs-square', [[(0., 0.), (8., 0.), (8., 8.), (0., 8.)], [(2., 2.), (2., 6.), (6., 6.), (6., 2.)]],
     [[(4., 4.), (10., 4.), (10., 10.), (4., 10.)]], False, False, 1e-6),
    ('triangles-cross', [[(0., 0.), (6., 0.), (3., 5.)]], [[(0., 4.), (3., -1.), (6., 4.)]],
     False, False, 1e-6),
    ('triangle-thirds', [[(0., 0.), (3., 0.), (0., 3.)]], [[(1., -1.), (2., 3.), (-1., 2.)]],
     False, False, 1e-6),
    ('inverted-A', [[(0., 0.), (4., 0.), (4., 4.), (0., 4.)]], [[(2., 2.), (6., 2.), (6., 6.), (2., 6.)]],
     True, False, 1e-6),
    ('inverted-both', [[(0., 0.), (4., 0.), (4., 4.), (0., 4.)]], [[(2., 2.), (6., 2.), (6., 6.), (2., 6.)]],
     True, True, 1e-6),
    ('bow-tie', [[(0., 0.), (4., 4.), (4., 0.), (0., 4.)]], [[(1., 1.), (5., 1.), (5., 3.), (1., 3.)]],
     False, False, 1e-6),
    ('duplicate-vertex', [[(0., 0.), (4., 0.), (4., 0.), (4., 4.), (0., 4.)]],
     [[(2., 2.), (6., 2.), (6., 6.), (2., 6.)]], False, False, 1e-6),
    ('empty-region', [[]], [[(2., 2.), (6., 2.), (6., 6.), (2., 6.)]], False, False, 1e-6),
    ('no-regions', [], [[(2., 2.), (6., 2.), (6., 6.), (2., 6.)]], False, False, 1e-6),
    ('two-point-region', [[(0., 0.), (4., 0.)]], [[(2., -2.), (6., -2.), (6., 6.), (2., 6.)]],
     False, False, 1e-6),
    ('coarse-merge', [[(0., 0.), (1., 0.), (1., 1.), (0., 1.)]], [[(0.5, 0.), (2., 0.), (2., 1.), (0.5, 1.)]],
     False, False, 0.6),
    # the open finding of C04 (`known_findings.json`, 'zero-length-segment|steep-edge'): the operands
    # exactly as Polygon2D.boolean_union hands them to boolean.union (second snapped to first,
    # tolerance 0.01 / 1000)
    ('finding-zero-length-steep-edge',
     [[(5.54345, 4.28454), (4.56839, 4.73985), (4.79873, 5.192)]],
     [[(5.43397, 4.86834), (5.27445, 3.51164), (5.43402, 3.68823)]], False, False, 1e-5),
]


def soup_of_loops(rng, loops, shuffle=True):
    segs = []
    for lp in loops:
        n = len(lp)
        for k in range(n):
            a, b = lp[k], lp[(k + 1) % n]
            segs.append((a, b) if rng.random() < 0.5 else (b, a))
    if shuffle:
        rng.shuffle(segs)
    return segs


PINNED_SOUPS = [
    ('square', [((0., 0.), (1., 0.)), ((1., 0.), (1., 1.)), ((1., 1.), (0., 1.)), ((0., 1.), (0., 0.))], 1e-6),
    ('square-mixed', [((0., 0.), (1., 0.)), ((1., 1.), (1., 0.)), ((0., 1.), (1., 1.)), ((0., 1.), (0., 0.))], 1e-6),
    ('square-join', [((0., 0.), (1., 0.)), ((1., 1.), (0., 1.)), ((1., 0.), (1., 1.)), ((0., 1.), (0., 0.))], 1e-6),
    ('two-heads', [((0., 0.), (1., 0.)), ((0., 1.), (0., 2.)), ((0., 0.), (0., 1.)), ((1., 0.), (0., 2.))], 1e-6),
    ('two-tails', [((1., 0.), (0., 0.)), ((0., 2.), (0., 1.)), ((0., 0.), (0., 1.)), ((1., 0.), (0., 2.))], 1e-6),
    ('collinear-mid', [((0., 0.), (1., 0.)), ((1., 0.), (2., 0.)), ((2., 0.), (2., 2.)), ((2., 2.), (0., 0.))], 1e-6),
    ('collinear-close', [((1., 0.), (2., 0.)), ((2., 0.), (2., 2.)), ((2., 2.), (0., 0.)), ((0., 0.), (1., 0.))], 1e-6),
    ('collinear-join', [((0., 0.), (1., 0.)), ((2., 0.), (3., 0.)), ((1., 0.), (2., 0.)), ((3., 0.), (0., 3.)),
                        ((0., 3.), (0., 0.))], 1e-6),
    ('duplicate-segment', [((0., 0.), (1., 0.)), ((1., 0.), (0., 0.))], 1e-6),
    ('zero-length', [((0., 0.), (0., 0.)), ((0., 0.), (1., 0.)), ((1., 0.), (0., 1.)), ((0., 1.), (0., 0.))], 1e-6),
    ('open-chain', [((0., 0.), (1., 0.)), ((1., 0.), (1., 1.))], 1e-6),
    ('odd-vertex', [((0., 0.), (1., 0.)), ((1., 0.), (1., 1.)), ((1., 1.), (0., 0.)), ((1., 1.), (2., 2.))], 1e-6),
    ('figure-eight', [((0., 0.), (1., 1.)), ((1., 1.), (0., 2.)), ((0., 2.), (0., 0.)), ((1., 1.), (2., 0.)),
                      ((2., 0.), (2., 2.)), ((2., 2.), (1., 1.))], 1e-6),
    ('empty', [], 1e-6),
    ('coarse', [((0., 0.), (1., 0.)), ((1.25, 0.), (1.25, 1.)), ((1., 1.), (0., 0.))], 0.3),
]


# ------------------------------------------------------------------ real code
def real_chainer(soup, tol):
    segs = [pb._Segment(pb.BooleanPoint(*a), pb.BooleanPoint(*b)) for (a, b) in soup]
    st, v = guarded(lambda: pb._segmentChainer(segs, tol))
    if st == 'err':
        return ('err', v)
    return ('ok', [[(F(p.x), F(p.y)) for p in reg] for reg in v])


def real_select(segs, selname, inv1, inv2):
    comb = pb._CombinedPolySegments([real_seg(s) for s in segs], inv1, inv2)
    st, v = guarded(lambda: getattr(pb, selname)(comb))
    if st == 'err':
        return ('err', v)
    return ('ok', ([exact_seg(seg_of_real(s)) for s in v.segments], v.is_inverted))


def bpoly(regions, inv):
    return pb.BooleanPolygon([[pb.BooleanPoint(x, y) for (x, y) in lp] for lp in regions], inv)


def real_pipeline(case):
    """Every stage of `__operate` on the real code."""
    tol = case['tol']
    out = {}
    s1 = guarded(lambda: pb._segments(bpoly(case['A'], case['invA']), tol))
    s2 = guarded(lambda: pb._segments(bpoly(case['B'], case['invB']), tol))
    for k, s in (('segments1', s1), ('segments2', s2)):
        out[k] = s if s[0] == 'err' else ('ok', [exact_seg(seg_of_real(x)) for x in s[1].segments])
    if s1[0] == 'err' or s2[0] == 'err':
        out['combined'] = ('err', s1[1] if s1[0] == 'err' else s2[1])
        comb = None
    else:
        c = guarded(lambda: pb._combine(s1[1], s2[1], tol))
        comb = c[1] if c[0] == 'ok' else None
        out['combined'] = c if c[0] == 'err' else \
            ('ok', [exact_seg(seg_of_real(x)) for x in c[1].combined])
    out['ops'] = {}
    for (name, selname, pubname) in OPS:
        ent = {}
        if comb is not None:
            sel = guarded(lambda: getattr(pb, selname)(comb))
            if sel[0] == 'ok':
                ent['selected'] = ('ok', [exact_seg(seg_of_real(x)) for x in sel[1].segments])
            else:
                ent['selected'] = sel
        pub = guarded(lambda: getattr(pb, pubname)(bpoly(case['A'], case['invA']),
                                                  bpoly(case['B'], case['invB']), tol))
        if pub[0] == 'ok':
            ent['public'] = ('ok', ([[(F(p.x), F(p.y)) for p in reg] for reg in pub[1].regions],
                                    pub[1].is_inverted))
        else:
            ent['public'] = pub
        out['ops'][name] = ent
    return out


# ------------------------------------------------------------------ requests
def req_chainer(soup, tol):
    return ('model.chainer', [[[wpt(a), wpt(b)] for (a, b) in soup], W(tol)])


def req_select(segs, opname):
    return ('model.select', [[wseg(s) for s in segs], opname])


def req_all(case, tol=None):
    return ('model.polybool_all', [[[wpt(p) for p in lp] for lp in case['A']], case['invA'],
                                   [[wpt(p) for p in lp] for lp in case['B']], case['invB'],
                                   W(case['tol'] if tol is None else tol)])


def req_polybool(case, opname):
    return ('model.polybool', [[[wpt(p) for p in lp] for lp in case['A']], case['invA'],
                               [[wpt(p) for p in lp] for lp in case['B']], case['invB'],
                               opname, W(case['tol'])])


# ------------------------------------------------------------------ judging
def stage_of_model(j):
    if 'err' in j:
        return ('err', j['err'])
    return ('ok', [rseg(s) for s in j['ok']])


def cmp_stage(m, r, st, what):
    """m, r = ('ok', value) | ('err', kind).  -> None | (what-differs, text)"""
    if m[0] == 'err' or r[0] == 'err':
        me = ERR_OF_MODEL.get(m[1], m[1]) if m[0] == 'err' else None
        re_ = r[1] if r[0] == 'err' else None
        if me == re_:
            st['errors'] = st.get('errors', 0) + 1
            return None
        if re_ is not None and me is None:
            return ('raises %s' % re_, 'real raises %s, model returns a value' % re_)
        if re_ is None:
            return ('model error %s' % m[1], 'model: %s, real returns a value' % m[1])
        return ('raises %s' % re_, 'real raises %s, model: %s' % (re_, m[1]))
    d = what(m[1], r[1], st)
    return None if d is None else ('differs', d)


def judge_pipeline(ans, real, st):
    """-> None | (stage, what, text)"""
    ok, val = ans
    if not ok:
        return ('driver', 'model error', str(val))
    for stage in ('segments1', 'segments2', 'combined'):
        d = cmp_stage(stage_of_model(val[stage]), real[stage], st, cmp_segs)
        if d is not None:
            return (stage if stage == 'combined' else 'segments', d[0], d[1])
    for (name, _, _) in OPS:
        ent = real['ops'][name]
        mo = val['ops'].get(name)
        if 'selected' in ent:
            m = ('ok', [rseg(s) for s in mo['selected']]) if mo is not None else ('err', 'missing')
            d = cmp_stage(m, ent['selected'], st, lambda a, b, s: cmp_segs(a, b, s, exact=False))
            if d is not None:
                return ('select.' + name, d[0], d[1])
        pub = ent['public']
        if mo is None:
            # the model failed before selection: the public call must fail the same way
            cerr = stage_of_model(val['combined'])
            d = cmp_stage(cerr, pub if pub[0] == 'err' else ('ok', None), st, lambda a, b, s: None)
            if d is not None:
                return (name, d[0], d[1])
            continue
        m = ('ok', ([[rpt(p) for p in reg] for reg in mo['regions']], mo['inverted']))

        def cmp_pub(a, b, s):
            if a[1] != b[1]:
                return 'is_inverted %s vs %s' % (a[1], b[1])
            return cmp_regions(a[0], b[0], s)
        d = cmp_stage(m, pub, st, cmp_pub)
        if d is not None:
            return (name, d[0], d[1])
    return None


# ------------------------------------------------------------------ cases
class Case(object):
    __slots__ = ('group', 'label', 'data', 'reqs', 'real')

    def __init__(self, group, label, data):
        self.group, self.label, self.data = group, label, data
        self.reqs, self.real = None, None


def rand_fill(rng):
    return (rng.choice([True, False, True, False, None]), rng.choice([True, False, True, False, None]))


def build_cases(ctx, groups):
    from props import c04
    from props import cellbool_common as cc
    thorough = ctx.tier != 'quick' or bool(ctx.broken)
    rng = random.Random('%s/polybool-corr' % ctx.seed)
    cases = []
    # ---------------- select
    if 'select' in groups:
        # exhaustive: all 16 bool combinations (+ None variants) in one list, all ops, all flags
        full = []
        k = 0
        for a1 in (True, False, None):
            for b1 in (True, False, None):
                for of in [None] + [(a2, b2) for a2 in (True, False, None) for b2 in (True, False, None)]:
                    full.append(((float(k), 0.0), (float(k), 1.0), (a1, b1), of))
                    k += 1
        for (name, selname, _) in OPS:
            for inv1 in (False, True):
                for inv2 in (False, True):
                    cases.append(Case('select', 'exhaustive/%s/%s%s' % (name, inv1, inv2),
                                      {'segs': full, 'op': name, 'sel': selname, 'inv1': inv1,
                                       'inv2': inv2}))
        for _ in range(300 if thorough else 10):
            n = rng.randint(0, 12)
            segs = []
            for _k in range(n):
                p = (float(rng.randint(-4, 4)), float(rng.randint(-4, 4)))
                q = (float(rng.randint(-4, 4)), float(rng.randint(-4, 4)))
                segs.append((p, q, rand_fill(rng), None if rng.random() < 0.2 else rand_fill(rng)))
            (name, selname, _) = rng.choice(OPS)
            cases.append(Case('select', 'random/%s' % name,
                              {'segs': segs, 'op': name, 'sel': selname,
                               'inv1': rng.random() < 0.5, 'inv2': rng.random() < 0.5}))
    # ---------------- pipeline
    pairs = []
    if 'pipeline' in groups or 'chainer' in groups:
        for (label, A, B, ia, ib, tol) in PINNED_PAIRS:
            pairs.append({'A': A, 'B': B, 'invA': ia, 'invB': ib, 'tol': tol, 'label': 'pinned/' + label})
        n_pairs = 2600 if thorough else 70
        kinds = ['rect', 'rect', 'tri', 'tri', 'tri', 'mixed', 'coarse', 'multi']
        made = tries = 0
        while made < n_pairs and tries < 10 * n_pairs:
            tries += 1
            try:
                cs = pair_case(rng, c04, cc, kinds[made % len(kinds)])
            except (AssertionError, ValueError, IndexError):
                cs = None
            if cs is None:
                continue
            if sum(len(lp) for lp in cs['A'] + cs['B']) > 70:
                continue
            made += 1
            pairs.append(cs)
    if 'pipeline' in groups:
        for cs in pairs:
            cases.append(Case('pipeline', cs['label'], cs))
    # ---------------- chainer
    if 'chainer' in groups:
        for (label, soup, tol) in PINNED_SOUPS:
            cases.append(Case('chainer', 'pinned/' + label, {'soup': soup, 'tol': tol}))
        # outlines of the pair shapes, shuffled
        for cs in pairs[len(PINNED_PAIRS):][:(1200 if thorough else 40)]:
            loops = [lp for lp in cs['A'] + cs['B'] if len(lp) >= 2]
            if rng.random() < 0.5:
                loops = loops[:1]
            soup = soup_of_loops(rng, loops)
            if rng.random() < 0.2 and soup:
                soup.pop(rng.randrange(len(soup)))            # leaves an open chain
            if rng.random() < 0.1 and soup:
                soup.append(soup[rng.randrange(len(soup))])   # duplicate segment
            cases.append(Case('chainer', 'outline/' + cs['label'].split('/')[0],
                              {'soup': soup, 'tol': cs['tol']}))
        # the REAL selected segments of lattice pairs, shuffled and re-oriented
        for cs in pairs[:(900 if thorough else 30)]:
            try:
                s1 = pb._segments(bpoly(cs['A'], cs['invA']), cs['tol'])
                s2 = pb._segments(bpoly(cs['B'], cs['invB']), cs['tol'])
                comb = pb._combine(s1, s2, cs['tol'])
                (name, selname, _) = rng.choice(OPS)
                sel = getattr(pb, selname)(comb)
            except Exception:                               # noqa: BLE001
                continue
            soup = [((s.start.x, s.start.y), (s.end.x, s.end.y)) for s in sel.segments]
            mode = rng.choice(['asis', 'shuffle', 'shuffle', 'flip'])
            if mode != 'asis':
                soup = [(a, b) if rng.random() < 0.5 else (b, a) for (a, b) in soup]
            if mode == 'shuffle':
                rng.shuffle(soup)
            cases.append(Case('chainer', 'selected/%s/%s' % (name, mode),
                              {'soup': soup, 'tol': cs['tol']}))
        # random lattice soups
        for _ in range(1500 if thorough else 50):
            g = rng.choice([2, 3, 4])
            n = rng.randint(1, 14)
            s = rng.choice([1.0, 0.5, 0.25])
            soup = []
            for _k in range(n):
                a = (rng.randint(0, g) * s, rng.randint(0, g) * s)
                b = (rng.randint(0, g) * s, rng.randint(0, g) * s)
                soup.append((a, b))
            coarse = rng.random() < 0.4
            tol = rng.choice(COARSE_TOLS) * s if coarse else rng.choice(TOLS)
            cases.append(Case('chainer', 'soup/%s' % ('coarse' if coarse else 'fine'),
                              {'soup': soup, 'tol': tol}))
    return cases


def requests_of(case):
    d = case.data
    if case.group == 'chainer':
        return [req_chainer(d['soup'], d['tol'])]
    if case.group == 'select':
        return [req_select(d['segs'], d['op']),
                ('model.select_inverted', [d['op'], d['inv1'], d['inv2']])]
    # pipeline: all stages in one request + the single-operation entry point for one op
    return [req_all(d), req_polybool(d, 'union')]


def run_real(case):
    try:
        return run_real_(case)
    except Exception as e:                                   # noqa: BLE001
        r = ('err', 'harness:%s' % type(e).__name__)
        if case.group == 'pipeline':
            return {'segments1': r, 'segments2': r, 'combined': r,
                    'ops': dict((o[0], {'public': r}) for o in OPS)}
        return r


def run_real_(case):
    d = case.data
    if case.group == 'chainer':
        return real_chainer(d['soup'], d['tol'])
    if case.group == 'select':
        return real_select(d['segs'], d['sel'], d['inv1'], d['inv2'])
    return real_pipeline(d)


def judge(case, answers, real, st):
    """-> None | (signature, text, model_value)"""
    d = case.data
    if case.group == 'chainer':
        ok, val = answers[0]
        m = ('ok', [[rpt(p) for p in reg] for reg in val['regions']]) if ok else ('err', val)
        r = cmp_stage(m, real, st, lambda a, b, s: cmp_regions(a, b, s, exact=True))
        if r is None:
            return None
        return ('chainer|%s' % r[0], r[1], val)
    if case.group == 'select':
        ok, val = answers[0]
        ok2, inv = answers[1]
        if not ok or not ok2:
            m = ('err', val if not ok else inv)
        else:
            m = ('ok', ([rseg(s) for s in val], inv))

        def cmp_sel(a, b, s):
            if a[1] != b[1]:
                return 'is_inverted %s vs %s' % (a[1], b[1])
            return cmp_segs(a[0], b[0], s, exact=True)
        r = cmp_stage(m, real, st, cmp_sel)
        if r is None:
            return None
        return ('select.%s|%s' % (d['op'], r[0]), r[1], val)
    r = judge_pipeline(answers[0], real, st)
    if r is not None:
        return ('pipeline.%s|%s' % (r[0], r[1]), r[2], None)
    # `model.polybool` (single operation) must agree with the staged answer
    ok, val = answers[1]
    pub = real['ops']['union']['public']
    if ok:
        m = ('ok', ([[rpt(p) for p in reg] for reg in val['regions']], val['inverted']))
    else:
        m = ('err', val)

    def cmp_pub(a, b, s):
        if a[1] != b[1]:
            return 'is_inverted %s vs %s' % (a[1], b[1])
        return cmp_regions(a[0], b[0], s)
    r2 = cmp_stage(m, pub, st, cmp_pub)
    if r2 is not None:
        return ('pipeline.polybool|%s' % r2[0], r2[1], val if not ok else None)
    return None


def is_float_tie(ctx, case):
    """A disagreement is a float tie when the model's own answer changes under a relative
    perturbation of the tolerance by 1e-9."""
    d = case.data
    tol = F(d['tol'])
    reqs = []
    for f in (1 - REL, 1 + REL):
        t = tol * f
        if case.group == 'chainer':
            reqs.append(('model.chainer', [[[wpt(a), wpt(b)] for (a, b) in d['soup']], W(t)]))
        elif case.group == 'pipeline':
            reqs.append(req_all(d, tol=t))
        else:
            return False
    base = requests_of(case)[0]
    try:
        ans = ctx.driver.run([base] + reqs)
    except lbg.DriverError:
        return False
    return ans[1] != ans[0] or ans[2] != ans[0]


def nontrivial(case, real):
    if case.group == 'chainer':
        return real[0] == 'ok' and len(real[1]) >= 1
    if case.group == 'select':
        return real[0] == 'ok' and 0 < len(real[1][0]) < len(case.data['segs'])
    c = real['combined']
    if c[0] != 'ok':
        return False
    n_in = sum(len(lp) for lp in case.data['A'] + case.data['B'])
    return len(c[1]) > n_in or any(s[3] is not None and s[3][0] != s[3][1] for s in c[1])


def hexcase(case):
    d = case.data

    def hp(p):
        return [float(p[0]).hex(), float(p[1]).hex()]
    if case.group == 'chainer':
        return {'soup': [[hp(a), hp(b)] for (a, b) in d['soup']], 'tol': float(d['tol']).hex()}
    if case.group == 'select':
        return {'segs': [[hp(s[0]), hp(s[1]), list(s[2]), None if s[3] is None else list(s[3])]
                         for s in d['segs']], 'op': d['op'], 'sel': d['sel'],
                'inv1': d['inv1'], 'inv2': d['inv2']}
    return {'A': [[hp(p) for p in lp] for lp in d['A']], 'B': [[hp(p) for p in lp] for lp in d['B']],
            'invA': d['invA'], 'invB': d['invB'], 'tol': float(d['tol']).hex(), 'label': d['label']}


def unhexcase(group, h):
    def up(p):
        return (float.fromhex(p[0]), float.fromhex(p[1]))
    if group == 'chainer':
        return {'soup': [(up(a), up(b)) for (a, b) in h['soup']], 'tol': float.fromhex(h['tol'])}
    if group == 'select':
        return {'segs': [(up(s[0]), up(s[1]), tuple(s[2]), None if s[3] is None else tuple(s[3]))
                         for s in h['segs']], 'op': h['op'], 'sel': h['sel'],
                'inv1': h['inv1'], 'inv2': h['inv2']}
    return {'A': [[up(p) for p in lp] for lp in h['A']], 'B': [[up(p) for p in lp] for lp in h['B']],
            'invA': h['invA'], 'invB': h['invB'], 'tol': float.fromhex(h['tol']),
            'label': h.get('label', 'replay')}


def evaluate(ctx, cases, st):
    """Run model and real on the cases; -> list of (case, real, verdict)"""
    reqs, spans = [], []
    for c in cases:
        r = requests_of(c)
        spans.append((len(reqs), len(r)))
        reqs += r
    answers = ctx.driver.run(reqs)
    out = []
    for c, (o, n) in zip(cases, spans):
        real = run_real(c)
        out.append((c, real, judge(c, answers[o:o + n], real, st), answers[o:o + n]))
    return out


def shrink(ctx, case, sig, deadline):
    """Greedy removal of segments / vertices / loops keeping the signature (batched)."""
    cur = case
    for _ in range(10):
        if time.time() > deadline:
            break
        d = cur.data
        cands = []
        if cur.group == 'chainer':
            for k in range(len(d['soup'])):
                cands.append({'soup': d['soup'][:k] + d['soup'][k + 1:], 'tol': d['tol']})
        elif cur.group == 'select':
            for k in range(len(d['segs'])):
                nd = dict(d)
                nd['segs'] = d['segs'][:k] + d['segs'][k + 1:]
                cands.append(nd)
        else:
            for key in ('A', 'B'):
                for li, lp in enumerate(d[key]):
                    nd = dict(d)
                    nd[key] = d[key][:li] + d[key][li + 1:]
                    cands.append(nd)
                    if len(lp) > 3:
                        for k in range(len(lp)):
                            nd = dict(d)
                            nd[key] = d[key][:li] + [lp[:k] + lp[k + 1:]] + d[key][li + 1:]
                            cands.append(nd)
        cands = cands[:60]
        if not cands:
            break
        cs = [Case(cur.group, cur.label, nd) for nd in cands]
        try:
            res = evaluate(ctx, cs, {})
        except lbg.DriverError:
            break
        nxt = None
        for (c, real, v, _a) in res:
            if v is not None and v[0] == sig:
                nxt = c
                break
        if nxt is None:
            break
        cur = nxt
    return cur


def record(case, verdict, real, seed):
    def brief(x):
        s = repr(x)
        return s if len(s) < 1500 else s[:1500] + '…'
    reqs = requests_of(case)
    return {'signature': verdict[0], 'what': '%s (%s): %s' % (case.label, case.group, verdict[1]),
            'op': reqs[0][0], 'args': reqs[0][1], 'group': case.group, 'case': hexcase(case),
            'model': brief(verdict[2]), 'real': brief(real), 'seed': seed}


def run(ctx, prop):
    empty = {'requests': 0, 'nontrivial': 0, 'rule': '', 'disagreements': [], 'float_ties': 0,
             'histograms': {}, 'samples': []}
    if prop not in PROPS:
        return empty
    t0 = time.time()
    thorough = ctx.tier != 'quick' or bool(ctx.broken)
    budget = 270 if thorough else 17
    deadline = min(ctx.deadline, t0 + budget)
    cases = build_cases(ctx, ('chainer', 'select', 'pipeline'))
    hist = {'group': {}, 'label': {}, 'errors': {}, 'rounded_points': 0, 'exact_points': 0,
            'chainer_regions': {}, 'chainer_open': 0, 'combined_growth': {}}
    disagreements, seen = [], set()
    samples = []
    done = nontr = ties = tie_checks = 0
    # interleave the groups so that a deadline cuts all of them evenly
    order = sorted(range(len(cases)), key=lambda i: (not cases[i].label.startswith('pinned'),
                                                     i % 11))
    B = 150 if thorough else 60
    pos = 0
    while pos < len(order) and time.time() < deadline:
        batch = [cases[i] for i in order[pos:pos + B]]
        pos += B
        st = {}
        try:
            res = evaluate(ctx, batch, st)
        except lbg.DriverError as e:
            disagreements.append({'signature': 'driver|error', 'what': str(e)[-400:], 'op': None,
                                  'args': None, 'model': None, 'real': None, 'seed': ctx.seed})
            break
        hist['rounded_points'] += st.get('rounded', 0)
        hist['exact_points'] += st.get('exact', 0)
        for (c, real, v, ans) in res:
            done += 1
            hist['group'][c.group] = hist['group'].get(c.group, 0) + 1
            lab = c.group + ':' + '/'.join(c.label.split('/')[:2])
            hist['label'][lab] = hist['label'].get(lab, 0) + 1
            if nontrivial(c, real):
                nontr += 1
            if c.group == 'chainer':
                if real[0] == 'ok':
                    k = str(min(len(real[1]), 4))
                    hist['chainer_regions'][k] = hist['chainer_regions'].get(k, 0) + 1
                    if ans[0][0] and ans[0][1].get('open'):
                        hist['chainer_open'] += 1
                else:
                    hist['errors'][real[1]] = hist['errors'].get(real[1], 0) + 1
            elif c.group == 'pipeline':
                for stage in ('segments1', 'segments2', 'combined'):
                    if real[stage][0] == 'err':
                        k = '%s:%s' % (stage, real[stage][1])
                        hist['errors'][k] = hist['errors'].get(k, 0) + 1
                        break
                if real['combined'][0] == 'ok':
                    n_in = sum(len(lp) for lp in c.data['A'] + c.data['B'])
                    g = len(real['combined'][1]) - n_in
                    k = '<0' if g < 0 else '0' if g == 0 else '1-4' if g <= 4 else '5+'
                    hist['combined_growth'][k] = hist['combined_growth'].get(k, 0) + 1
            if len(samples) < 3 and v is None and c.label.startswith('pinned') and \
                    all(s['group'] != c.group for s in samples):
                samples.append({'group': c.group, 'label': c.label, 'case': hexcase(c)})
            if v is None:
                continue
            if v[0] in seen:
                continue
            if c.group in ('chainer', 'pipeline') and tie_checks < 25:
                tie_checks += 1
                if is_float_tie(ctx, c):
                    ties += 1
                    continue
            seen.add(v[0])
            small = c
            if len(seen) <= 3:
                small = shrink(ctx, c, v[0], min(time.time() + 8, ctx.deadline))
            if small is not c:
                r2 = evaluate(ctx, [small], {})[0]
                if r2[2] is not None:
                    c, real, v = r2[0], r2[1], r2[2]
            disagreements.append(record(c, v, real, ctx.seed))
    return {
        'requests': done,
        'nontrivial': nontr,
        'rule': 'one request = one case compared at every stage it has (chainer: regions; select: '
                'kept segments + fills + is_inverted; pipeline: _segments x2, _combine, five '
                'selectors, five public operations); non-trivial = chainer returns a region / '
                'select keeps some but not all segments / the combined sweep divided an edge or '
                'annotated a segment with different other-fills above and below',
        'disagreements': disagreements,
        'float_ties': ties,
        'histograms': hist,
        'samples': samples,
        'planned': len(cases),
        'wall': round(time.time() - t0, 2),
    }


def replay(ctx, disagreement):
    g = disagreement.get('group')
    if g not in ('chainer', 'select', 'pipeline') or 'case' not in disagreement:
        return None
    case = Case(g, 'replay', unhexcase(g, disagreement['case']))
    (c, real, v, _a) = evaluate(ctx, [case], {})[0]
    if v is None:
        return None
    if g in ('chainer', 'pipeline') and is_float_tie(ctx, c):
        return None
    return record(c, v, real, disagreement.get('seed'))


if __name__ == '__main__':
    import json
    import os

    class Ctx(object):
        pass
    ctx = Ctx()
    ctx.seed = int(os.environ.get('VERIF_SEED', '0'))
    ctx.tier = os.environ.get('VERIF_TIER', 'quick')
    ctx.broken = []
    ctx.driver = lbg.Driver()
    ctx.deadline = time.time() + 3600
    r = run(ctx, 'C04')
    print(json.dumps({k: r[k] for k in r if k not in ('samples', 'disagreements')}, indent=1))
    for dg in r['disagreements']:
        print(dg['signature'], '::', dg['what'])
        print('   case ', json.dumps(dg.get('case'))[:1500])
        print('   model', dg['model'])
        print('   real ', dg['real'][:1500] if dg['real'] else None)
    sys.exit(1 if r['disagreements'] else 0)
