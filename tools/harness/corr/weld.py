"""Correspondence of three small hand models with the real ladybug_geometry code.

C07 — `Model/Weld.lean` (ops `model.weld`, `model.from_faces_edge_info`) vs the vertex welding
of `Polyface3D.from_faces(faces, tolerance)` followed by `Polyface3D.__init__`:
  * group `weld`: closed / open / non-manifold shells from the generators of
    `props/c07.py` (prisms over star / convex / polyomino / ring bases with and without holes,
    oblique prisms, pyramids, boxes; rigid placement; faces shuffled, flipped, restarted) where
    EVERY face carries its own jittered copy of each shared vertex (jitter < tol/4 per
    coordinate, distinct vertices > 3 tol apart: the classes are unambiguous), and a lattice
    stream (random triangles / quads / faces with a hole on a small dyadic lattice with tol
    equal to 1..2 lattice steps: chains of points each within tol of the next, where the
    first-match rule decides).  The model gets `(f.boundary,) + f.holes` of the real faces.
    `vertices`, `face_indices`, `edge_indices`, `edge_types`, `is_solid` are compared
    EXACTLY (order, orientation, literal coordinates).

C08 — `Model/PointOnFace.lean` (ops `model.point_on_face_test`,
`model.point_on_face_test_face`) vs `Face3D.is_point_on_face(point, tolerance)`:
  * group `point_on_face`: faces (convex / star / rectilinear / random loops, both
    orientations, any start; outlines with one or two holes) in axis-aligned and random planes;
    per face 8-12 points: plane points over 1.5 x the bounding box, vertices, points on sides,
    points level with a vertex, each also moved off the plane by 0.5 tol / 2 tol / 5 tol.
    `..._test_face` rebuilds `Face3D(boundary, plane, holes, enforce_right_hand=False)` and lets
    the model derive `polygon2d` (for holes: `Model/HoleMerge`); `..._test` hands the model the
    vertices of the real `face.polygon2d`.  Booleans are compared exactly; a differing answer is
    a float tie when the exact distance is within 1e-9 of `tol` or the parity ray passes within
    1e-9 of a vertex / the point is within 1e-9 of a side.

C19 — `Model/ExtractRect.lean` (op `model.extract_rectangle`) vs
`Face3D.extract_rectangle(tolerance)` (with `get_top_bottom_horizontal_edges`,
`get_left_right_vertical_edges`, `_split_with_rectangle`, `_vertices_between_points`,
`remove_colinear_vertices`):
  * group `extract_rectangle`: walls in vertical and tilted planes at any azimuth — rectangles,
    trapezoids (either edge longer, one- and two-sided), gables and sheds (vertical edges
    only), L / T / notched outlines, parallelograms without overlap, stepped outlines, extra
    colinear vertices, any start vertex and both orientations; horizontal faces; faces with a
    hole; random convex polygons.  The model is given `face.vertices` and `face.plane` of the
    real face.  `None` / raises / result kind must agree; segment and vertex coordinates within
    1e-9 of the face size, same number of other faces with the same vertex counts.  A differing
    outcome is a float tie if the REAL outcome changes when the tolerance is scaled by 1 +- 1e-9
    (a comparison sits on its threshold) or when the vertices are moved by 1e-11 of the face size
    (rounding noise decides, e.g. the self-intersection test of a helper face whose closing side
    overlaps its own sides), or when a helper face of either answer touches itself within 1e-9.

Numbers travel as exact rationals of the doubles.  The only floating-point operation of the
welding is `abs(a - b) <= tol`; a case in which the rounded difference decides differently
from the exact one is counted as a float tie (it cannot occur in either stream: margins
tol/2, respectively exact lattice arithmetic).
"""
import os
import random
import sys
import time
from fractions import Fraction

if __name__ == '__main__':
    sys.path.insert(0, os.path.dirname(os.path.dirname(os.path.abspath(__file__))))
import lbg  # noqa: E402

from ladybug_geometry.geometry2d.pointvector import Point2D  # noqa: E402
from ladybug_geometry.geometry2d.polygon import Polygon2D  # noqa: E402
from ladybug_geometry.geometry3d.pointvector import Point3D, Vector3D  # noqa: E402
from ladybug_geometry.geometry3d.plane import Plane  # noqa: E402
from ladybug_geometry.geometry3d.face import Face3D  # noqa: E402
from ladybug_geometry.geometry3d.polyface import Polyface3D  # noqa: E402

from corr import edgeinfo as E  # noqa: E402  (polygon generators, parity tie test)
from props import c07 as G  # noqa: E402  (generators only)
from props import _h0708 as H  # noqa: E402

PROPS = ['C07', 'C08', 'C19']
MODELS = ['LbgVerif/Model/Weld.lean', 'LbgVerif/Model/PointOnFace.lean',
          'LbgVerif/Model/ExtractRect.lean', 'LbgVerif/Model/Dispatch_Weld.lean']
REAL = ['ladybug_geometry/geometry3d/polyface.py:Polyface3D.from_faces (welding loop + __init__)',
        'ladybug_geometry/geometry3d/pointvector.py:Vector3D.is_equivalent',
        'ladybug_geometry/geometry3d/face.py:Face3D.is_point_on_face, polygon2d, __init__ (holes)',
        'ladybug_geometry/geometry3d/plane.py:Plane.distance_to_point, xyz_to_xy',
        'ladybug_geometry/geometry3d/face.py:Face3D.extract_rectangle, '
        'get_top_bottom_horizontal_edges, get_left_right_vertical_edges, _split_with_rectangle, '
        '_vertices_between_points, remove_colinear_vertices (no holes)']
TRUSTED = [
    'weld: the model compares |a - b| <= tol in exact rationals, the code in doubles; inputs keep '
    'every comparison at least tol/2 away from the threshold (jitter stream) or make the '
    'subtraction exact (lattice stream); a case decided by the rounding of a - b is counted as a '
    'float tie',
    'weld: Face3D.__init__ may reverse the boundary (enforce_right_hand); the model is given the '
    'loops the real faces hold (f.boundary, f.holes) — how faces come to hold them is not part '
    'of this model',
    'point_on_face: planes are rebuilt slot by slot (n, o, k, x, y) from the wire; '
    '`model.point_on_face_test` injects the given loop as `face._polygon2d`; sqrt of the distance '
    'is a double on both sides; differing answers within 1e-9 of a threshold (distance = tol, ray '
    'through a vertex, point on a side) are float ties',
    'extract_rectangle: coordinates compared within 1e-9 of the face size (closest points, '
    'midpoints and square roots are rounded in the real code, exact / double-sqrt in the model); '
    'a differing outcome is a float tie if the real outcome is not stable under scaling the '
    'tolerance by 1 +- 1e-9',
    'extract_rectangle: in tilted planes the exact squared distances of the model are rationals '
    'with several hundred digits; the driver converts them to the nearest double before sqrt '
    '(Wire.ratToFloat scales numerator and denominator beyond the double range; before that fix '
    'such a distance evaluated to 0 and a rectangle-side midpoint counted as on an edge)',
]

W = lbg.wnum
F = Fraction


# ------------------------------------------------------------------ wire helpers
def wv(v):
    return [W(v[0]), W(v[1]), W(v[2])]


def fl(s):
    return float(Fraction(s))


def fv(j):
    return tuple(fl(c) for c in j)


def P3(j):
    return Point3D(fl(j[0]), fl(j[1]), fl(j[2]))


def bump(h, k):
    h[k] = h.get(k, 0) + 1


# ====================================================================== group weld (C07)
def faces_to_wire(faces):
    """[(boundary, holes)] of real Face3D objects -> wire faces (loops of points)."""
    out = []
    for f in faces:
        loops = (f.boundary,) if not f.has_holes else (f.boundary,) + f.holes
        out.append([[wv(tuple(p)) for p in lp] for lp in loops])
    return out


def faces_from_wire(wfaces):
    faces = []
    for loops in wfaces:
        pts = [[P3(p) for p in lp] for lp in loops]
        faces.append(Face3D(pts[0], None, pts[1:] if len(pts) > 1 else None,
                            enforce_right_hand=False))
    return faces


def weld_tie(wfaces, tol):
    """Does the rounding of a - b decide some comparison differently from exact arithmetic?"""
    pts = [fv(p) for loops in wfaces for lp in loops for p in lp]
    ft = F(tol)
    seen = []
    for p in pts:
        for q in seen:
            for a, b in zip(p, q):
                if (abs(a - b) <= tol) != (abs(F(a) - F(b)) <= ft):
                    return True
        if p not in seen:
            seen.append(p)
    return False


def check_weld(op, args, mval):
    wfaces, wtol = args
    tol = fl(wtol)
    try:
        faces = faces_from_wire(wfaces)
        for f, loops in zip(faces, wfaces):
            back = faces_to_wire([f])[0]
            if back != loops:
                return 'bad', ('Face3D does not hold the given loops', loops, back), False
        pf = Polyface3D.from_faces(faces, tol)
        real = {'vertices': [wv(tuple(v)) for v in pf.vertices],
                'face_indices': [[list(lp) for lp in f] for f in pf.face_indices],
                'edge_indices': [list(e) for e in pf.edge_indices],
                'edge_types': list(pf.edge_types),
                'is_solid': bool(pf.is_solid)}
    except AssertionError as e:
        # Base2DIn3D._check_vertices_input: fewer than 3 welded vertices
        few = mval is None if op == 'model.from_faces_edge_info' else len(mval[0]) < 3
        if few and 'at least 3 vertices' in str(e):
            return 'ok', None, False
        return 'bad', ('raises AssertionError', mval, str(e)[:200]), False
    except Exception as e:  # noqa: E722
        return 'bad', ('raises %s' % type(e).__name__, None, str(e)[:200]), False
    if mval is None:
        return 'bad', ('model reports the constructor assertion', None, real['vertices']), False
    model = {'vertices': mval[0], 'face_indices': mval[1]}
    keys = ['vertices', 'face_indices']
    if op == 'model.from_faces_edge_info':
        model.update({'edge_indices': mval[2], 'edge_types': mval[3], 'is_solid': mval[4]})
        keys += ['edge_indices', 'edge_types', 'is_solid']
    npts = sum(len(lp) for loops in wfaces for lp in loops)
    distinct = len(set(tuple(p) for loops in wfaces for lp in loops for p in lp))
    # non-trivial: some point was welded onto a vertex with different coordinates
    nontriv = len(real['vertices']) < distinct
    for k in keys:
        if model[k] != real[k]:
            if weld_tie(wfaces, tol):
                return 'tie', None, nontriv
            return 'bad', ('%s differs' % k, model[k], real[k]), nontriv
    return 'ok', None, nontriv


def jitter_faces(rng, solid, wverts, pres, tol, amp):
    """Real Face3D objects of one presentation; every face has its own copy of each vertex,
    moved by less than amp * tol per coordinate."""
    faces = []
    for e in pres:
        loops = G.presented_loops(solid, e)
        if e['via']:
            loops = [list(reversed(lp)) for lp in loops]
        pts = []
        for lp in loops:
            row = []
            for vid in lp:
                w = wverts[vid]
                if amp:
                    w = tuple(c + rng.uniform(-amp, amp) * tol for c in w)
                row.append(Point3D(*w))
            pts.append(row)
        f = Face3D(pts[0], None, pts[1:] if len(pts) > 1 else None)
        if e['via']:
            f = f.flip()
        faces.append(f)
    return faces


def solid_weld_request(rng, small):
    for _ in range(20):
        sp = G.random_solid_spec(rng, small=small)
        if sp is None:
            continue
        solid = G.solid_from_spec(sp)
        if len(solid.mfaces) > 40:
            continue
        rigid = H.rand_rigid(rng, big=(rng.random() < 0.1))
        wverts = [H.fl3(rigid.apply(v)) for v in solid.mverts]
        tol = rng.choice([1e-3, 1e-2, 0.005, rng.uniform(1e-3, 1e-2)])
        mind = min(G.cheb(a, b) for i, a in enumerate(wverts) for b in wverts[:i])
        if mind <= 3.5 * tol:
            continue
        pres = G.random_presentation(rng, solid)
        variant = rng.choice(['closed', 'closed', 'open', 'dup', 'open+dup'])
        if 'open' in variant and len(pres) > 2:
            for _k in range(rng.choice([1, 1, 2])):
                pres.pop(rng.randrange(len(pres)))
        if 'dup' in variant:
            src = rng.choice(G.random_presentation(rng, solid))
            if any(e['f'] == src['f'] for e in pres):
                pres.insert(rng.randrange(len(pres) + 1), src)
        amp = rng.choice([0.0, 0.1, 0.24, 0.24])
        faces = jitter_faces(rng, solid, wverts, pres, tol, amp)
        kind = 'solid/%s/%s' % (variant, 'jitter' if amp else 'exact')
        return ('model.from_faces_edge_info', [faces_to_wire(faces), W(tol)], kind)
    return None


def lattice_weld_request(rng):
    """Random small faces on a dyadic lattice, tol = 1..2 steps: ambiguous chains."""
    step = rng.choice([0.125, 0.25, 1.0])
    tol = step * rng.choice([1, 1, 2])
    span = rng.choice([2, 3, 5])
    nf = rng.randint(1, 6)
    wfaces = []
    for _ in range(nf):
        nl = 2 if rng.random() < 0.2 else 1
        loops = []
        for _l in range(nl):
            n = rng.randint(3, 5)
            loops.append([wv(tuple(step * rng.randint(0, span) for _c in range(3)))
                          for _k in range(n)])
        wfaces.append(loops)
    op = rng.choice(['model.weld', 'model.from_faces_edge_info'])
    return (op, [wfaces, W(tol)], 'lattice')


def _tri(a, b, c):
    return [[wv(a), wv(b), wv(c)]]


def fixed_weld_requests():
    reqs = []
    # tetrahedron, each face with its own copies moved by 1/4096 (tol 1/64): solid
    T = [(0.0, 0.0, 0.0), (1.0, 0.0, 0.0), (0.0, 1.0, 0.0), (0.0, 0.0, 1.0)]
    d = 1.0 / 4096
    tet = []
    for k, (a, b, c) in enumerate([(0, 2, 1), (0, 1, 3), (1, 2, 3), (2, 0, 3)]):
        mv = lambda p: (p[0] + k * d, p[1] - k * d, p[2] + (k % 2) * d)  # noqa: E731
        tet.append(_tri(mv(T[a]), mv(T[b]), mv(T[c])))
    reqs.append(('model.from_faces_edge_info', [tet, W(1.0 / 64)], 'fixed/tetra'))
    reqs.append(('model.from_faces_edge_info', [tet[:3], W(1.0 / 64)], 'fixed/tetra-open'))
    reqs.append(('model.from_faces_edge_info', [tet + [tet[1]], W(1.0 / 64)], 'fixed/tetra-dup'))
    reqs.append(('model.from_faces_edge_info', [tet, W(0.0)], 'fixed/tetra-tol0'))
    reqs.append(('model.from_faces_edge_info', [tet, W(-1.0)], 'fixed/tetra-negative-tol'))
    reqs.append(('model.weld', [[], W(0.01)], 'fixed/empty'))
    # the chain 0, 1, 2 on a line with tol 1 in both orders (C07c.chain example)
    p = lambda x: (float(x), 0.0, 0.0)  # noqa: E731
    q = lambda x: (float(x), 5.0, 0.0)  # noqa: E731
    reqs.append(('model.weld', [[_tri(p(0), p(1), p(2)), _tri(q(0), q(1), q(2))], W(1.0)],
                 'fixed/chain'))
    reqs.append(('model.weld', [[_tri(p(1), p(0), p(2)), _tri(q(1), q(2), q(0))], W(1.0)],
                 'fixed/chain'))
    # a face with a hole sharing vertices with a second face; a repeated point inside a loop
    sq = [wv((0.0, 0.0, 0.0)), wv((4.0, 0.0, 0.0)), wv((4.0, 4.0, 0.0)), wv((0.0, 4.0, 0.0))]
    hole = [wv((1.0, 1.0, 0.0)), wv((1.0, 2.0, 0.0)), wv((2.0, 2.0, 0.0)), wv((2.0, 1.0, 0.0))]
    other = [[wv((2.0, 1.0, 0.001)), wv((2.0, 2.0, -0.001)), wv((2.0, 2.0, 3.0))]]
    reqs.append(('model.from_faces_edge_info', [[[sq, hole], other], W(0.01)], 'fixed/hole'))
    rep = [[wv((0.0, 0.0, 0.0)), wv((1.0, 0.0, 0.0)), wv((1.0, 0.0, 0.0005)), wv((0.0, 1.0, 0.0))]]
    reqs.append(('model.from_faces_edge_info', [[rep], W(0.01)], 'fixed/repeated-point'))
    return reqs


def random_weld_requests(rng, n):
    reqs = []
    for i in range(n):
        if i % 4 == 3:
            reqs.append(lattice_weld_request(rng))
        else:
            r = solid_weld_request(rng, small=(i % 3 != 0))
            if r is not None:
                reqs.append(r)
    return reqs


# ====================================================================== group point_on_face (C08)
TV = (1.0, 0.00001)


def plane_wire(pl):
    return [wv(tuple(pl.n)), wv(tuple(pl.o)), W(pl.k), wv(tuple(pl.x)), wv(tuple(pl.y))]


def plane_from_wire(j):
    pl = Plane.__new__(Plane)
    pl._n = Vector3D(*fv(j[0]))
    pl._o = Point3D(*fv(j[1]))
    pl._k = fl(j[2])
    pl._x = Vector3D(*fv(j[3]))
    pl._y = Vector3D(*fv(j[4]))
    return pl


def fdot(a, b):
    return sum(F(x) * F(y) for x, y in zip(a, b))


def pof_tie(pl, poly, p, tol):
    """Exact evaluation near a threshold?  pl: real Plane, poly: [(x, y)] doubles, p: 3 doubles."""
    n, o = tuple(pl.n), tuple(pl.o)
    scale = max([1.0] + [abs(c) for c in p] + [abs(c) for c in o])
    d = fdot(p, n) - F(pl.k)
    dist = abs(float(d)) * float(fdot(n, n)) ** 0.5
    if abs(dist - tol) <= 1e-9 * scale:
        return True
    diff = tuple(F(a) - F(b) for a, b in zip(p, o))
    q = (fdot(tuple(pl.x), diff), fdot(tuple(pl.y), diff))
    vs = [(F(x), F(y)) for x, y in poly]
    return E.inside_tie(vs, q, (F(TV[0]), F(TV[1])), False)


def check_pof(op, args, mval):
    try:
        pl = plane_from_wire(args[0])
        if op == 'model.point_on_face_test':
            wpoly, wpts, wtol = args[1], args[2], args[3]
            poly = [(fl(v[0]), fl(v[1])) for v in wpoly]
            face = Face3D([pl.xy_to_xyz(Point2D(x, y)) for x, y in poly], pl,
                          enforce_right_hand=False)
            face._polygon2d = Polygon2D([Point2D(x, y) for x, y in poly])
        else:
            wb, wh, wpts, wtol = args[1], args[2], args[3], args[4]
            face = Face3D([P3(v) for v in wb], pl,
                          [[P3(v) for v in h] for h in wh] if wh else None,
                          enforce_right_hand=False)
            poly = [(v.x, v.y) for v in face.polygon2d.vertices]
        tol = fl(wtol)
        pts = [fv(p) for p in wpts]
        real = [bool(face.is_point_on_face(Point3D(*p), tol)) for p in pts]
    except Exception as e:  # noqa: E722
        return 'bad', ('raises %s' % type(e).__name__, mval, str(e)[:200]), False
    nontriv = (True in real) and (False in real)
    if mval is None or len(mval) != len(real) or any(m is None for m in mval):
        return 'bad', ('model reports a constructor error', mval, real), nontriv
    status = 'ok'
    for p, m, r in zip(pts, mval, real):
        if m != r:
            if pof_tie(pl, poly, p, tol):
                status = 'tie'
            else:
                return 'bad', ('answer differs', {'answers': mval, 'first_at': p}, real), nontriv
    return status, None, nontriv


def pof_points(rng, pl, poly, tol):
    pts = []
    for _ in range(rng.randint(8, 12)):
        q, _kind = E.gen_point(rng, poly, 'real')
        p = pl.xy_to_xyz(Point2D(q[0], q[1]))
        k = rng.choice([0.0, 0.0, 0.0, 0.5, -0.5, 2.0, -2.0, 5.0])
        off = k * tol if tol > 0 else k * 0.01
        pts.append((p.x + pl.n.x * off, p.y + pl.n.y * off, p.z + pl.n.z * off))
    return pts


def pof_request(rng):
    pl = E.random_plane(rng)
    tol = rng.choice([1e-3, 1e-2, 0.25, 0.0, rng.uniform(1e-3, 1e-2)])
    if rng.random() < 0.3:
        i = rng.choice(sorted(E.HOLES))
        k, ang = rng.choice([1.0, 0.5, 1.7]), rng.uniform(0, 6.283)
        ca, sa = E.math.cos(ang), E.math.sin(ang)
        tr = lambda lp: [((x * ca - y * sa) * k, (x * sa + y * ca) * k) for x, y in lp]  # noqa: E731
        outline = tr(E.OUTLINES[i])
        holes = [tr(h) for h in E.HOLES[i][:rng.randint(1, 2)]]
        if rng.random() < 0.5:
            outline.reverse()
        holes = [list(reversed(h)) if rng.random() < 0.5 else h for h in holes]
        to3 = lambda lp: [tuple(pl.xy_to_xyz(Point2D(x, y))) for x, y in lp]  # noqa: E731
        b3, h3 = to3(outline), [to3(h) for h in holes]
        pts = pof_points(rng, pl, outline + [v for h in holes for v in h], tol)
        return ('model.point_on_face_test_face',
                [plane_wire(pl), [wv(v) for v in b3], [[wv(v) for v in h] for h in h3],
                 [wv(p) for p in pts], W(tol)], 'holes')
    poly, kind = E.gen_polygon(rng, rng.choice(['real', 'real', 'lattice']))
    pts = pof_points(rng, pl, poly, tol)
    if rng.random() < 0.5:
        b3 = [tuple(pl.xy_to_xyz(Point2D(x, y))) for x, y in poly]
        return ('model.point_on_face_test_face',
                [plane_wire(pl), [wv(v) for v in b3], [], [wv(p) for p in pts], W(tol)],
                'face/' + kind)
    return ('model.point_on_face_test',
            [plane_wire(pl), [[W(x), W(y)] for x, y in poly], [wv(p) for p in pts], W(tol)],
            'poly/' + kind)


def fixed_pof_requests():
    pl = Plane(Vector3D(0, 0, 1), Point3D(0, 0, 2))
    sq = [(0.0, 0.0), (4.0, 0.0), (4.0, 4.0), (0.0, 4.0)]
    pts = [(2.0, 2.0, 2.0), (5.0, 2.0, 2.0), (2.0, 2.0, 2.005), (2.0, 2.0, 2.02), (2.0, 2.0, 1.98),
           (2.0, -1.0, 2.0), (-1.0, 2.0, 2.0005)]
    reqs = [('model.point_on_face_test',
             [plane_wire(pl), [[W(x), W(y)] for x, y in sq], [wv(p) for p in pts], W(0.01)],
             'fixed/square')]
    b3 = [(0.0, 0.0, 2.0), (6.0, 0.0, 2.0), (6.0, 6.0, 2.0), (0.0, 6.0, 2.0)]
    h3 = [[(1.0, 1.0, 2.0), (2.0, 1.0, 2.0), (2.0, 2.0, 2.0), (1.0, 2.0, 2.0)]]
    pts = [(1.5, 1.5, 2.0), (3.0, 3.0, 2.0), (0.5, 0.5, 2.0), (7.0, 3.0, 2.0), (3.0, 3.0, 2.5)]
    reqs.append(('model.point_on_face_test_face',
                 [plane_wire(pl), [wv(v) for v in b3], [[wv(v) for v in h] for h in h3],
                  [wv(p) for p in pts], W(0.01)], 'fixed/hole'))
    # tilted plane, triangle, negative tolerance (everything rejected)
    pl2 = Plane(Vector3D(1, 2, 2), Point3D(1, 1, 1))
    tri = [(0.0, 0.0), (3.0, 0.0), (0.0, 3.0)]
    b3 = [tuple(pl2.xy_to_xyz(Point2D(x, y))) for x, y in tri]
    c = tuple(pl2.xy_to_xyz(Point2D(1.0, 1.0)))
    reqs.append(('model.point_on_face_test_face',
                 [plane_wire(pl2), [wv(v) for v in b3], [], [wv(c), wv(b3[0])], W(-1.0)],
                 'fixed/negative-tol'))
    reqs.append(('model.point_on_face_test_face',
                 [plane_wire(pl2), [wv(v) for v in b3], [],
                  [wv(c), wv((c[0] + 0.1, c[1] + 0.2, c[2] + 0.2))], W(0.01)], 'fixed/tilted'))
    return reqs


def random_pof_requests(rng, n):
    return [pof_request(rng) for _ in range(n)]


# ====================================================================== group extract_rectangle (C19)
def seg_wire_to_tuple(j):
    return (fv(j[0]), fv(j[1]))


def real_extract(face, tol):
    """-> 'raises' | None | ((p, v), (p, v), [vertex lists])"""
    try:
        r = face.extract_rectangle(tol)
    except (AssertionError, IndexError, ValueError) as e:
        return 'raises'
    if r is None:
        return None
    b, t, others = r
    return ((tuple(b.p), tuple(b.v)), (tuple(t.p), tuple(t.v)),
            [[tuple(v) for v in f.vertices] for f in others])


def shape_of(res):
    if res is None or res == 'raises':
        return res
    return ('rect', [len(f) for f in res[2]])


def close3(a, b, eps):
    return all(abs(x - y) <= eps for x, y in zip(a, b))


def touches_itself(vs, eps):
    """Some vertex of the loop lies within eps of a side it does not belong to."""
    n = len(vs)
    for i in range(n):
        a, b = vs[i - 1], vs[i]
        ab = [b[k] - a[k] for k in range(3)]
        l2 = sum(c * c for c in ab)
        for j in range(n):
            if j == i or j == (i - 1) % n:
                continue
            q = vs[j]
            aq = [q[k] - a[k] for k in range(3)]
            t = 0.0 if l2 == 0 else max(0.0, min(1.0, sum(x * y for x, y in zip(aq, ab)) / l2))
            d2 = sum((aq[k] - t * ab[k]) ** 2 for k in range(3))
            if d2 <= eps * eps:
                return True
    return False


def check_rect(op, args, mval):
    hh, wverts, wpl, wtol = args
    try:
        pl = plane_from_wire(wpl)
        verts = [P3(v) for v in wverts]
        tol = fl(wtol)
        if hh:
            c = sum((v.x for v in verts)) / len(verts), sum((v.y for v in verts)) / len(verts), \
                sum((v.z for v in verts)) / len(verts)
            hole = [Point3D(*(c[k] + (tuple(v)[k] - c[k]) * 0.25 for k in range(3))) for v in verts]
            face = Face3D(verts, pl, [hole], enforce_right_hand=False)
        else:
            face = Face3D(verts, pl, enforce_right_hand=False)
        real = real_extract(face, tol)
    except Exception as e:  # noqa: E722
        return 'bad', ('raises %s' % type(e).__name__, mval, str(e)[:200]), False
    if mval is None or mval == 'raises':
        model = mval
    else:
        model = (seg_wire_to_tuple(mval[0]), seg_wire_to_tuple(mval[1]),
                 [[fv(v) for v in f] for f in mval[2]])
    nontriv = isinstance(real, tuple)
    scale = max([1.0] + [abs(c) for v in verts for c in v])
    eps = 1e-9 * scale
    what = None
    if shape_of(model) != shape_of(real):
        what = 'outcome differs'
    elif isinstance(real, tuple):
        for k, name in ((0, 'bottom'), (1, 'top')):
            if not (close3(model[k][0], real[k][0], eps) and close3(model[k][1], real[k][1], eps)):
                what = '%s edge differs' % name
        for fm, fr in zip(model[2], real[2]):
            if not all(close3(a, b, eps) for a, b in zip(fm, fr)):
                what = what or 'other face differs'
    if what is None:
        return 'ok', None, nontriv
    # tie: a helper face of either answer touches itself (its self-intersection test, made of
    # segment/segment intersections, is then decided by rounding noise)
    for res in (model, real):
        if isinstance(res, tuple) and any(touches_itself(f, eps) for f in res[2]):
            return 'tie', None, nontriv
    # tie: the real outcome is not stable under a relative change of 1e-9 of the tolerance
    try:
        for k in (1 + 1e-9, 1 - 1e-9):
            r2 = real_extract(face, tol * k)
            if shape_of(r2) != shape_of(real):
                return 'tie', None, nontriv
            if isinstance(real, tuple) and isinstance(r2, tuple):
                pts_a = [real[0][0], real[1][0]] + [v for f in real[2] for v in f]
                pts_b = [r2[0][0], r2[1][0]] + [v for f in r2[2] for v in f]
                if not all(close3(a, b, eps) for a, b in zip(pts_a, pts_b)):
                    return 'tie', None, nontriv
        # ... or under a move of the vertices by 1e-11 of the face size (a degenerate helper
        # face whose closing side overlaps its own sides: the self-intersection test then
        # decides by rounding noise)
        jr = random.Random(repr(args))
        for _k in range(16):
            mv = [Point3D(*(c + jr.uniform(-1, 1) * 1e-11 * scale for c in v)) for v in verts]
            r2 = real_extract(Face3D(mv, pl, enforce_right_hand=False), tol)
            if shape_of(r2) != shape_of(real):
                return 'tie', None, nontriv
    except Exception:  # noqa: E722
        pass
    return 'bad', (what, shape_of(model) if what == 'outcome differs' else model,
                   shape_of(real) if what == 'outcome differs' else real), nontriv


WALLS = {
    # outline in wall coordinates (u along the wall, w up), counter-clockwise
    'rectangle': [(0, 0), (5, 0), (5, 3), (0, 3)],
    'trapezoid-wide-bottom': [(0, 0), (8, 0), (6, 3), (1, 3)],
    'trapezoid-wide-top': [(2, 0), (5, 0), (8, 3), (0, 3)],
    'trapezoid-right': [(0, 0), (6, 0), (4, 3), (0, 3)],
    'trapezoid-left': [(0, 0), (6, 0), (6, 3), (2, 3)],
    'gable': [(0, 0), (6, 0), (6, 3), (3, 5), (0, 3)],
    'shed': [(0, 0), (6, 0), (6, 4), (0, 2)],
    'parallelogram-overlap': [(0, 0), (6, 0), (8, 3), (2, 3)],
    'parallelogram-no-overlap': [(0, 0), (3, 0), (8, 3), (5, 3)],
    'L': [(0, 0), (6, 0), (6, 2), (3, 2), (3, 5), (0, 5)],
    'T': [(2, 0), (4, 0), (4, 3), (6, 3), (6, 5), (0, 5), (0, 3), (2, 3)],
    'notch-top': [(0, 0), (8, 0), (8, 4), (5, 4), (5, 2), (3, 2), (3, 4), (0, 4)],
    'stepped': [(0, 0), (3, 0), (3, 1), (6, 1), (6, 4), (0, 4)],
    'hexagon': [(1, 0), (5, 0), (6, 2), (5, 4), (1, 4), (0, 2)],
    'triangle': [(0, 0), (6, 0), (3, 4)],
    'bowed': [(0, 0), (6, 0), (7, 2), (6, 4), (0, 4), (-1, 2)],
    'slanted-quad': [(0, 0), (5, 1), (5, 4), (0, 3)],
    'arrow': [(0, 0), (6, 0), (6, 3), (4, 3), (3, 5), (2, 3), (0, 3)],
    # dents in one side that do not reach across the rectangle side: only one of the two side
    # midpoints lies outside the face
    'v-notch-right': [(0, 0), (6, 0), (4, 1.5), (6, 3), (0, 3)],
    'v-notch-left': [(0, 0), (6, 0), (6, 3), (0, 3), (2, 1.5)],
    'v-notch-right-shallow': [(0, 0), (6, 0), (5.5, 2), (6, 3), (0, 3)],
    'step-notch-right': [(0, 0), (6, 0), (6, 1), (5, 1), (5, 2), (6, 2), (6, 3), (0, 3)],
    'v-notch-both': [(0, 0), (6, 0), (5, 1.5), (6, 3), (0, 3), (1, 1.5)],
}


def wall_face(rng, name=None):
    name = name or rng.choice(sorted(WALLS))
    outline = [(float(u), float(w)) for u, w in WALLS[name]]
    su, sw = rng.choice([1.0, 0.5, 2.0, rng.uniform(0.3, 3)]), rng.choice([1.0, 0.5, rng.uniform(0.3, 3)])
    outline = [(u * su, w * sw) for u, w in outline]
    if rng.random() < 0.3:      # extra colinear vertices
        i = rng.randrange(len(outline))
        a, b = outline[i - 1], outline[i]
        t = rng.choice([0.5, 0.25, rng.random()])
        outline.insert(i, (a[0] + (b[0] - a[0]) * t, a[1] + (b[1] - a[1]) * t))
    if rng.random() < 0.4:
        outline.reverse()
    k = rng.randrange(len(outline))
    outline = outline[k:] + outline[:k]
    az = rng.choice([0.0, E.math.pi / 2, E.math.pi, rng.uniform(0, 2 * E.math.pi)])
    tilt = rng.choice([0.0, 0.0, 0.0, 0.0, 0.0, rng.uniform(-0.6, 0.6), rng.uniform(-0.6, 0.6),
                       E.math.pi / 2, 1.55])
    ux, uy = E.math.cos(az), E.math.sin(az)
    # up vector: z rotated by `tilt` about the horizontal direction u
    nx, ny = -uy, ux
    up = (nx * E.math.sin(tilt), ny * E.math.sin(tilt), E.math.cos(tilt))
    o = (rng.choice([0.0, 3.0, -7.5, rng.uniform(-50, 50)]), rng.choice([0.0, 1.0, rng.uniform(-50, 50)]),
         rng.choice([0.0, 2.0, rng.uniform(-5, 5)]))
    pts = [Point3D(o[0] + ux * u + up[0] * w, o[1] + uy * u + up[1] * w, o[2] + up[2] * w)
           for u, w in outline]
    return Face3D(pts), name, tilt


def rect_request(rng):
    x = rng.random()
    tol = rng.choice([1e-2, 1e-3, 1e-3, 0.05])
    if x < 0.06:
        poly, _k = E.gen_polygon(rng, 'real')
        pl = E.random_plane(rng)
        face = Face3D([pl.xy_to_xyz(Point2D(a, b)) for a, b in poly], pl)
        kind = 'random polygon'
    else:
        face, name, tilt = wall_face(rng)
        kind = 'wall/%s%s' % (name, '' if tilt == 0.0 else ('/horizontal' if tilt > 1.5 else '/tilted'))
    hh = rng.random() < 0.03
    return ('model.extract_rectangle',
            [hh, [wv(tuple(v)) for v in face.vertices], plane_wire(face.plane), W(tol)],
            kind + ('/holes' if hh else ''))


def fixed_rect_requests():
    reqs = []
    r0 = random.Random('fixed-rect')

    class Fixed(object):
        """deterministic choices: the plain wall in the XZ plane"""
        def __init__(self):
            self.r = r0

        def random(self):
            return 0.99

        def choice(self, seq):
            return seq[0]

        def uniform(self, a, b):
            return a

        def randrange(self, n):
            return 0

    for name in sorted(WALLS):
        face, _n, _t = wall_face(Fixed(), name)
        reqs.append(('model.extract_rectangle',
                     [False, [wv(tuple(v)) for v in face.vertices], plane_wire(face.plane),
                      W(0.01)], 'fixed/' + name))
    face, _n, _t = wall_face(Fixed(), 'rectangle')
    reqs.append(('model.extract_rectangle',
                 [True, [wv(tuple(v)) for v in face.vertices], plane_wire(face.plane), W(0.01)],
                 'fixed/holes'))
    flat = Face3D([Point3D(0, 0, 1), Point3D(4, 0, 1), Point3D(4, 3, 1), Point3D(0, 3, 1)])
    reqs.append(('model.extract_rectangle',
                 [False, [wv(tuple(v)) for v in flat.vertices], plane_wire(flat.plane), W(0.01)],
                 'fixed/horizontal'))
    # tolerance 0: the walk of _vertices_between_points may never meet the end point
    reqs.append(('model.extract_rectangle',
                 [False, [wv(tuple(v)) for v in face.vertices], plane_wire(face.plane), W(0.0)],
                 'fixed/tol0'))
    return reqs


def random_rect_requests(rng, n):
    return [rect_request(rng) for _ in range(n)]


# ====================================================================== module interface
GROUPS = {
    'C07': {'fixed': fixed_weld_requests, 'random': random_weld_requests, 'check': check_weld,
            'n_quick': 180, 'n_thorough': 400,
            'rule': 'request = Polyface3D.from_faces on one presentation of a shell whose faces '
                    'carry their own copies of the shared vertices; non-trivial = at least one '
                    'point is welded onto a vertex with different coordinates (fewer welded '
                    'vertices than distinct input points)'},
    'C08': {'fixed': fixed_pof_requests, 'random': random_pof_requests, 'check': check_pof,
            'ops': ('model.point_on_face_test', 'model.point_on_face_test_face'),
            'n_quick': 250, 'n_thorough': 1500,
            'rule': 'request = Face3D.is_point_on_face for 8-12 points of one face (in the plane, '
                    'off the plane by 0.5 / 2 / 5 tol; inside, outside, on vertices and sides); '
                    'non-trivial = the answers contain both True and False'},
    'C19': {'fixed': fixed_rect_requests, 'random': random_rect_requests, 'check': check_rect,
            'ops': ('model.extract_rectangle',),
            'n_quick': 220, 'n_thorough': 1500,
            'rule': 'request = Face3D.extract_rectangle of one wall-like face; non-trivial = a '
                    'rectangle is returned (not None / no exception)'},
}


def budget(ctx):
    thorough = ctx.tier == 'thorough' or bool(ctx.broken)
    return thorough, (240.0 if thorough else 15.0)


def make_disagreement(op, args, detail, seed):
    what, m, r = detail
    return {'signature': '%s|%s' % (op, what), 'what': '%s: %s' % (op, what), 'op': op,
            'args': args, 'model': m, 'real': r, 'seed': seed}


def checker_of(op):
    for g in GROUPS.values():
        if op in g.get('ops', ()):
            return g['check']
    return check_weld


def run(ctx, prop):
    t0 = time.time()
    out = {'requests': 0, 'nontrivial': 0, 'disagreements': [], 'float_ties': 0,
           'histograms': {'kind': {}, 'op': {}, 'size': {}, 'status': {}}, 'samples': [],
           'rule': GROUPS.get(prop, {}).get('rule', '')}
    if prop not in GROUPS:
        return out
    grp = GROUPS[prop]
    thorough, wall = budget(ctx)
    stop = min(ctx.deadline, t0 + wall)
    rng = random.Random('%s/weld/%s' % (ctx.seed, prop))
    seen = set()
    batches = [grp['fixed']()]
    first = True
    while True:
        if batches:
            reqs = batches.pop(0)
        else:
            if time.time() > stop - (5.0 if not thorough else 40.0):
                break
            if not thorough and not first:
                break
            reqs = grp['random'](rng, grp['n_quick'] if not thorough else grp['n_thorough'])
            first = False
        if not reqs:
            continue
        answers = ctx.driver.run([(op, args) for op, args, _ in reqs])
        for (op, args, kind), (ok, val) in zip(reqs, answers):
            out['requests'] += 1
            h = out['histograms']
            bump(h['kind'], kind)
            bump(h['op'], op)
            bump(h['size'], str(len(args[0])) if isinstance(args[0], list) else
                 (str(len(args[1])) if isinstance(args[1], list) else '-'))
            if not ok:
                status, detail, nontriv = 'bad', ('model error', val, None), False
            else:
                try:
                    status, detail, nontriv = grp['check'](op, args, val)
                except Exception as e:  # noqa: E722
                    status, detail, nontriv = 'bad', ('checker raises %s' % type(e).__name__,
                                                      None, str(e)[:200]), False
            bump(h['status'], status)
            if nontriv:
                out['nontrivial'] += 1
            if status == 'tie':
                out['float_ties'] += 1
            elif status == 'bad':
                d = make_disagreement(op, args, detail, ctx.seed)
                if d['signature'] not in seen:
                    seen.add(d['signature'])
                    out['disagreements'].append(d)
            elif len(out['samples']) < 3 and nontriv and not kind.startswith('fixed'):
                out['samples'].append({'op': op, 'args': args, 'model': val})
    out['wall'] = round(time.time() - t0, 1)
    return out


def replay(ctx, disagreement):
    """Re-run one recorded disagreement on the current tree."""
    op, args = disagreement['op'], disagreement['args']
    (ok, val), = ctx.driver.run([(op, args)])
    if not ok:
        return make_disagreement(op, args, ('model error', val, None), disagreement.get('seed'))
    status, detail, _ = checker_of(op)(op, args, val)
    if status != 'bad':
        return None
    return make_disagreement(op, args, detail, disagreement.get('seed'))


if __name__ == '__main__':
    class Ctx(object):
        pass
    ctx = Ctx()
    ctx.seed = int(sys.argv[1]) if len(sys.argv) > 1 else int(os.environ.get('VERIF_SEED', '0'))
    ctx.tier = sys.argv[2] if len(sys.argv) > 2 else os.environ.get('VERIF_TIER', 'quick')
    ctx.broken = []
    ctx.driver = lbg.Driver()
    ctx.deadline = time.time() + 3600
    for prop in PROPS:
        t = time.time()
        res = run(ctx, prop)
        print('%s %s seed %s %s: %d requests, %d non-trivial, %d float ties, %d disagreements, '
              '%.1f s' % (os.path.basename(__file__), prop, ctx.seed, ctx.tier, res['requests'],
                          res['nontrivial'], res['float_ties'], len(res['disagreements']),
                          time.time() - t))
        print('   ', res['histograms']['kind'], res['histograms']['status'])
        for d in res['disagreements']:
            print('   ', d['signature'], str(d['model'])[:200], str(d['real'])[:200])
