"""Correspondence of the hand model `Model/JoinOutline.lean` (C18, outline pipeline) with the real
library, stage by stage.

  insert    model.insert_updates                vs  Polygon2D._insert_updates_in_order
  isect2    model.intersect_segments            vs  Polygon2D.intersect_segments
  boundary  model.intersect_polygon_segments    vs  the list returned by the (tapped) call of
                                                    Polygon2D.intersect_polygon_segments inside
                                                    joined_intersected_boundary
            model.naked_segments (fed the REAL intersected polygons)
                                                vs  the `ext_edges` handed to Polyline2D.join_segments
            model.joined_intersected_boundary   vs  Polygon2D.joined_intersected_boundary
  faces     model.join_coplanar_faces (3D, plane = faces[0].plane read from the real object) and
            model.join_coplanar_faces2 (plane coordinates)
                                                vs  Face3D.join_coplanar_faces
  merge     model.merge_faces_to_holes / model.group_boundaries_and_holes (loop logic over the
            areas and containment answers of the real objects)
                                                vs  Face3D.merge_faces_to_holes /
                                                    Polygon2D.group_boundaries_and_holes

Compared: the STRUCTURE exactly (number of polygons, number and order of vertices / segments /
faces / holes, orientation of segments, exception or not) and every coordinate within 1e-9
(the model computes closest points in Q, the code in doubles).

Inputs: lattice tilings (generators of props/c18.py: rectangles with T-junctions, polyomino
tiles, combs, rings with holes, enclosed voids, islands) under exact and rotated frames; own
generators: comb / U / stair / stack tiles against a long wall (>= 3 vertices of one tile on ONE
edge of another), every cyclic start and both orientations of every tile, ring tiles with holes
through the Face3D entry point, vertices jittered below tol/4.

Stand-alone:  /venv/bin/python joinoutline.py [seed] [thorough]"""
import math
import os
import random
import sys
import time
from fractions import Fraction

_H = os.path.dirname(os.path.dirname(os.path.abspath(__file__)))
if _H not in sys.path:
    sys.path.insert(0, _H)
import lbg  # noqa: E402
from props import c18 as G  # noqa: E402  (generators only)

from ladybug_geometry.geometry2d.pointvector import Point2D  # noqa: E402
from ladybug_geometry.geometry3d.pointvector import Point3D, Vector3D  # noqa: E402
from ladybug_geometry.geometry2d.polygon import Polygon2D  # noqa: E402
from ladybug_geometry.geometry2d.polyline import Polyline2D  # noqa: E402
from ladybug_geometry.geometry2d.line import LineSegment2D  # noqa: E402
from ladybug_geometry.geometry3d.face import Face3D  # noqa: E402
from ladybug_geometry.geometry3d.plane import Plane  # noqa: E402

PROPS = ['C18']
MODELS = ['LbgVerif/Model/JoinOutline.lean', 'LbgVerif/Model/Dispatch_JoinOutline.lean']
REAL = ['ladybug_geometry/geometry2d/polygon.py:Polygon2D._insert_updates_in_order',
        'ladybug_geometry/geometry2d/polygon.py:Polygon2D.intersect_segments',
        'ladybug_geometry/geometry2d/polygon.py:Polygon2D.intersect_polygon_segments',
        'ladybug_geometry/geometry2d/polygon.py:Polygon2D.joined_intersected_boundary',
        'ladybug_geometry/geometry2d/polygon.py:Polygon2D.group_boundaries_and_holes',
        'ladybug_geometry/geometry2d/polygon.py:Polygon2D._match_holes_to_poly',
        'ladybug_geometry/geometry2d/polyline.py:Polyline2D.is_closed,to_polygon',
        'ladybug_geometry/geometry3d/face.py:Face3D.join_coplanar_faces',
        'ladybug_geometry/geometry3d/face.py:Face3D.merge_faces_to_holes',
        'ladybug_geometry/geometry3d/face.py:Face3D._match_holes_to_face']
TRUSTED = [
    'C18 outline correspondence: coordinates are compared within 1e-9 (closest points are '
    'computed exactly by the model, in doubles by the code); all list structure exactly',
    'C18 outline correspondence: `distance_to_point` of the model is sqrt through IEEE doubles of '
    'the exact squared distance; the generated inputs keep every distance-vs-tolerance decision '
    'far (>= tol/4) from its threshold, so no such decision is attributed to rounding',
    'C18 outline correspondence: stable sort by area: cases in which two returned loops have '
    'areas within 1e-9 relative of each other and the frame is not exact are counted as float '
    'ties when the grouping differs',
    'C18 outline correspondence: the model of join_coplanar_faces takes faces[0].plane, '
    'face.boundary and face.holes from the real Face3D objects (construction of the faces is '
    'not part of the method); a.is_sub_face(b, tol, 1) of two hole-free faces built in the same '
    'plane object is modelled as a.polygon2d.is_polygon_inside(b.polygon2d) (the coplanarity '
    'test of a plane with itself is trusted to be True); Face3D.area of a hole-free face as the '
    'polygon area; a Face3D built from a counter-clockwise boundary with holes is trusted not to '
    'be flipped by enforce_right_hand',
    'C18 outline correspondence: group_boundaries_and_holes / merge_faces_to_holes loop logic '
    'is compared on the areas and pairwise containment answers of the real objects '
    '(polygon_relationship / is_sub_face themselves are outside this model)']

W = lbg.wnum
QUICK_BUDGET, THOROUGH_BUDGET = 15.0, 240.0
NUMTOL = 1e-9


# ====================================================================== wire helpers
def wp(p):
    return [W(c) for c in p]


def wpoly(pts):
    return [wp(p) for p in pts]


def xy(v):
    return (float(v.x), float(v.y))


def xyz(v):
    return (float(v.x), float(v.y), float(v.z))


def wplane(pl):
    return [wp(xyz(pl.n)), wp(xyz(pl.o)), W(pl.k), wp(xyz(pl.x)), wp(xyz(pl.y))]


def unwire(j):
    """wire JSON (nested lists of number strings / ints / bools / None) -> Fractions."""
    if isinstance(j, str):
        return lbg.rnum(j)
    if isinstance(j, list):
        return [unwire(x) for x in j]
    return j


def differ(model, real, path=''):
    """None if the model value (Fractions, nested lists) matches the real value (floats, nested
    lists/tuples) in structure and within NUMTOL; else a short description."""
    if isinstance(real, (list, tuple)):
        if not isinstance(model, list):
            return '%s: model has %s where the code has a list of %d' % (path, brief(model)[:80],
                                                                         len(real))
        if len(model) != len(real):
            return '%s: length %d (model) vs %d (code)' % (path or 'result', len(model), len(real))
        for i, (m, r) in enumerate(zip(model, real)):
            d = differ(m, r, '%s[%d]' % (path, i))
            if d:
                return d
        return None
    if real is None or isinstance(real, bool):
        return None if model == real else '%s: %s (model) vs %r (code)' % (path, brief(model)[:80],
                                                                           real)
    if isinstance(real, int):
        return None if model == real else '%s: %r (model) vs %r (code)' % (path, model, real)
    if isinstance(model, (list, bool)) or model is None:
        return '%s: %r (model) vs number %r (code)' % (path, model, real)
    if abs(float(model) - real) <= NUMTOL * max(1.0, abs(real)):
        return None
    return '%s: %.12g (model) vs %.12g (code)' % (path, float(model), real)


# ====================================================================== the real code, tapped
class _Tap(object):
    """Records the value returned by Polygon2D.intersect_polygon_segments and the arguments /
    result of Polyline2D.join_segments during one call of the real method."""

    def __enter__(self):
        self.int_poly = None
        self.ext_edges = None
        self.chains = None
        self._ips = Polygon2D.__dict__['intersect_polygon_segments']
        self._js = Polyline2D.__dict__['join_segments']
        ips, js = Polygon2D.intersect_polygon_segments, Polyline2D.join_segments
        tap = self

        def ips_w(polygon_list, tolerance):
            r = ips(polygon_list, tolerance)
            if tap.int_poly is None:
                tap.int_poly = [[xy(v) for v in p.vertices] for p in r]
            return r

        def js_w(segments, tolerance):
            if tap.ext_edges is None:
                tap.ext_edges = [[xy(s.p1), xy(s.p2)] for s in segments]
            r = js(segments, tolerance)
            if tap.chains is None:
                tap.chains = [[xy(v) for v in c.vertices] for c in r]
            return r
        Polygon2D.intersect_polygon_segments = staticmethod(ips_w)
        Polyline2D.join_segments = staticmethod(js_w)
        return self

    def __exit__(self, *a):
        Polygon2D.intersect_polygon_segments = self._ips
        Polyline2D.join_segments = self._js
        return False


EXPECTED_EXC = (AssertionError, IndexError)


def real_boundary(polys, tol):
    objs = [Polygon2D([Point2D(*p) for p in pts]) for pts in polys]
    out = {'exc': None, 'unexpected': None}
    with _Tap() as tap:
        try:
            res = Polygon2D.joined_intersected_boundary(objs, tol)
            out['result'] = [[xy(v) for v in p.vertices] for p in res]
        except EXPECTED_EXC as e:
            out['exc'] = type(e).__name__
            out['result'] = None
        except Exception as e:  # noqa: BLE001
            out['unexpected'] = '%s: %s' % (type(e).__name__, str(e)[:120])
            out['result'] = None
    out['int_poly'], out['ext_edges'], out['chains'] = tap.int_poly, tap.ext_edges, tap.chains
    return out


def build_faces(faces, plane):
    """faces: list of (boundary3d, holes3d) -> Face3D objects (plane given for faces with holes
    alternately, as the library's own constructors do)."""
    objs = []
    for ti, (b, hs) in enumerate(faces):
        pts = [Point3D(*p) for p in b]
        if not hs:
            objs.append(Face3D(pts))
        else:
            holes = [[Point3D(*p) for p in h] for h in hs]
            objs.append(Face3D(pts, plane if (len(b) + ti) % 2 else None, holes))
    return objs


def face_loops(f):
    return [[xyz(v) for v in f.boundary],
            [[xyz(v) for v in h] for h in f.holes] if f.has_holes else []]


def real_faces(objs, tol):
    out = {'exc': None, 'unexpected': None}
    with _Tap() as tap:
        try:
            res = Face3D.join_coplanar_faces(objs, tol)
            out['result'] = [face_loops(f) for f in res]
        except EXPECTED_EXC as e:
            out['exc'] = type(e).__name__
            out['result'] = None
        except Exception as e:  # noqa: BLE001
            out['unexpected'] = '%s: %s' % (type(e).__name__, str(e)[:120])
            out['result'] = None
    out['int_poly'] = tap.int_poly
    return out


# ====================================================================== generators
def lat_to_world(fr, lp):
    return [fr.to_world(i, j) for i, j in lp]


def exact_frame(rng):
    return G.Frame(rng.choice([0.5, 1.0, 2.5, 3.0, 8.0]), rng.randint(-40, 40) / 4.0,
                   rng.randint(-40, 40) / 4.0, 0.0)


def rot_frame(rng):
    return G.Frame(rng.choice([0.5, 1.0, 2.5, 3.0, 8.0]), rng.randint(-40, 40) / 4.0,
                   rng.randint(-40, 40) / 4.0, rng.uniform(0, 2 * math.pi))


def loops_of_tiles(tiles):
    """boundary and holes of every tile as separate loops (what join_coplanar_faces feeds)."""
    out = []
    for t in tiles:
        b, hs = G.tile_parts(t)
        out.append(list(b))
        out.extend(list(h) for h in hs)
    return out


def wall_family(rng, shape=None):
    """Own generator: a long wall `blk(0, -w, L, 0)` and tiles standing on its long edge y = 0:
    comb (k teeth), U, stair with fillers, stack of rectangles.  -> (cell sets, shape)."""
    shape = shape or rng.choice(['comb', 'comb', 'U', 'stair', 'stack', 'combcomb'])
    w = rng.choice([1, 1, 2])
    tiles = []
    if shape in ('comb', 'combcomb'):
        k = rng.choice([2, 3, 3, 4, 5])
        xs, x = [], rng.choice([0, 1, 2])
        for _ in range(k):
            tw = rng.choice([1, 1, 2])
            xs.append((x, x + tw))
            x += tw + rng.choice([1, 1, 2])
        a, b = xs[0][0], xs[-1][1]
        L = b + rng.choice([0, 1, 2])
        th = rng.choice([1, 1, 2])
        comb = G.blk(a, th, b, th + rng.choice([1, 2]))
        for (x0, x1) in xs:
            comb |= G.blk(x0, 0, x1, th)
        tiles = [G.blk(0, -w, L, 0), comb]
        for (x0, x1), (y0, y1) in zip(xs, xs[1:]):
            mode = rng.choice(['void', 'void', 'fill', 'half'])
            if mode == 'fill':
                tiles.append(G.blk(x1, 0, y0, th))
            elif mode == 'half' and th == 2:
                tiles.append(G.blk(x1, 0, y0, 1))
        if shape == 'combcomb':
            tiles.append(set((x_, -w - 1 - y_) for x_, y_ in comb))
    elif shape == 'U':
        g = rng.choice([1, 2, 3])
        x0 = rng.choice([0, 1, 2])
        th = rng.choice([1, 2])
        u = G.blk(x0, th, x0 + g + 2, th + 1) | G.blk(x0, 0, x0 + 1, th) | \
            G.blk(x0 + g + 1, 0, x0 + g + 2, th)
        L = x0 + g + 2 + rng.choice([0, 1, 2])
        tiles = [G.blk(0, -w, L, 0), u]
        if rng.random() < 0.4:
            tiles.append(G.blk(x0 + 1, 0, x0 + 1 + rng.randint(1, g), th))
    elif shape == 'stair':
        n = rng.choice([3, 4, 5])
        x0 = rng.choice([0, 1])
        stair = set()
        for i in range(n):           # column i: cells from height i (step) up to n
            stair |= G.blk(x0 + i, i, x0 + i + 1, n + 1)
        L = x0 + n + rng.choice([0, 1, 2])
        tiles = [G.blk(0, -w, L, 0), stair]
        for i in range(1, n):        # fillers under the steps: rectangles of growing height
            if rng.random() < 0.75:
                tiles.append(G.blk(x0 + i, 0, x0 + i + 1, i))
    else:
        x = rng.choice([0, 1])
        tiles = [None]
        for _ in range(rng.choice([3, 4, 5])):
            tw = rng.choice([1, 1, 2])
            if rng.random() < 0.8:
                tiles.append(G.blk(x, 0, x + tw, rng.choice([1, 2, 3])))
            x += tw
        L = x + rng.choice([0, 1])
        tiles[0] = G.blk(0, -w, L, 0)
    f = G.dihedral(rng.randrange(8))
    return [G.xf_cells(f, t) for t in tiles if t], shape


def jitter_polys(rng, polys, tol):
    return [[(x + rng.uniform(-tol / 4, tol / 4), y + rng.uniform(-tol / 4, tol / 4))
             for x, y in p] for p in polys]


AXIS_PLANES = [((0.0, 0.0, 1.0), (0.0, 0.0, 0.0)), ((0.0, 0.0, -1.0), (1.0, 2.0, 0.5)),
               ((1.0, 0.0, 0.0), (2.0, -1.0, 0.5)), ((0.0, -1.0, 0.0), (0.25, 3.0, -2.0)),
               ((0.0, 1.0, 0.0), (0.0, 0.0, 0.0)), ((-1.0, 0.0, 0.0), (-4.0, 0.5, 8.0))]
TILT_PLANES = [((2 / 7.0, -3 / 7.0, 6 / 7.0), (-3.25, 4.0, 1.5)),
               ((0.0, 0.6, 0.8), (1.0, 1.0, 1.0)), ((1 / 3.0, 2 / 3.0, -2 / 3.0), (0.0, 2.5, -1.0))]


def lift_tiles(tiles, fr, pl):
    """lattice tiles -> [(boundary3d, holes3d)] in the plane pl = (n, o)."""
    plane = Plane(Vector3D(*pl[0]), Point3D(*pl[1]))
    out = []
    for t in tiles:
        b, hs = G.tile_parts(t)
        out.append(([xyz(plane.xy_to_xyz(Point2D(*fr.to_world(i, j)))) for i, j in b],
                    [[xyz(plane.xy_to_xyz(Point2D(*fr.to_world(i, j)))) for i, j in h]
                     for h in hs]))
    return out, plane


# ====================================================================== engine
class _Engine(object):
    def __init__(self, ctx):
        self.ctx = ctx
        self.thorough = ctx.tier == 'thorough' or bool(getattr(ctx, 'broken', None))
        self.t0 = time.time()
        self.t_end = min(ctx.deadline, self.t0 + (THOROUGH_BUDGET if self.thorough
                                                  else QUICK_BUDGET))
        self.cases = []
        self.weight = 0
        self.hist = {'kind': {}, 'stream': {}, 'tiles': {}, 'inserted_vertices': {},
                     'max_inserted_on_one_edge': {}, 'naked_segments': {}, 'outlines': {},
                     'faces_out': {}, 'holes_out': {}, 'exceptions': {}, 'updates_per_segment': {},
                     'not_idempotent': 0, 'all_starts_both_orientations': 0}
        self.req = 0
        self.nontrivial = 0
        self.ties = 0
        self.dis = {}
        self.samples = []

    def bump(self, h, k, n=1):
        d = self.hist[h]
        d[k] = d.get(k, 0) + n

    def more(self):
        # the driver needs about 11 ms per request (start-up 1.5 s per call); generation and the
        # real runs are cheap
        return self.weight < (13000 if self.thorough else 1200) and \
            time.time() < self.t0 + (self.t_end - self.t0) * 0.3

    def add(self, kind, inp, stream):
        self.cases.append((kind, inp, stream))
        self.weight += {'boundary': 3, 'faces': 2, 'merge': 2}.get(kind, 1)

    # ------------------------------------------------------------------ one case -> requests
    def prepare(self, kind, inp):
        """-> (list of (tag, op, args, real_value), info) ; real_value None ≙ exception expected
        (model answers null)."""
        info = {}
        if kind == 'insert':
            poly = Polygon2D([Point2D(*p) for p in inp['verts']])
            ups = [(i, Point2D(*p)) for i, p in inp['ups']]
            try:
                r = [xy(v) for v in Polygon2D._insert_updates_in_order(poly, ups).vertices]
            except Exception as e:  # noqa: BLE001
                return [('insert', None, None, 'raises %s' % type(e).__name__)], info
            cnt = {}
            for i, _ in inp['ups']:
                cnt[i] = cnt.get(i, 0) + 1
            info['mult'] = max(cnt.values()) if cnt else 0
            info['nontrivial'] = info['mult'] >= 2
            return [('insert', 'model.insert_updates',
                     [wpoly(inp['verts']), [[i, wp(p)] for i, p in inp['ups']]], r)], info
        if kind == 'isect2':
            p1 = Polygon2D([Point2D(*p) for p in inp['p1']])
            p2 = Polygon2D([Point2D(*p) for p in inp['p2']])
            try:
                a, b = Polygon2D.intersect_segments(p1, p2, inp['tol'])
                r = [[xy(v) for v in a.vertices], [xy(v) for v in b.vertices]]
            except Exception as e:  # noqa: BLE001
                return [('isect2', None, None, 'raises %s' % type(e).__name__)], info
            info['inserted'] = len(r[0]) + len(r[1]) - len(inp['p1']) - len(inp['p2'])
            info['nontrivial'] = info['inserted'] > 0
            return [('isect2', 'model.intersect_segments',
                     [wpoly(inp['p1']), wpoly(inp['p2']), W(inp['tol'])], r)], info
        if kind == 'boundary':
            polys, tol = inp['polys'], inp['tol']
            R = real_boundary(polys, tol)
            if R['unexpected']:
                return [('boundary', None, None, 'raises ' + R['unexpected'])], info
            reqs = []
            if R['int_poly'] is not None:
                reqs.append(('intersect', 'model.intersect_polygon_segments',
                             [[wpoly(p) for p in polys], W(tol)], R['int_poly']))
                ins = sum(len(p) for p in R['int_poly']) - sum(len(p) for p in polys)
                info['inserted'] = ins
                info['maxrun'] = max_run(polys, R['int_poly'])
                # idempotence of the real pre-pass on its own output (observation, not compared)
                try:
                    again = Polygon2D.intersect_polygon_segments(
                        [Polygon2D([Point2D(*p) for p in q]) for q in R['int_poly']], tol)
                    info['idempotent'] = [[xy(v) for v in p.vertices] for p in again] \
                        == R['int_poly']
                except Exception:  # noqa: BLE001
                    info['idempotent'] = None
                if R['ext_edges'] is not None:
                    reqs.append(('naked', 'model.naked_segments',
                                 [[wpoly(p) for p in R['int_poly']], W(tol)], R['ext_edges']))
                    info['naked'] = len(R['ext_edges'])
            reqs.append(('boundary', 'model.joined_intersected_boundary',
                         [[wpoly(p) for p in polys], W(tol)], R['result']))
            info['exc'] = R['exc']
            info['outlines'] = None if R['result'] is None else len(R['result'])
            info['nontrivial'] = bool(info.get('inserted'))
            return reqs, info
        if kind == 'faces':
            plane0 = Plane(Vector3D(*inp['plane'][0]), Point3D(*inp['plane'][1]))
            try:
                objs = build_faces(inp['faces'], plane0)
            except Exception as e:  # noqa: BLE001
                return [], {'skip': 'construction: %s' % type(e).__name__}
            tol = inp['tol']
            R = real_faces(objs, tol)
            if R['unexpected']:
                return [('faces', None, None, 'raises ' + R['unexpected'])], info
            base = objs[0].plane
            fin = [face_loops(f) for f in objs]
            reqs = [('faces', 'model.join_coplanar_faces',
                     [wplane(base), [[wpoly(b), [wpoly(h) for h in hs]] for b, hs in fin], W(tol)],
                     R['result'])]
            # the same in plane coordinates
            def to2(p):
                return xy(base.xyz_to_xy(Point3D(*p)))
            fin2 = [[[to2(p) for p in b], [[to2(p) for p in h] for h in hs]] for b, hs in fin]
            res2 = None if R['result'] is None else \
                [[[to2(p) for p in b], [[to2(p) for p in h] for h in hs]] for b, hs in R['result']]
            reqs.append(('faces2', 'model.join_coplanar_faces2',
                         [[[wpoly(b), [wpoly(h) for h in hs]] for b, hs in fin2], W(tol)], res2))
            info['exc'] = R['exc']
            if R['int_poly'] is not None:
                nin = sum(len(b) + sum(len(h) for h in hs) for b, hs in fin)
                info['inserted'] = sum(len(p) for p in R['int_poly']) - nin
            if res2 is not None:
                info['faces_out'] = len(res2)
                info['holes_out'] = sum(len(hs) for _, hs in res2)
                info['areas'] = [abs(shoelace(b)) for b, _ in res2] + \
                    [abs(shoelace(h)) for _, hs in res2 for h in hs]
            info['nontrivial'] = bool(info.get('holes_out')) or bool(info.get('inserted'))
            return reqs, info
        if kind == 'merge':
            rects, tol = inp['rects'], inp['tol']
            loops = [[(x0, y0), (x1, y0), (x1, y1), (x0, y1)] for x0, y0, x1, y1 in rects]
            reqs = []
            # 3D: faces in the plane z = 1
            faces = [Face3D([Point3D(x, y, 1.0) for x, y in lp]) for lp in loops]
            areas = [f.area for f in faces]
            ins = [[bool(a.is_sub_face(b, tol, 1)) for b in faces] for a in faces]
            try:
                res = Face3D.merge_faces_to_holes(list(faces), tol) if len(faces) != 1 else None
                if res is not None:
                    out = []
                    for f in res:
                        bi = match_loop([xyz(v)[:2] for v in f.boundary], loops)
                        hi = [match_loop([xyz(v)[:2] for v in h], loops) for h in f.holes] \
                            if f.has_holes else []
                        out.append([bi, hi])
                    reqs.append(('merge3', 'model.merge_faces_to_holes',
                                 [[W(a) for a in areas], ins], out))
                    info['holes_out'] = sum(len(h) for _, h in out)
            except Exception as e:  # noqa: BLE001
                reqs.append(('merge3', None, None, 'raises %s' % type(e).__name__))
            # 2D
            polys = [Polygon2D([Point2D(*p) for p in lp]) for lp in loops]
            areas2 = [p.area for p in polys]
            try:
                ins2 = [[a.polygon_relationship(b, tol) == 1 for b in polys] for a in polys]
                res = Polygon2D.group_boundaries_and_holes(list(polys), tol)
                out = [[polys.index(g[0]), [polys.index(h) for h in g[1:]]] for g in res]
                reqs.append(('group2', 'model.group_boundaries_and_holes',
                             [[W(a) for a in areas2], ins2], out))
            except Exception as e:  # noqa: BLE001
                reqs.append(('group2', None, None, 'raises %s' % type(e).__name__))
            info['nontrivial'] = bool(info.get('holes_out'))
            info['areas'] = areas
            return reqs, info
        raise ValueError(kind)

    # ------------------------------------------------------------------ run everything
    def run(self):
        batch, owners = [], []
        prepared = []
        for ci, (kind, inp, stream) in enumerate(self.cases):
            if time.time() > self.t_end - 2.0:
                break
            try:
                reqs, info = self.prepare(kind, inp)
            except Exception as e:  # noqa: BLE001
                self.record(kind, 'harness', 'raises %s' % type(e).__name__, inp,
                            None, '%s: %s' % (type(e).__name__, str(e)[:200]), stream)
                continue
            if info.get('skip'):
                continue
            prepared.append((ci, reqs, info))
            self.account(kind, stream, inp, info)
            for (tag, op, args, real) in reqs:
                if op is None:
                    self.record(kind, tag, real, inp, None, real, stream)
                    continue
                owners.append((ci, tag, real, info))
                batch.append((op, args))
        answers = []
        CH = 2500
        for k in range(0, len(batch), CH):
            if k and time.time() > self.t_end - 8.0:
                break
            answers.extend(self.ctx.driver.run(batch[k:k + CH], timeout=1200))
        for (ci, tag, real, info), (ok, val) in zip(owners, answers):
            kind, inp, stream = self.cases[ci]
            self.req += 1
            if not ok:
                self.record(kind, tag, 'model error', inp, val, real, stream)
                continue
            d = differ(unwire(val), real, '')
            if d:
                if tag in ('faces', 'faces2') and real is not None and \
                        isinstance(unwire(val), list) and area_tie(info.get('areas')) and \
                        not differ(canon_faces(unwire(val)), canon_faces(real), ''):
                    # two returned loops of (nearly) equal area: the stable sort by area is
                    # decided by rounding; the faces agree up to the order of holes / faces
                    self.ties += 1
                    continue
                self.record(kind, tag, d, inp, unwire(val), real, stream)
        if len(self.samples) < 3:
            for (kind, inp, stream) in self.cases[:400]:
                if kind in ('boundary', 'faces') and len(self.samples) < 3 and \
                        stream.startswith('wall'):
                    self.samples.append({'kind': kind, 'stream': stream, 'input': inp})
        return {'requests': self.req, 'nontrivial': self.nontrivial,
                'rule': 'a comparison is non-trivial when the real call inserted at least one '
                        'vertex (T-junction) / received >= 2 updates on one segment (insert) / '
                        'returned a face with holes (faces, merge)',
                'disagreements': list(self.dis.values()), 'float_ties': self.ties,
                'histograms': self.hist, 'samples': self.samples}

    def account(self, kind, stream, inp, info):
        self.bump('kind', kind)
        self.bump('stream', stream)
        if info.get('nontrivial'):
            self.nontrivial += 1
        if kind == 'insert':
            self.bump('updates_per_segment', min(info.get('mult', 0), 6))
        if 'inserted' in info:
            self.bump('inserted_vertices', min(info['inserted'], 12))
        if 'maxrun' in info:
            self.bump('max_inserted_on_one_edge', min(info['maxrun'], 8))
        if 'naked' in info:
            self.bump('naked_segments', min(info['naked'] // 4 * 4, 60))
        if info.get('outlines') is not None:
            self.bump('outlines', info['outlines'])
        if info.get('exc'):
            self.bump('exceptions', info['exc'])
        if 'faces_out' in info:
            self.bump('faces_out', info['faces_out'])
            self.bump('holes_out', info['holes_out'])
        if info.get('idempotent') is False:
            self.hist['not_idempotent'] += 1
        if kind in ('boundary', 'faces'):
            n = len(inp['polys']) if kind == 'boundary' else len(inp['faces'])
            self.bump('tiles', min(n, 20))

    def record(self, kind, tag, what, inp, model, real, stream):
        sig = '%s|%s' % (OPNAME.get(tag, tag), classify(what))
        if sig in self.dis:
            self.dis[sig]['hits'] += 1
            if size_of(inp) >= size_of(self.dis[sig]['input']):
                return
            hits = self.dis[sig]['hits']
        else:
            hits = 1
        self.dis[sig] = {'signature': sig, 'what': '%s [%s]: %s' % (OPNAME.get(tag, tag), stream,
                                                                    what),
                         'op': OPNAME.get(tag, tag), 'args': None, 'kind': kind, 'tag': tag,
                         'input': inp, 'model': brief(model), 'real': brief(real),
                         'seed': self.ctx.seed, 'hits': hits}

    def one(self, kind, inp):
        """replay of a single case -> disagreement dict or None."""
        self.cases = [(kind, inp, 'replay')]
        r = self.run()
        return r['disagreements'][0] if r['disagreements'] else None


OPNAME = {'insert': 'model.insert_updates', 'isect2': 'model.intersect_segments',
          'intersect': 'model.intersect_polygon_segments', 'naked': 'model.naked_segments',
          'boundary': 'model.joined_intersected_boundary', 'faces': 'model.join_coplanar_faces',
          'faces2': 'model.join_coplanar_faces2', 'merge3': 'model.merge_faces_to_holes',
          'group2': 'model.group_boundaries_and_holes'}


def classify(what):
    w = str(what)
    if w.startswith('raises'):
        return w.split(':')[0]
    if 'length' in w:
        return 'structure differs'
    if 'model error' in w:
        return 'model error'
    if '(model) vs' in w:
        return 'values differ'
    return 'differs'


def size_of(inp):
    return len(repr(inp))


def brief(v):
    s = repr(v)
    return s if len(s) < 1500 else s[:1500] + '…'


def shoelace(lp):
    return sum(lp[i - 1][0] * lp[i][1] - lp[i][0] * lp[i - 1][1] for i in range(len(lp))) / 2.0


def area_tie(areas):
    if not areas:
        return False
    a = sorted(areas)
    return any(abs(x - y) <= 1e-9 * max(1.0, abs(y)) for x, y in zip(a, a[1:]))


def canon_faces(res):
    """faces [[boundary, holes], ...] with holes and faces ordered by their smallest vertex
    (rounded), for comparison up to the order decided by an area tie."""
    def key(lp):
        return min(tuple(round(float(c), 6) for c in p) for p in lp)
    out = []
    for b, hs in res:
        out.append([b, sorted(hs, key=key)])
    return sorted(out, key=lambda f: key(f[0]))


def match_loop(pts, loops):
    """index of the input loop with the same vertex set (the faces may have been reversed)."""
    key = sorted((round(x, 9), round(y, 9)) for x, y in pts)
    for i, lp in enumerate(loops):
        if sorted((round(float(x), 9), round(float(y), 9)) for x, y in lp) == key:
            return i
    return -1


def max_run(before, after):
    """largest number of vertices inserted between two consecutive original vertices."""
    best = 0
    for b, a in zip(before, after):
        if len(a) == len(b):
            continue
        j, run = 0, 0
        for v in a:
            if j < len(b) and v == b[j]:
                j += 1
                run = 0
            else:
                run += 1
                best = max(best, run)
    return best


# ====================================================================== case construction
def boundary_case(E, tiles, fr, tol, stream, rng=None, jitter=False, exact=True):
    polys = [lat_to_world(fr, lp) for lp in loops_of_tiles(tiles)]
    if jitter:
        polys = jitter_polys(rng, polys, tol)
    E.add('boundary', {'polys': polys, 'tol': tol, 'exact': exact and not jitter}, stream)


def faces_case(E, tiles, fr, tol, pl, stream, exact=True):
    faces, _ = lift_tiles(tiles, fr, pl)
    E.add('faces', {'faces': faces, 'plane': [list(pl[0]), list(pl[1])], 'tol': tol,
                    'exact': exact}, stream)


def all_presentations(tile):
    b, hs = G.tile_parts(tile)
    out = []
    for rev in (False, True):
        for k in range(len(b)):
            pb = G.present_loop(b, rev, k)
            out.append(pb if not hs else {'b': pb, 'h': [G.present_loop(h, rev, k) for h in hs]})
    return out


def fixed_corpus(E):
    tol = 0.01
    fr0 = G.Frame(1.0, 0.0, 0.0, 0.0)
    # ---- _insert_updates_in_order: every order of 3 updates on one edge, every start vertex
    sq = [(0.0, 0.0), (4.0, 0.0), (4.0, 4.0), (0.0, 4.0)]
    import itertools
    for k in range(4):
        vs = sq[k:] + sq[:k]
        for rev in (False, True):
            v2 = vs[::-1] if rev else vs
            for seg in range(4):
                a, b = v2[seg], v2[(seg + 1) % 4]
                pts = [(a[0] + (b[0] - a[0]) * t, a[1] + (b[1] - a[1]) * t)
                       for t in (0.25, 0.5, 0.75)]
                for perm in itertools.permutations(range(3)):
                    ups = [(seg, pts[i]) for i in perm]
                    other = (seg + 2) % 4
                    c, d = v2[other], v2[(other + 1) % 4]
                    ups.insert(1, (other, ((c[0] + d[0]) / 2, (c[1] + d[1]) / 2)))
                    E.add('insert', {'verts': v2, 'ups': ups}, 'fixed')
    E.add('insert', {'verts': sq, 'ups': []}, 'fixed')
    E.add('insert', {'verts': sq, 'ups': [(3, (0.0, 1.0)), (3, (0.0, 3.0)), (3, (0.0, 2.0)),
                                          (3, (0.0, 2.0)), (0, (1.0, 0.0))]}, 'fixed')
    # ---- the probes of props/c18.py: collinear walls, combs (every start, both orientations,
    # wall before / after), rings with holes
    for rects in G.PROBE_TILINGS:
        tiles = [[(x0, y0), (x1, y0), (x1, y1), (x0, y1)] for x0, y0, x1, y1 in rects]
        boundary_case(E, tiles, fr0, tol, 'fixed/collinear-walls')
        faces_case(E, tiles, fr0, tol, AXIS_PLANES[0], 'fixed/collinear-walls')
    for pi, tcells in enumerate(G.PROBE_COMBS):
        base = [G.make_tile(t) for t in tcells]
        for ti in range(len(base)):
            for pn, pres in enumerate(all_presentations(base[ti])):
                for order in (0, 1):
                    if not E.thorough and (pn + order) % 2:
                        continue         # quick tier: wall before / after alternate
                    tiles = list(base)
                    tiles[ti] = pres
                    if order:
                        tiles = tiles[::-1]
                    boundary_case(E, tiles, fr0, tol, 'fixed/comb-all-starts')
                    if (len(E.cases) % 3) == 0:
                        faces_case(E, tiles, G.Frame(2.5, 1.25, -3.0, 0.0), tol,
                                   AXIS_PLANES[len(E.cases) % len(AXIS_PLANES)],
                                   'fixed/comb-all-starts')
        E.hist['all_starts_both_orientations'] += 1
    for pi, tcells in enumerate(G.PROBE_RINGS):
        base = [G.make_tile(t) for t in tcells]
        for pl in AXIS_PLANES[:3]:
            faces_case(E, base, fr0, tol, pl, 'fixed/rings')
            faces_case(E, base[::-1], G.Frame(0.5, -2.0, 4.25, 0.0), tol, pl, 'fixed/rings')
        boundary_case(E, base, fr0, tol, 'fixed/rings')
        for ti in range(len(base)):
            for pres in all_presentations(base[ti])[::3]:
                tiles = list(base)
                tiles[ti] = pres
                faces_case(E, tiles, fr0, tol, AXIS_PLANES[(ti + pi) % 6], 'fixed/rings-starts')
    # ---- a ring alone, a ring whose hole is filled, a single tile, degenerate input
    ring = G.make_tile(G.blk(0, 0, 3, 3) - {(1, 1)})
    faces_case(E, [ring], fr0, tol, AXIS_PLANES[0], 'fixed/ring-alone')
    boundary_case(E, [ring], fr0, tol, 'fixed/ring-alone')
    sq1 = [(0, 0), (2, 0), (2, 2), (0, 2)]
    boundary_case(E, [sq1], fr0, tol, 'fixed/single')
    faces_case(E, [sq1], fr0, tol, AXIS_PLANES[0], 'fixed/single')
    boundary_case(E, [sq1, sq1], fr0, tol, 'fixed/duplicate-tile')          # nothing naked
    faces_case(E, [sq1, sq1], fr0, tol, AXIS_PLANES[0], 'fixed/duplicate-tile')   # IndexError
    boundary_case(E, [sq1, [(5, 5), (6, 5), (6, 6), (5, 6)]], fr0, tol, 'fixed/disjoint')
    faces_case(E, [sq1, [(5, 5), (6, 5), (6, 6), (5, 6)]], fr0, tol, AXIS_PLANES[0],
               'fixed/disjoint')
    # colinear vertex in a face boundary (removed by join_coplanar_faces, kept by the 2D entry)
    faces_case(E, [[(0, 0), (1, 0), (2, 0), (2, 2), (0, 2)], [(2, 0), (4, 0), (4, 2), (2, 2)]],
               fr0, tol, AXIS_PLANES[0], 'fixed/colinear-vertex')
    # ---- grouping loops: nested rectangles, islands, equal areas
    for rects in ([(0, 0, 10, 10)], [(0, 0, 10, 10), (1, 1, 9, 9)],
                  [(0, 0, 10, 10), (1, 1, 9, 9), (2, 2, 8, 8)],
                  [(0, 0, 10, 10), (1, 1, 9, 9), (2, 2, 8, 8), (3, 3, 7, 7)],
                  [(1, 1, 4, 4), (0, 0, 10, 10), (5, 5, 8, 8), (20, 0, 30, 10), (21, 1, 24, 4)],
                  [(0, 0, 10, 10), (20, 0, 30, 10), (1, 1, 3, 3), (21, 1, 23, 3), (5, 5, 7, 7)],
                  [(2, 2, 4, 4), (0, 0, 10, 10), (1, 1, 5, 5), (6, 6, 9, 9), (6.5, 6.5, 8, 8)]):
        E.add('merge', {'rects': [tuple(float(c) for c in r) for r in rects], 'tol': tol}, 'fixed')
    # ---- own wall family, small instances: every start and both orientations of EVERY tile
    R = random.Random('corr.joinoutline/fixed-walls')
    for shape in ('comb', 'U', 'stair', 'stack'):
        for _ in range(20):
            tcells, _s = wall_family(R, shape)
            base = [G.make_tile(t) for t in tcells]
            if all(b is not None for b in base) and G.trun_stats(base)[0] >= 3:
                break
        else:
            continue
        E.hist['all_starts_both_orientations'] += 1
        for ti in range(len(base)):
            for pres in all_presentations(base[ti]):
                tiles = list(base)
                tiles[ti] = pres
                boundary_case(E, tiles, fr0, tol, 'wall/%s-all-starts' % shape)
        faces_case(E, base, fr0, tol, AXIS_PLANES[2], 'wall/%s' % shape)


def gen_all(E, seed):
    fixed_corpus(E)
    RI = random.Random('%s/corr.joinoutline/insert' % seed)
    RT = random.Random('%s/corr.joinoutline/tilings' % seed)
    RW = random.Random('%s/corr.joinoutline/walls' % seed)
    RM = random.Random('%s/corr.joinoutline/merge' % seed)
    rounds = 4000 if E.thorough else 40
    for k in range(rounds):
        if not E.more():
            break
        # ---------------- insert: random polygon, random updates in random order
        for _ in range(3):
            n = RI.randint(3, 7)
            verts = [(RI.randint(-20, 20) / 4.0, RI.randint(-20, 20) / 4.0) for _ in range(n)]
            if len(set(verts)) < n:
                continue
            ups = []
            for _u in range(RI.randint(0, 9)):
                i = RI.randrange(n)
                a, b = verts[i], verts[(i + 1) % n]
                if RI.random() < 0.85:
                    t = RI.randint(0, 8) / 8.0
                    p = (a[0] + (b[0] - a[0]) * t, a[1] + (b[1] - a[1]) * t)
                else:
                    p = (RI.randint(-20, 20) / 4.0, RI.randint(-20, 20) / 4.0)
                ups.append((i, p))
            E.add('insert', {'verts': verts, 'ups': ups}, 'random')
        # ---------------- rectangle tilings of props/c18.py
        kind = RT.choice(['solid', 'solid', 'void', 'pinch', 'two', 'island'])
        t = G.gen_tiling(RT, kind)
        if t:
            tiles = t['lat_polys']
            tol = t['tol']
            mode = k % 4
            if mode == 0:
                boundary_case(E, tiles, exact_frame(RT), tol, 'rect/%s' % kind)
            elif mode == 1:
                boundary_case(E, tiles, rot_frame(RT), tol, 'rect/%s/rotated' % kind, exact=False)
            elif mode == 2:
                boundary_case(E, tiles, exact_frame(RT), tol, 'rect/%s/jitter' % kind, RT, True)
            else:
                faces_case(E, tiles, exact_frame(RT), tol, RT.choice(AXIS_PLANES),
                           'rect/%s' % kind)
            if len(tiles) >= 2 and k % 5 == 0:
                fr = exact_frame(RT)
                a, b = RT.sample(range(len(tiles)), 2)
                E.add('isect2', {'p1': lat_to_world(fr, tiles[a]), 'p2': lat_to_world(fr, tiles[b]),
                                 'tol': tol}, 'rect/%s' % kind)
        # ---------------- polyomino tilings of props/c18.py (combs, rings with holes, parts)
        pk = RT.choice(['comb', 'ring', 'ring', 'polypart'])
        t = G.gen_polytiling(RT, pk)
        if t:
            tiles = [G.present(RT, x) for x in t['tiles']]
            if RT.random() < 0.3:
                tiles = [G.densify_tile(RT, x) for x in tiles]
            RT.shuffle(tiles)
            tol = t['tol']
            mode = k % 5
            if mode in (0, 1):
                faces_case(E, tiles, exact_frame(RT), tol, RT.choice(AXIS_PLANES), 'poly/%s' % pk)
            elif mode == 2:
                faces_case(E, tiles, rot_frame(RT), tol, RT.choice(TILT_PLANES),
                           'poly/%s/tilted' % pk, exact=False)
            elif mode == 3:
                boundary_case(E, tiles, exact_frame(RT), tol, 'poly/%s' % pk)
            else:
                boundary_case(E, tiles, exact_frame(RT), tol, 'poly/%s/jitter' % pk, RT, True)
        # ---------------- own wall family
        tcells, shape = wall_family(RW)
        base = [G.make_tile(x) for x in tcells]
        if all(b is not None for b in base) and len(base) >= 2:
            tiles = [G.present(RW, x) for x in base]
            RW.shuffle(tiles)
            tol = RW.choice([1e-3, 2e-3, 5e-3, 1e-2])
            mode = k % 4
            if mode == 0:
                boundary_case(E, tiles, exact_frame(RW), tol, 'wall/%s' % shape)
            elif mode == 1:
                faces_case(E, tiles, exact_frame(RW), tol, RW.choice(AXIS_PLANES),
                           'wall/%s' % shape)
            elif mode == 2:
                boundary_case(E, tiles, exact_frame(RW), tol, 'wall/%s/jitter' % shape, RW, True)
            else:
                boundary_case(E, tiles, rot_frame(RW), tol, 'wall/%s/rotated' % shape, exact=False)
            if E.thorough and k % 6 == 0:
                ti = RW.randrange(len(base))
                fr = exact_frame(RW)
                for pres in all_presentations(base[ti]):
                    t2 = list(base)
                    t2[ti] = pres
                    boundary_case(E, t2, fr, tol, 'wall/%s-all-starts' % shape)
        # ---------------- grouping loops: random rectangle families (nested, disjoint, overlapping)
        if k % 2 == 0:
            rects = []
            for _ in range(RM.randint(1, 7)):
                if rects and RM.random() < 0.6:
                    x0, y0, x1, y1 = RM.choice(rects)
                    if x1 - x0 >= 3 and y1 - y0 >= 3:
                        a0 = RM.randint(int(x0) + 1, int(x1) - 2)
                        b0 = RM.randint(int(y0) + 1, int(y1) - 2)
                        rects.append((float(a0), float(b0), float(RM.randint(a0 + 1, int(x1) - 1)),
                                      float(RM.randint(b0 + 1, int(y1) - 1))))
                        continue
                x0, y0 = RM.randint(-30, 30), RM.randint(-30, 30)
                rects.append((float(x0), float(y0), float(x0 + RM.randint(2, 14)),
                              float(y0 + RM.randint(2, 14))))
            rects = sorted(set(rects))      # identical loops cannot be told apart in the result
            RM.shuffle(rects)
            E.add('merge', {'rects': rects, 'tol': 0.01, 'exact': True}, 'random')


# ====================================================================== interface
def run(ctx, prop):
    if prop != 'C18':
        return {'requests': 0, 'nontrivial': 0, 'rule': 'no model of %s here' % prop,
                'disagreements': [], 'float_ties': 0, 'histograms': {}, 'samples': []}
    E = _Engine(ctx)
    gen_all(E, ctx.seed)
    return E.run()


def _tuplify(x):
    if isinstance(x, list):
        return [_tuplify(v) for v in x]
    return x


def replay(ctx, disagreement):
    kind, inp = disagreement.get('kind'), disagreement.get('input')
    if kind not in ('insert', 'isect2', 'boundary', 'faces', 'merge') or inp is None:
        return None
    if kind == 'insert':
        inp = {'verts': [tuple(p) for p in inp['verts']],
               'ups': [(i, tuple(p)) for i, p in inp['ups']]}
    if kind == 'merge':
        inp = dict(inp, rects=[tuple(r) for r in inp['rects']])
    r = _Engine(ctx).one(kind, inp)
    return r if isinstance(r, dict) else None


if __name__ == '__main__':
    class Ctx(object):
        pass
    args = sys.argv[1:]
    nums = [a for a in args if a.lstrip('-').isdigit()]
    ctx = Ctx()
    ctx.seed = int(nums[0]) if nums else int(os.environ.get('VERIF_SEED', '0'))
    ctx.tier = 'thorough' if 'thorough' in args else os.environ.get('VERIF_TIER', 'quick')
    ctx.broken = []
    ctx.driver = lbg.Driver()
    ctx.deadline = time.time() + 3600
    t = time.time()
    r = run(ctx, 'C18')
    print('C18 seed %d %s: %d requests, %d non-trivial, %d float ties, %d disagreements, %.1fs'
          % (ctx.seed, ctx.tier, r['requests'], r['nontrivial'], r['float_ties'],
             len(r['disagreements']), time.time() - t))
    for h in sorted(r['histograms']):
        v = r['histograms'][h]
        print('   %-28s %s' % (h, sorted(v.items(), key=lambda kv: str(kv[0]))
                               if isinstance(v, dict) else v))
    for d in r['disagreements']:
        print('   DISAGREE', d['signature'], '::', d['what'][:300], 'hits', d['hits'])
        print('            input', brief(d['input'])[:600])
        print('            model', d['model'][:300])
        print('            real ', d['real'][:300])
        import json
        again = replay(ctx, json.loads(json.dumps(d, default=lbg._json_default)))
        print('            replay:', 'reproduced' if again else 'NOT reproduced')
    sys.exit(1 if r['disagreements'] else 0)
