"""Model correspondence for the literal hand models of the composite distance routines of C12.

C12 — `Model/PolyDistance.lean` vs `geometry2d/polygon.py`:
  * group `edge_distance`: `model.polygon_edge_distance_sq` (exact rational, no sqrt) and
    `model.polygon_edge_distance` (IEEE sqrt) vs `Polygon2D.distance_from_edge_to_point`;
  * group `distance_to_point`: `model.polygon_distance_sq` / `model.polygon_distance` vs
    `Polygon2D.distance_to_point` (0 where the crossing test of `is_point_inside_bound_rect`
    with the default test vector reports inside);
  * group `cell`: `model.cell` / `model.cell_sq` vs `_Cell(x, y, h, polygon)` (`d`, `max`, the
    inside flag as the sign of `d`, `min_dist_sq` as `d * d`), `model.centroid_cell` vs
    `Polygon2D._get_centroid_cell`;
  * group `pole`: `model.pole_of_inaccessibility` vs `Polygon2D.pole_of_inaccessibility`
    (returned point; distance of the returned point re-measured with the real `_Cell`; the
    degenerate early return), and `Face3D.pole_of_inaccessibility` vs the model's 2D pole of
    `face.polygon2d` lifted with the real `plane.xy_to_xyz`;
  * group `between_lines` (`Model/SegSeg.lean`): `model.closest_points_between` /
    `model.closest_end_points_between` vs `closest_point2d_between_line2d` /
    `closest_end_point2d_between_line2d` (and `LineSegment2D.closest_points_between_line`,
    `distance_to_line`) on segment pairs: disjoint, parallel, collinear, touching, crossing
    (outside the documented precondition, still compared: the model is literal), zero length.

Polygons: dyadic-lattice convex / star (concave) / rectilinear / random loops, both
orientations, every cyclic start; a second stream with arbitrary doubles.  Query points inside,
outside, on sides, at vertices, on the extension of a side, level with a vertex.

Squared distances are compared exactly in rationals: the model's value m (exact) must satisfy
(r - t)^2 <= m <= (r + t)^2 for the real (double) result r and t = 1e-12 * scale (lattice
stream; 1e-9 on the float stream), scale = max(1, largest coordinate).  Inside/outside
decisions within 1e-9 of a threshold of the code are float ties and are not compared.  The
polylabel run is compared as a whole; when the returned points differ and one of the decisions
of the model's run (best-cell update, pruning test, queue order) had a margin below 1e-9, the
case is a float tie.

Stand-alone:  /venv/bin/python polydistance.py [seed] [tier]"""
import math
import os
import random
import sys
import time
from fractions import Fraction

if __name__ == '__main__':
    sys.path.insert(0, os.path.dirname(os.path.dirname(os.path.abspath(__file__))))
import lbg  # noqa: E402

from ladybug_geometry.geometry2d.pointvector import Point2D, Vector2D  # noqa: E402
from ladybug_geometry.geometry2d.polygon import Polygon2D, _Cell  # noqa: E402
from ladybug_geometry.geometry2d.line import LineSegment2D  # noqa: E402
from ladybug_geometry.intersection2d import closest_point2d_between_line2d, \
    closest_end_point2d_between_line2d  # noqa: E402
from ladybug_geometry.geometry3d.pointvector import Point3D, Vector3D  # noqa: E402
from ladybug_geometry.geometry3d.plane import Plane  # noqa: E402
from ladybug_geometry.geometry3d.face import Face3D  # noqa: E402

PROPS = ['C12']
MODELS = ['LbgVerif/Model/PolyDistance.lean', 'LbgVerif/Model/SegSeg.lean',
          'LbgVerif/Model/Dispatch_PolyDistance.lean']
REAL = ['ladybug_geometry/geometry2d/polygon.py:Polygon2D.distance_to_point, '
        'distance_from_edge_to_point, pole_of_inaccessibility, _get_centroid_cell; '
        '_Cell.__init__, _point_to_polygon_distance, _get_seg_dist_sq',
        'ladybug_geometry/geometry3d/face.py:Face3D.pole_of_inaccessibility',
        'ladybug_geometry/intersection2d.py:closest_point2d_between_line2d, '
        'closest_end_point2d_between_line2d',
        'ladybug_geometry/geometry2d/line.py:LineSegment2D.closest_points_between_line, '
        'distance_to_line']
TRUSTED = [
    'polydistance (C12): the model computes in exact rationals with an IEEE sqrt of the exact '
    'argument; the real code rounds every operation.  Distances are compared within 1e-12 '
    '(lattice stream) / 1e-9 (float stream) of the coordinate scale; inside/outside decisions '
    'whose exact test value is within 1e-9 of the threshold are float ties and not compared',
    'polydistance (C12): a polylabel run whose returned point differs from the model\'s is a '
    'float tie (not compared) when some decision of the MODEL run (bbox_cell.d > best_cell.d '
    'before the loop, cell.d > best.d, cell.max - best.d <= tol, order of two queue entries) '
    'has a margin below 1e-9; exact ties '
    'of queue keys are broken by insertion order in both and ARE compared when the results agree',
    'polydistance (C12): the margins are computed by the driver from the states between the '
    'model\'s `step`s (instrumentation outside the model); the model run gets fuel 20000 (pops '
    'and grid columns) — a model run that does not finish is reported as a disagreement',
    'polydistance (C12): between_lines — the returned pair of points is compared only when the '
    'smallest of the four candidate squared distances (exact) is separated from the next one '
    'by more than 1e-9 of the scale, or when the points agree; otherwise (sort order decided '
    'by rounding) only the distance is compared and the case counts as a float tie',
    'polydistance (C12): Face3D.pole_of_inaccessibility is compared given the real '
    'face.polygon2d and the real plane.xy_to_xyz (both covered by other properties)']

W = lbg.wnum
REL = Fraction(1, 10 ** 9)
GROUPS = {'C12': ['edge_distance', 'distance_to_point', 'cell', 'pole', 'between_lines']}
STD_TV = (1.0, 0.00001)
FUEL = 20000


def bump(h, k, n=1):
    h[k] = h.get(k, 0) + n


def fpt(p):
    return [W(p[0]), W(p[1])]


def fvs(vs):
    return [fpt(v) for v in vs]


def Q(j):
    return None if j is None else Fraction(j) if isinstance(j, str) else Fraction(j)


# =================================================================== exact helpers
def exact_segments(vs):
    n = len(vs)
    return [(vs[i], vs[(i + 1) % n]) for i in range(n)]


def near(x, thr, scale, exact_ok):
    """x within 1e-9 (relative to scale) of thr; an exact hit is a tie unless exact_ok."""
    if x == thr:
        return not exact_ok
    return abs(x - thr) < REL * scale


def inside_tie(vs, p, tv, exact_ok):
    """Float-tie test for `is_point_inside(p, tv)` (does_intersection_exist_line2d on every
    side); vs, p, tv: tuples of Fractions."""
    scale = max([Fraction(1)] + [abs(c) for v in vs for c in v] + [abs(p[0]), abs(p[1])])
    for a, b in exact_segments(vs):
        avx, avy = b[0] - a[0], b[1] - a[1]
        t1, t2 = tv[1] * avx, tv[0] * avy
        d = t1 - t2
        if d == 0:
            if not exact_ok and (avx != 0 or avy != 0):
                return True
            continue
        if abs(d) <= REL * (abs(t1) + abs(t2)):
            return True
        dy, dx = a[1] - p[1], a[0] - p[0]
        ua = (tv[0] * dy - tv[1] * dx) / d
        if near(ua, 0, 1, exact_ok) or near(ua, 1, 1, exact_ok):
            return True
        if ua < 0 or ua > 1:
            continue
        ub = (avx * dy - avy * dx) / d
        tvn = max(abs(tv[0]), abs(tv[1]))
        if near(ub * tvn, 0, scale, exact_ok):
            return True
        if ub < 0:
            continue
        cond = (abs(avx) + abs(avy)) * (abs(tv[0]) + abs(tv[1])) / abs(d)
        if cond > 2 * 10 ** 5 + 10:
            return True
    return False


def exact_dist2(vs, p):
    """Exact squared distance from p to the closed loop (independent of the model)."""
    best = None
    for a, b in exact_segments(vs):
        vx, vy = b[0] - a[0], b[1] - a[1]
        d = vx * vx + vy * vy
        if d == 0:
            c = a
        else:
            u = ((p[0] - a[0]) * vx + (p[1] - a[1]) * vy) / d
            u = max(min(u, 1), 0)
            c = (a[0] + u * vx, a[1] + u * vy)
        q = (p[0] - c[0]) ** 2 + (p[1] - c[1]) ** 2
        best = q if best is None or q < best else best
    return best


def scale_of(vs, p=None):
    cs = [abs(c) for v in vs for c in v] + ([abs(p[0]), abs(p[1])] if p else [])
    return max([1.0] + [float(c) for c in cs])


def sq_matches(m, r, t):
    """The exact squared value m agrees with the double distance r >= 0 within t."""
    if not isinstance(r, (int, float)) or r != r or r < 0:
        return False
    fr, ft = Fraction(r), Fraction(t)
    lo = max(fr - ft, Fraction(0))
    return lo * lo <= m <= (fr + ft) * (fr + ft)


def num_close(a, b, t):
    """Model number a (Fraction) and real number b within t."""
    if not isinstance(b, (int, float)) or b != b:
        return False
    return abs(a - Fraction(b)) <= Fraction(t)


# =================================================================== generators
def gen_polygon(r, stream):
    """-> list of (x, y) doubles, kind."""
    x = r.random()
    if stream == 'lattice':
        c = lambda: float(r.randint(-4, 4))          # noqa: E731
        q = lambda v: round(v * 2) / 2.0             # noqa: E731
    else:
        c = lambda: r.uniform(-5, 5)                 # noqa: E731
        q = lambda v: v                              # noqa: E731
    if x < 0.12:
        n = r.randint(3, 7)
        return [(c(), c()) for _ in range(n)], 'random loop'
    if x < 0.42:
        n = r.randint(3, 9)
        angs = sorted(r.uniform(0, 2 * math.pi) for _ in range(n))
        rad = r.uniform(2, 5)
        cx, cy = c(), c()
        pts = [(q(cx + rad * math.cos(a)), q(cy + rad * math.sin(a))) for a in angs]
        kind = 'convex'
    elif x < 0.7:
        n = r.randint(4, 10)
        angs = sorted(r.uniform(0, 2 * math.pi) for _ in range(n))
        cx, cy = c(), c()
        pts = [(q(cx + r.uniform(1, 5) * math.cos(a)), q(cy + r.uniform(1, 5) * math.sin(a)))
               for a in angs]
        kind = 'star'
    else:
        base = r.choice([[(0, 0), (4, 0), (4, 2), (2, 2), (2, 4), (0, 4)],
                         [(0, 0), (6, 0), (6, 4), (4, 4), (4, 2), (2, 2), (2, 4), (0, 4)],
                         [(0, 0), (3, 0), (3, 3), (0, 3)],
                         [(0, 0), (7, 0), (7, 2), (0, 2)],
                         [(0, 0), (5, 0), (5, 1), (1, 1), (1, 4), (5, 4), (5, 5), (0, 5)],
                         [(0, 0), (6, 0), (6, 1), (4, 1), (4, 3), (6, 3), (6, 5), (0, 5),
                          (0, 3), (2, 3), (2, 1), (0, 1)]])
        k = r.choice([1.0, 0.5, 2.0]) if stream == 'lattice' else r.uniform(0.5, 2)
        dx, dy = c(), c()
        pts = [(px * k + dx, py * k + dy) for px, py in base]
        if stream != 'lattice' and r.random() < 0.5:
            a = r.uniform(0, 2 * math.pi)
            pts = [(px * math.cos(a) - py * math.sin(a), px * math.sin(a) + py * math.cos(a))
                   for px, py in pts]
        elif r.random() < 0.3:
            pts = [(py, px) for px, py in pts]
        kind = 'rectilinear'
    if r.random() < 0.5:
        pts.reverse()
    s = r.randrange(len(pts))
    return pts[s:] + pts[:s], kind


def gen_point(r, vs, stream):
    xs, ys = [v[0] for v in vs], [v[1] for v in vs]
    x = r.random()
    if x < 0.45:
        if stream == 'lattice':
            den = r.choice([1, 2, 4])
            return (r.randint(int(min(xs)) * den - den, int(max(xs)) * den + den) / float(den),
                    r.randint(int(min(ys)) * den - den, int(max(ys)) * den + den) / float(den)), \
                'box'
        return (r.uniform(min(xs) - 1, max(xs) + 1), r.uniform(min(ys) - 1, max(ys) + 1)), 'box'
    if x < 0.55:
        return r.choice(vs), 'vertex'
    if x < 0.7:
        i = r.randrange(len(vs))
        a, b = vs[i - 1], vs[i]
        t = r.choice([0.5, 0.25, 0.75]) if stream == 'lattice' else r.random()
        return (a[0] + (b[0] - a[0]) * t, a[1] + (b[1] - a[1]) * t), 'on side'
    if x < 0.8:
        i = r.randrange(len(vs))
        a, b = vs[i - 1], vs[i]
        t = r.choice([-0.5, 1.5, 2.0])
        return (a[0] + (b[0] - a[0]) * t, a[1] + (b[1] - a[1]) * t), 'on side line'
    if x < 0.9:
        return (r.uniform(min(xs) - 20, max(xs) + 20), r.uniform(min(ys) - 20, max(ys) + 20)) \
            if stream != 'lattice' else (float(r.randint(-30, 30)), float(r.randint(-30, 30))), \
            'far'
    v = r.choice(vs)        # level with a vertex: the horizontal ray runs through it
    if r.random() < 0.5:
        return (v[0] - r.choice([1.0, 2.5, 0.5, 7.0]), v[1]), 'level with vertex'
    return (v[0], v[1] - r.choice([1.0, 2.5, 0.5, 7.0])), 'below vertex'


SQ = [(0, 0), (4, 0), (4, 4), (0, 4)]
LSH = [(0, 0), (4, 0), (4, 2), (2, 2), (2, 4), (0, 4)]
NOTCH = [(0, 0), (4, 0), (2, 2), (4, 4), (0, 4)]
FIXED_POINTS = [
    (SQ, (2, 2)), (SQ, (5, 2)), (SQ, (4, 2)), (SQ, (0, 0)), (SQ, (6, 7)), (SQ, (-1, 4)),
    (SQ, (2, -3)), (SQ[::-1], (1, 1)), (SQ[::-1], (7, 1)),
    (LSH, (3, 3)), (LSH, (1, 1)), (LSH, (2, 2)), (LSH, (3, 1)), (LSH, (5, 5)), (LSH, (2, 3)),
    (LSH[::-1], (3, 3)), (LSH[::-1], (1, 3)),
    (NOTCH, (3, 2)), (NOTCH, (1, 2)), (NOTCH, (2, 2)), (NOTCH, (4, 2)),
    ([(0, 0), (4, 4), (4, 0), (0, 4)], (1, 2)),        # bow tie
    ([(0, 0), (4, 4), (4, 0), (0, 4)], (2, 1)),
    ([(0, 0), (2, 0), (2, 0), (2, 3)], (1, 1)),        # repeated vertex: zero-length side
    ([(0, 0), (2, 0), (2, 0), (2, 3)], (3, 0)),
    ([(0, 0), (3, 0), (6, 0)], (2, 5)),                # zero-area triangle
    ([(1, 1), (1, 1), (1, 1)], (2, 5)),                # single point
]
FIXED_POLES = [
    (SQ, 0.01), (SQ, 0.5), (SQ[::-1], 0.01), (LSH, 0.01), (LSH, 0.25), (LSH[::-1], 0.01),
    (NOTCH, 0.01), (NOTCH, 1.0),
    ([(0, 0), (8, 0), (8, 1), (0, 1)], 0.01),          # several columns in the first cover
    ([(0, 0), (1, 0), (1, 8), (0, 8)], 0.01),          # several rows
    ([(0, 0), (4, 0), (4, 0.0078125), (0, 0.0078125)], 0.01),   # area < max_dim * tol
    ([(0, 0), (3, 0), (6, 0)], 0.01),                  # cell_size == 0
    ([(0, 0), (0, 3), (0, 6), (0, 2)], 0.01),
    ([(0, 0), (4, 4), (4, 0), (0, 4)], 0.01),          # bow tie
    ([(0, 0), (6, 0), (6, 1), (4, 1), (4, 3), (6, 3), (6, 5), (0, 5), (0, 3), (2, 3), (2, 1),
      (0, 1)], 0.01),                                  # symmetric H: many exact ties
    ([(0, 0), (5, 0), (5, 1), (1, 1), (1, 4), (5, 4), (5, 5), (0, 5)], 0.05),   # C shape
    ([(0, 0), (10, 0), (10, 10), (6, 10), (6, 4), (4, 4), (4, 10), (0, 10)], 0.1),   # U shape
    ([(0, 0), (4, 0), (2, 3)], 0.01), ([(0, 0), (2, 3), (4, 0)], 0.01),
    ([(0, 0), (4, 0), (4, 4), (0, 4)], 100.0),         # tolerance larger than the polygon
    ([(0, 0), (4, 0), (4, 4), (0, 4)], 0.0009765625),
]


# =================================================================== cases
def point_case(vs, p, stream, polykind, ptkind):
    fv = [(Fraction(a), Fraction(b)) for a, b in vs]
    fp = (Fraction(p[0]), Fraction(p[1]))
    std = (Fraction(STD_TV[0]), Fraction(STD_TV[1]))
    xs, ys = [v[0] for v in fv], [v[1] for v in fv]
    in_rect = min(xs) <= fp[0] <= max(xs) and min(ys) <= fp[1] <= max(ys)
    d2 = exact_dist2(fv, fp)
    tie = in_rect and inside_tie(fv, fp, std, stream == 'lattice')
    return {'kind': 'point', 'vs': [list(v) for v in vs], 'p': list(p), 'stream': stream,
            'polykind': polykind, 'ptkind': ptkind, 'in_rect': in_rect, 'd2': d2,
            'inside_tie': tie, 'scale': scale_of(vs, p)}


def point_requests(c):
    v, p, tv = fvs(c['vs']), fpt(c['p']), fpt(STD_TV)
    return [('edge_distance', 'sq', ('model.polygon_edge_distance_sq', [v, p])),
            ('edge_distance', 'fl', ('model.polygon_edge_distance', [v, p])),
            ('distance_to_point', 'sq', ('model.polygon_distance_sq', [v, p, tv])),
            ('distance_to_point', 'fl', ('model.polygon_distance', [v, p, tv]))]


def point_real(c):
    out = {}
    try:
        pg = Polygon2D([Point2D(x, y) for x, y in c['vs']])
        pt = Point2D(*c['p'])
    except Exception as e:      # noqa: BLE001
        return {'edge_distance': ('raise', type(e).__name__),
                'distance_to_point': ('raise', type(e).__name__)}
    for g, f in (('edge_distance', lambda: pg.distance_from_edge_to_point(pt)),
                 ('distance_to_point', lambda: pg.distance_to_point(pt))):
        try:
            out[g] = f()
        except Exception as e:      # noqa: BLE001
            out[g] = ('raise', type(e).__name__)
    return out


def point_compare(c, g, which, val, real):
    """-> None | what."""
    if isinstance(real, tuple):
        return 'raises %s' % real[1]
    t = (1e-12 if c['stream'] == 'lattice' else 1e-9) * c['scale']
    m = Q(val)
    if which == 'sq':
        if not sq_matches(m, real, t):
            return 'squared distance: model %s (%.17g), real distance %r' % (
                val, math.sqrt(float(m)) if m >= 0 else float('nan'), real)
    else:
        if not num_close(m, real, t):
            return 'distance: model %.17g, real %r' % (float(m), real)
    return None


def cell_case(vs, x, y, h, stream, polykind, ptkind):
    return {'kind': 'cell', 'vs': [list(v) for v in vs], 'x': x, 'y': y, 'h': h,
            'stream': stream, 'polykind': polykind, 'ptkind': ptkind,
            'scale': scale_of(vs, (x, y))}


def cell_requests(c):
    v = fvs(c['vs'])
    return [('cell', 'cell', ('model.cell', [v, W(c['x']), W(c['y']), W(c['h'])])),
            ('cell', 'cell_sq', ('model.cell_sq', [v, W(c['x']), W(c['y'])]))]


def cell_real(c):
    try:
        poly = tuple((float(x), float(y)) for x, y in c['vs'])
        k = _Cell(c['x'], c['y'], c['h'], poly)
        return [k.x, k.y, k.h, k.d, k.max]
    except Exception as e:      # noqa: BLE001
        return ('raise', type(e).__name__)


def cell_compare(c, which, val, real):
    if isinstance(real, tuple):
        return 'raises %s' % real[1]
    t = (1e-12 if c['stream'] == 'lattice' else 1e-9) * c['scale']
    if which == 'cell':
        m = [Q(v) for v in val]
        for name, a, b in zip(('x', 'y', 'h', 'd', 'max'), m, real):
            if not num_close(a, b, t if name in ('d', 'max') else 0):
                return '_Cell.%s: model %.17g, real %r' % (name, float(a), b)
        return None
    inside, m = bool(val[0]), Q(val[1])
    d = real[3]
    if not sq_matches(m, abs(d), t):
        return '_Cell min_dist_sq: model %s, real d %r' % (val[1], d)
    if abs(d) > t and inside != (d > 0):
        return '_Cell inside flag: model %s, real d %r' % (inside, d)
    return None


def centroid_case(vs, stream, polykind):
    return {'kind': 'centroid', 'vs': [list(v) for v in vs], 'stream': stream,
            'polykind': polykind, 'ptkind': 'centroid', 'scale': scale_of(vs)}


def centroid_real(c):
    try:
        poly = tuple((float(x), float(y)) for x, y in c['vs'])
        k = Polygon2D._get_centroid_cell(poly)
        return [k.x, k.y, k.h, k.d, k.max]
    except Exception as e:      # noqa: BLE001
        return ('raise', type(e).__name__)


def centroid_compare(c, val, real):
    if isinstance(real, tuple):
        return 'raises %s' % real[1]
    m = [Q(v) for v in val]
    # the centroid is a quotient of sums of products: conditioning by the (possibly tiny) area
    fv = [(Fraction(a), Fraction(b)) for a, b in c['vs']]
    a3 = sum((a[0] * b[1] - b[0] * a[1]) * 3 for b, a in zip([fv[-1]] + fv[:-1], fv))
    mag = sum(abs(a[0] * b[1] - b[0] * a[1]) * 3 for b, a in zip([fv[-1]] + fv[:-1], fv))
    if a3 != 0 and abs(a3) < REL * mag:
        return 'tie'
    cond = float(mag / abs(a3)) if a3 != 0 else 1.0
    t = (1e-12 if c['stream'] == 'lattice' else 1e-9) * c['scale'] * max(1.0, cond)
    for name, a, b in zip(('x', 'y', 'h', 'd', 'max'), m, real):
        if not num_close(a, b, t if name != 'h' else 0):
            return 'centroid cell.%s: model %.17g, real %r' % (name, float(a), b)
    return None


def pole_case(vs, tol, stream, polykind):
    return {'kind': 'pole', 'vs': [list(v) for v in vs], 'tol': tol, 'stream': stream,
            'polykind': polykind, 'ptkind': 'pole', 'scale': scale_of(vs)}


def pole_requests(c):
    return [('pole', 'pole', ('model.pole_of_inaccessibility',
                              [fvs(c['vs']), W(c['tol']), FUEL]))]


def pole_real(c):
    try:
        pg = Polygon2D([Point2D(x, y) for x, y in c['vs']])
        pt = pg.pole_of_inaccessibility(c['tol'])
        poly = tuple((float(x), float(y)) for x, y in c['vs'])
        d = _Cell(pt.x, pt.y, 0, poly).d
        return [pt.x, pt.y, d]
    except Exception as e:      # noqa: BLE001
        return ('raise', type(e).__name__)


def pole_margin(val):
    ms = [Q(m) for m in val[7] if m is not None]
    return min(ms) if ms else None


def pole_compare(c, val, real):
    """-> None | 'tie' | what."""
    if isinstance(real, tuple):
        return 'raises %s' % real[1]
    degenerate, pt, d, pops, probes, complete = val[0], val[1], val[2], val[3], val[4], val[5]
    if not complete:
        return 'model run did not finish within fuel %d (%d pops)' % (FUEL, pops)
    t = (1e-12 if c['stream'] == 'lattice' else 1e-9) * c['scale']
    mx, my = Q(pt[0]), Q(pt[1])
    same_pt = num_close(mx, real[0], t) and num_close(my, real[1], t)
    if degenerate:
        # the early return compares `cell_size == 0 or area < max_dim * tol`
        return None if same_pt else 'degenerate return: model (%.17g, %.17g), real (%r, %r)' % (
            float(mx), float(my), real[0], real[1])
    md = Q(d)
    if same_pt:
        if not num_close(md, real[2], t):
            return 'distance of the pole: model %.17g, real %r' % (float(md), real[2])
        return None
    mg = pole_margin(val)
    band = REL * Fraction(c['scale'])
    if mg is not None and mg < band:
        return 'tie'
    return 'pole: model (%.17g, %.17g) d %.17g after %d pops, real (%r, %r) d %r' % (
        float(mx), float(my), float(md), pops, real[0], real[1], real[2])


def degenerate_tie(c):
    """`cell_size == 0 or area < max_dim * tol` within 1e-9 of switching."""
    fv = [(Fraction(a), Fraction(b)) for a, b in c['vs']]
    xs, ys = [v[0] for v in fv], [v[1] for v in fv]
    w, h = max(xs) - min(xs), max(ys) - min(ys)
    a2 = sum(b[0] * a[1] - b[1] * a[0] for b, a in zip([fv[-1]] + fv[:-1], fv))
    area = abs(a2) / 2
    thr = max(w, h) * Fraction(c['tol'])
    mag = sum(abs(b[0] * a[1]) + abs(b[1] * a[0]) for b, a in zip([fv[-1]] + fv[:-1], fv)) / 2
    if area == thr:
        return c['stream'] != 'lattice'
    return abs(area - thr) < REL * max(mag, thr)


def face_case(vs, tol, plane, stream, polykind):
    return {'kind': 'face', 'vs': [list(v) for v in vs], 'tol': tol, 'plane': plane,
            'stream': stream, 'polykind': polykind, 'ptkind': 'face pole',
            'scale': scale_of(vs)}


def face_build(c):
    o, n, x = c['plane']
    pl = Plane(Vector3D(*n), Point3D(*o), Vector3D(*x))
    pts3 = [pl.xy_to_xyz(Point2D(a, b)) for a, b in c['vs']]
    return Face3D(pts3, pl)


def face_requests(c):
    """The model runs on the vertices of the real face.polygon2d."""
    try:
        f = face_build(c)
        vs2 = [(p.x, p.y) for p in f.polygon2d.vertices]
        c['vs2'] = vs2
        return [('pole', 'face', ('model.pole_of_inaccessibility',
                                  [fvs(vs2), W(c['tol']), FUEL]))]
    except Exception as e:      # noqa: BLE001
        c['build_error'] = type(e).__name__
        return []


def face_real(c):
    try:
        f = face_build(c)
        p3 = f.pole_of_inaccessibility(c['tol'])
        return [p3.x, p3.y, p3.z]
    except Exception as e:      # noqa: BLE001
        return ('raise', type(e).__name__)


def face_compare(c, val, real):
    if isinstance(real, tuple):
        return 'raises %s' % real[1]
    if not val[5]:
        return 'model run did not finish within fuel %d' % FUEL
    f = face_build(c)
    lifted = f.plane.xy_to_xyz(Point2D(float(Q(val[1][0])), float(Q(val[1][1]))))
    t = (1e-12 if c['stream'] == 'lattice' else 1e-9) * c['scale'] * 4
    if all(abs(a - b) <= t for a, b in zip((lifted.x, lifted.y, lifted.z), real)):
        return None
    mg = pole_margin(val)
    if not val[0] and mg is not None and mg < REL * Fraction(c['scale']):
        return 'tie'
    return 'Face3D pole: lifted model %r, real %r' % ((lifted.x, lifted.y, lifted.z), real)


# ------------------------------------------------------------------ segment pairs
def gen_segpair(r, stream):
    """-> ((p, v), (p, v)), kind."""
    if stream == 'lattice':
        c = lambda: r.randint(-8, 8) / 2.0           # noqa: E731
    else:
        c = lambda: r.uniform(-5, 5)                 # noqa: E731
    x = r.random()
    a = ((c(), c()), (c(), c()))
    if x < 0.4:
        return (a, ((c(), c()), (c(), c()))), 'random'
    if x < 0.55:        # parallel (possibly collinear)
        k = r.choice([1.0, -1.0, 0.5, 2.0, -1.5])
        off = r.choice([0.0, 0.0, 1.0, -2.5])
        p = (a[0][0] + r.choice([-2.0, 0.5, 3.0]) * a[1][0] - off * a[1][1],
             a[0][1] + r.choice([-2.0, 0.5, 3.0]) * a[1][1] + off * a[1][0])
        return (a, (p, (a[1][0] * k, a[1][1] * k))), 'parallel'
    if x < 0.7:         # b starts on a (touching / T)
        t = r.choice([0.0, 1.0, 0.5, 0.25])
        p = (a[0][0] + t * a[1][0], a[0][1] + t * a[1][1])
        return (a, (p, (c(), c()))), 'touching'
    if x < 0.8:         # zero-length operand
        if r.random() < 0.5:
            return ((a[0], (0.0, 0.0)), ((c(), c()), (c(), c()))), 'zero length'
        return (a, ((c(), c()), (0.0, 0.0))), 'zero length'
    if x < 0.9:         # crossing (outside the documented precondition)
        m = (a[0][0] + 0.5 * a[1][0], a[0][1] + 0.5 * a[1][1])
        v = (c(), c())
        return (a, ((m[0] - 0.5 * v[0], m[1] - 0.5 * v[1]), v)), 'crossing'
    # perpendicular offset: the closest point of b is interior to a
    n = (-a[1][1], a[1][0])
    t, h = r.choice([0.25, 0.5, 0.75]), r.choice([0.5, 1.0, 2.0])
    p = (a[0][0] + t * a[1][0] + h * n[0], a[0][1] + t * a[1][1] + h * n[1])
    return (a, (p, (n[0] * r.choice([1.0, 0.5]), n[1] * r.choice([1.0, 0.5])))), 'T offset'


# third item: every double operation of the routine is exact on this pair (power-of-two
# lengths, dyadic parameters), so ties between candidates are ties of the doubles too and the
# index order of the sort IS compared
FIXED_SEGPAIRS = [
    (((0, 0), (4, 0)), ((1, 1), (2, 0)), True),   # parallel, overlapping: 3 candidates tie
    (((0, 0), (4, 0)), ((6, 1), (2, 0)), True),   # parallel, end to end
    (((0, 0), (4, 0)), ((6, 0), (2, 0)), True),   # collinear, disjoint: 2 candidates tie
    (((0, 0), (4, 0)), ((2, 1), (0, 2)), True),   # T: end of b above the middle of a
    (((0, 0), (4, 0)), ((2, -1), (0, 2)), True),  # crossing
    (((0, 0), (4, 0)), ((4, 0), (0, 2)), True),   # touching at an end point: 2 tie at 0
    (((0, 0), (0, 0)), ((1, 1), (2, 0)), True),   # zero-length a
    (((0, 0), (4, 0)), ((5, 5), (0, 0)), True),   # zero-length b
    (((0, 0), (0, 0)), ((3, 4), (0, 0)), True),   # both zero length: all four tie
    (((0, 0), (2, 2)), ((3, 0), (0, 1)), False),  # two candidates at the same distance
    (((0, 0), (4, 0)), ((1, 2), (2, 0)), True),   # all four candidates at the same distance
    (((0, 0), (3, 4)), ((10, 0), (1, 7)), False),
]


def seg_case(pair, stream, kind, exact=False):
    (ap, av), (bp, bv) = pair
    cs = [abs(c) for c in (ap + av + bp + bv)] + [abs(ap[0] + av[0]), abs(ap[1] + av[1]),
                                                  abs(bp[0] + bv[0]), abs(bp[1] + bv[1])]
    return {'kind': 'segseg', 'a': [list(ap), list(av)], 'b': [list(bp), list(bv)],
            'vs': [list(ap), list(bp)], 'stream': stream, 'polykind': 'segment pair: ' + kind,
            'exact': exact,
            'ptkind': 'segment pair', 'scale': max([1.0] + [float(c) for c in cs])}


def seg_requests(c):
    wa = [fpt(c['a'][0]), fpt(c['a'][1])]
    wb = [fpt(c['b'][0]), fpt(c['b'][1])]
    return [('between_lines', 'between', ('model.closest_points_between', [wa, wb])),
            ('between_lines', 'ends', ('model.closest_end_points_between', [wa, wb]))]


def seg_real(c):
    out = {}
    try:
        sa = LineSegment2D(Point2D(*c['a'][0]), Vector2D(*c['a'][1]))
        sb = LineSegment2D(Point2D(*c['b'][0]), Vector2D(*c['b'][1]))
    except Exception as e:      # noqa: BLE001
        return {'between': ('raise', type(e).__name__), 'ends': ('raise', type(e).__name__)}
    for which, f in (('between', closest_point2d_between_line2d),
                     ('ends', closest_end_point2d_between_line2d)):
        try:
            d, (pa, pb) = f(sa, sb)
            out[which] = [d, (pa.x, pa.y), (pb.x, pb.y)]
            if which == 'between':
                m1, m2 = sa.closest_points_between_line(sb), sa.distance_to_line(sb)
                out[which].append([(m1[0].x, m1[0].y), (m1[1].x, m1[1].y), m2])
        except Exception as e:      # noqa: BLE001
            out[which] = ('raise', type(e).__name__)
    return out


def seg_compare(c, which, val, real):
    """-> None | 'tie' | what."""
    r = real[which]
    if isinstance(r, tuple):
        return 'raises %s' % r[1]
    t = (1e-12 if c['stream'] == 'lattice' else 1e-9) * c['scale']
    md, pa, pb, sq = Q(val[0]), val[1], val[2], sorted(Q(x) for x in val[3])
    if not num_close(md, r[0], t):
        return 'distance: model %.17g, real %r' % (float(md), r[0])
    if not sq_matches(sq[0], r[0], t):
        return 'squared distance: model min %s, real distance %r' % (sq[0], r[0])
    if which == 'between':
        (q1, q2, d2) = r[3]
        if d2 != r[0] or q1 != r[1] or q2 != r[2]:
            return 'LineSegment2D methods differ from the function: %r vs %r' % (r[3], r[:3])
    same = all(num_close(Q(m), x, t) for m, x in zip(pa + pb, r[1] + r[2]))
    if same:
        return None
    if sq[1] - sq[0] <= REL * Fraction(c['scale']) ** 2 and not c.get('exact'):
        return 'tie'
    return 'points: model %s %s, real %r %r' % (
        [float(Q(m)) for m in pa], [float(Q(m)) for m in pb], r[1], r[2])


# =================================================================== run
def requests_of(c):
    if c['kind'] == 'point':
        return point_requests(c)
    if c['kind'] == 'cell':
        return cell_requests(c)
    if c['kind'] == 'centroid':
        return [('cell', 'centroid', ('model.centroid_cell', [fvs(c['vs'])]))]
    if c['kind'] == 'pole':
        return pole_requests(c)
    if c['kind'] == 'segseg':
        return seg_requests(c)
    return face_requests(c)


def real_of(c):
    if c['kind'] == 'point':
        return point_real(c)
    if c['kind'] == 'cell':
        return cell_real(c)
    if c['kind'] == 'centroid':
        return centroid_real(c)
    if c['kind'] == 'pole':
        return pole_real(c)
    if c['kind'] == 'segseg':
        return seg_real(c)
    return face_real(c)


def judge(c, g, which, val, real):
    """-> (verdict, nontrivial): verdict None (agree) | 'tie' | what."""
    k = c['kind']
    if k == 'point':
        r = real[g]
        if g == 'distance_to_point' and c['inside_tie'] and not isinstance(r, tuple):
            return 'tie', False
        # non-trivial: the minimum over the sides is taken at a positive distance and — for
        # distance_to_point — the inside test is reached (point in the bounding rectangle)
        nt = c['d2'] > 0 and (g == 'edge_distance' or c['in_rect'])
        return point_compare(c, g, which, val, r), nt
    if k == 'cell':
        return cell_compare(c, which, val, real), True
    if k == 'centroid':
        return centroid_compare(c, val, real), True
    if k == 'pole':
        if degenerate_tie(c) and not isinstance(real, tuple):
            return 'tie', False
        return pole_compare(c, val, real), (not val[0]) and val[3] > val[6]
    if k == 'segseg':
        # non-trivial: the segments do not touch (positive distance)
        return seg_compare(c, which, val, real), min(Q(x) for x in val[3]) > 0
    return face_compare(c, val, real), not val[0]


def case_key(c):
    return {k: c[k] for k in ('kind', 'vs', 'p', 'x', 'y', 'h', 'tol', 'plane', 'stream',
                              'polykind', 'ptkind', 'a', 'b', 'exact') if k in c}


def rebuild(k):
    kind = k['kind']
    vs = [tuple(v) for v in k['vs']]
    if kind == 'point':
        return point_case(vs, tuple(k['p']), k['stream'], k['polykind'], k['ptkind'])
    if kind == 'cell':
        return cell_case(vs, k['x'], k['y'], k['h'], k['stream'], k['polykind'], k['ptkind'])
    if kind == 'centroid':
        return centroid_case(vs, k['stream'], k['polykind'])
    if kind == 'pole':
        return pole_case(vs, k['tol'], k['stream'], k['polykind'])
    if kind == 'segseg':
        return seg_case(((tuple(k['a'][0]), tuple(k['a'][1])),
                         (tuple(k['b'][0]), tuple(k['b'][1]))), k['stream'],
                        k['polykind'].replace('segment pair: ', ''), k.get('exact', False))
    return face_case(vs, k['tol'], k['plane'], k['stream'], k['polykind'])


def evaluate(ctx, cases, out, hist, found, tag):
    reqs, owners = [], []
    for c in cases:
        for g, which, rq in requests_of(c):
            reqs.append(rq)
            owners.append((c, g, which))
        if c.get('build_error'):
            bump(hist['skipped'], 'face construction raises ' + c['build_error'])
    answers = ctx.driver.run(reqs)
    reals = {}
    for (c, g, which), (ok, val), rq in zip(owners, answers, reqs):
        if id(c) not in reals:
            reals[id(c)] = real_of(c)
            bump(hist['polygon'], c['polykind'])
            bump(hist['query'], c['ptkind'])
            bump(hist['stream'], c['stream'])
            bump(hist['vertices'], len(c['vs']))
            bump(hist['case kind'], c['kind'])
        real = reals[id(c)]
        if not ok:
            verdict, nt = 'driver error: %s' % str(val)[:100], False
        else:
            try:
                verdict, nt = judge(c, g, which, val, real)
            except Exception as e:      # noqa: BLE001
                verdict, nt = 'comparison raises %s: %s' % (type(e).__name__, str(e)[:80]), False
        if verdict == 'tie':
            out['float_ties'] += 1
            bump(hist['float ties'], '%s/%s' % (g, which))
            continue
        out['requests'] += 1
        bump(hist['group'], g)
        if verdict is None:
            if nt:
                out['nontrivial'] += 1
            if c['kind'] == 'pole' and ok and not val[0]:
                bump(hist['pole pops (log2)'], int(math.log2(max(1, val[3]))))
                mg = pole_margin(val)
                bump(hist['pole least margin'], 'exact tie (counter decides)' if mg == 0 else
                     '< 1e-9' if mg is not None and mg < REL else '>= 1e-9')
            if c['kind'] == 'pole' and ok and val[0]:
                bump(hist['pole pops (log2)'], 'degenerate')
            if c['kind'] == 'point' and which == 'sq' and g == 'distance_to_point':
                bump(hist['distance_to_point result'],
                     'boundary' if c['d2'] == 0 else
                     'zero (inside)' if Q(val) == 0 else
                     'positive in rectangle' if c['in_rect'] else 'positive outside rectangle')
            if len(out['samples']) < 3 and nt and c['polykind'] != 'fixed corpus' and \
                    c['kind'] in ('pole', 'point') and which in ('pole', 'sq') and \
                    not any(s['op'] == rq[0] for s in out['samples']):
                out['samples'].append({'op': rq[0], 'args': rq[1], 'model': val,
                                       'real': real[g] if c['kind'] == 'point' else real,
                                       'agrees': True})
            continue
        short = verdict.split(':')[0]
        sig = '%s|%s (%s)' % (rq[0], short, c['kind'])
        if sig not in found:
            rv = real[g] if c['kind'] == 'point' else \
                real.get(which) if c['kind'] == 'segseg' else real
            found[sig] = {'signature': sig, 'op': rq[0], 'args': rq[1], 'group': g,
                          'which': which, 'case': case_key(c),
                          'what': '%s %s: %s' % (c['kind'], {k: v for k, v in case_key(c).items()
                                                             if k not in ('kind',)}, verdict),
                          'model': val, 'real': rv if not isinstance(rv, tuple) else rv[1],
                          'seed': '%s/%s' % (ctx.seed, tag)}


def make_cases(r, n_poly, thorough):
    cases = []
    for _ in range(n_poly):
        stream = 'lattice' if r.random() < 0.7 else 'float'
        vs, kind = gen_polygon(r, stream)
        for _ in range(3):
            p, pk = gen_point(r, vs, stream)
            cases.append(point_case(vs, p, stream, kind, pk))
        # cells: centres as the polylabel run makes them (dyadic offsets) and at query points
        p, pk = gen_point(r, vs, stream)
        h = r.choice([0.0, 0.5, 1.0, 0.125, 2.0])
        cases.append(cell_case(vs, p[0], p[1], h, stream, kind, pk))
        if r.random() < 0.5:
            cases.append(centroid_case(vs, stream, kind))
        if r.random() < (0.5 if thorough else 0.3):
            tol = r.choice([0.5, 0.25, 0.1, 0.05, 0.01, 1.0] + ([0.002] if thorough else []))
            xs, ys = [v[0] for v in vs], [v[1] for v in vs]
            while max(max(xs) - min(xs), max(ys) - min(ys)) > 1500 * tol:
                tol *= 2        # keeps the number of cells along a ridge (and the fuel) bounded
            if r.random() < 0.2:
                o = tuple(float(r.randint(-3, 3)) for _ in range(3))
                n, x = r.choice([((0, 0, 1), (1, 0, 0)), ((0, 0, -1), (0, 1, 0)),
                                 ((1, 0, 0), (0, 1, 0)), ((0, 1, 0), (0, 0, 1)),
                                 ((0, -1, 0), (1, 0, 0))])
                cases.append(face_case(vs, tol, (o, n, x), stream, kind))
            else:
                cases.append(pole_case(vs, tol, stream, kind))
    for _ in range(n_poly):
        stream = 'lattice' if r.random() < 0.7 else 'float'
        pair, kind = gen_segpair(r, stream)
        if r.random() < 0.5:
            pair = (pair[1], pair[0])
        cases.append(seg_case(pair, stream, kind))
    return cases


def fixed_cases():
    cases = []
    for vs, p in FIXED_POINTS:
        v = [(float(a), float(b)) for a, b in vs]
        cases.append(point_case(v, (float(p[0]), float(p[1])), 'lattice', 'fixed corpus',
                                'fixed corpus'))
        cases.append(cell_case(v, float(p[0]), float(p[1]), 0.5, 'lattice', 'fixed corpus',
                               'fixed corpus'))
        cases.append(centroid_case(v, 'lattice', 'fixed corpus'))
    for vs, tol in FIXED_POLES:
        v = [(float(a), float(b)) for a, b in vs]
        cases.append(pole_case(v, tol, 'lattice', 'fixed corpus'))
    cases.append(face_case([(float(a), float(b)) for a, b in LSH], 0.01,
                           ((1.0, 2.0, 3.0), (0, 0, 1), (1, 0, 0)), 'lattice', 'fixed corpus'))
    for (ap, av), (bp, bv), exact in FIXED_SEGPAIRS:
        f = lambda q: (float(q[0]), float(q[1]))     # noqa: E731
        cases.append(seg_case(((f(ap), f(av)), (f(bp), f(bv))), 'lattice', 'fixed corpus', exact))
        cases.append(seg_case(((f(bp), f(bv)), (f(ap), f(av))), 'lattice', 'fixed corpus', exact))
    return cases


def check_one(ctx, key, g, which):
    """One case, one request -> None | (what, model, real)."""
    c = rebuild(key)
    rqs = [(gg, w, rq) for gg, w, rq in requests_of(c) if gg == g and w == which]
    if not rqs:
        return None
    ok, val = ctx.driver.run([rqs[0][2]])[0]
    real = real_of(c)
    if not ok:
        return ('driver error', val, None)
    verdict, _ = judge(c, g, which, val, real)
    if verdict is None or verdict == 'tie':
        return None
    rv = real[g] if c['kind'] == 'point' else real.get(which) if c['kind'] == 'segseg' else real
    return (verdict, val, rv if not isinstance(rv, tuple) else rv[1])


def shrink(ctx, d, deadline):
    """Drop polygon vertices one at a time while the same kind of disagreement remains."""
    key = d['case']
    short = d['signature']
    for _ in range(6):
        if time.time() > deadline or len(key['vs']) <= 3 or key['kind'] == 'segseg':
            break
        better = None
        for j in range(len(key['vs'])):
            k2 = dict(key, vs=key['vs'][:j] + key['vs'][j + 1:])
            try:
                bad = check_one(ctx, k2, d['group'], d['which'])
            except Exception:       # noqa: BLE001
                bad = None
            if bad and ('%s|%s (%s)' % (d['op'], bad[0].split(':')[0], key['kind'])) == short:
                better = (k2, bad)
                break
            if time.time() > deadline:
                break
        if better is None:
            break
        key = better[0]
        d = dict(d, case=key, model=better[1][1], real=better[1][2],
                 what='%s %s: %s' % (key['kind'], {k: v for k, v in key.items() if k != 'kind'},
                                     better[1][0]))
    return d


def budget(ctx):
    thorough = ctx.tier == 'thorough' or bool(getattr(ctx, 'broken', None))
    t = time.time()
    wall = 200.0 if thorough else 9.0
    return thorough, min(t + wall, getattr(ctx, 'deadline', float('inf')) - 5), \
        t + (280.0 if thorough else 18.0)


def run(ctx, prop):
    t0 = time.time()
    thorough, stop, hard_stop = budget(ctx)
    hist = dict((k, {}) for k in ('polygon', 'query', 'stream', 'vertices', 'case kind', 'group',
                                  'float ties', 'pole pops (log2)', 'pole least margin',
                                  'distance_to_point result', 'skipped'))
    out = {'requests': 0, 'nontrivial': 0, 'disagreements': [], 'float_ties': 0,
           'histograms': hist, 'samples': [], 'groups': GROUPS.get(prop, [])}
    if prop != 'C12':
        out['rule'] = 'property not covered by this module'
        return out
    out['rule'] = ('request = one model op on one polygon (+ point / cell / tolerance) compared '
                   'with the real routine; non-trivial = distance requests: the exact distance to '
                   'the boundary is positive (and, for distance_to_point, the point is in the '
                   'bounding rectangle so the crossing test decides); cell requests: all; pole '
                   'requests: not the degenerate early return and at least one cell was split; '
                   'segment pairs: the exact distance is positive')
    found = {}
    r = random.Random('%s/corr.polydistance.C12' % ctx.seed)
    evaluate(ctx, fixed_cases(), out, hist, found, 'fixed')
    rounds = 0
    while time.time() < stop and (rounds == 0 or thorough) and rounds < 12:
        t1 = time.time()
        evaluate(ctx, make_cases(r, 250 if thorough else 150, thorough), out, hist, found,
                 'round%d' % rounds)
        rounds += 1
        if time.time() + (time.time() - t1) > stop:
            break
    for n, sig in enumerate(sorted(found)[:8]):
        d = found[sig]
        if n < 3 and time.time() < hard_stop:
            try:
                d = shrink(ctx, d, hard_stop)
            except Exception:       # noqa: BLE001 - shrinking is best effort
                pass
        out['disagreements'].append(d)
    out['seconds'] = round(time.time() - t0, 1)
    return out


def replay(ctx, disagreement):
    """Re-run one recorded disagreement on the current tree."""
    bad = check_one(ctx, disagreement['case'], disagreement['group'], disagreement['which'])
    if not bad:
        return None
    return dict(disagreement, model=bad[1], real=bad[2])


if __name__ == '__main__':
    class Ctx(object):
        pass
    ctx = Ctx()
    ctx.seed = int(sys.argv[1]) if len(sys.argv) > 1 else int(os.environ.get('VERIF_SEED', '0'))
    ctx.tier = sys.argv[2] if len(sys.argv) > 2 else os.environ.get('VERIF_TIER', 'quick')
    ctx.broken = []
    ctx.driver = lbg.Driver()
    ctx.deadline = time.time() + 3600
    rc = 0
    for prop in PROPS:
        t = time.time()
        res = run(ctx, prop)
        print('%s %s seed %s %s: %d requests, %d non-trivial, %d float ties, %d disagreements, '
              '%.1f s' % (os.path.basename(__file__), prop, ctx.seed, ctx.tier, res['requests'],
                          res['nontrivial'], res['float_ties'], len(res['disagreements']),
                          time.time() - t))
        for k, v in sorted(res['histograms'].items()):
            print('  %s: %s' % (k, dict(sorted(v.items(), key=lambda kv: str(kv[0])))))
        for s in res['samples']:
            print('  sample:', str(s)[:300])
        for d in res['disagreements']:
            rc = 1
            print('DISAGREEMENT', d['signature'], '::', d['what'][:600])
            again = replay(ctx, d)
            print('   replay:', 'reproduced' if again else 'NOT reproduced')
    sys.exit(rc)
